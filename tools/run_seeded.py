#!/usr/bin/env python3
"""Apply every kept seeded change (/verif/seeded/<id>/patch.diff) to /repo, run the quick check of the property it breaks
(and optionally all checks), undo it straight afterwards, and write the detection matrix to /verif/seeded/RESULTS.json."""
import json, os, subprocess, sys, glob, time

VERIF = os.path.dirname(os.path.dirname(os.path.abspath(__file__)))
REPO = '/repo'


def sh(cmd, **kw):
    return subprocess.run(cmd, shell=True, stdout=subprocess.PIPE, stderr=subprocess.STDOUT, text=True, **kw)


def main():
    only = sys.argv[1:] if len(sys.argv) > 1 else None
    all_checks = os.environ.get('SEEDED_ALL') == '1'
    res_path = os.path.join(VERIF, 'seeded', 'RESULTS.json')
    results = json.load(open(res_path)) if os.path.exists(res_path) else {}
    claimed = [c['property_id'] for c in json.load(open(os.path.join(VERIF, 'MANIFEST.json')))['checks']]
    for d in sorted(glob.glob(os.path.join(VERIF, 'seeded', '*'))):
        sid = os.path.basename(d)
        if not os.path.isdir(d) or (only and sid not in only):
            continue
        meta = json.load(open(os.path.join(d, 'meta.json')))
        assert sh(f'git -C {REPO} status --porcelain').stdout.strip() == '', '/repo is not clean'
        r = sh(f'git -C {REPO} apply {d}/patch.diff')
        if r.returncode != 0:
            results[sid] = dict(error='patch does not apply: ' + r.stdout[:300])
            continue
        try:
            props = claimed if all_checks else [meta['property']]
            row = {}
            for p in props:
                t0 = time.time()
                o = sh(f'cd {VERIF} && timeout 3000 /venv/bin/python check.py {p} --tier quick')
                lines = [l for l in o.stdout.splitlines() if l.startswith(('VIOLATION', 'OK ', 'KNOWN-FINDING', 'INFRASTRUCTURE', '# '))]
                row[p] = dict(rc=o.returncode, wall=round(time.time() - t0, 1), lines=lines[:4])
            results[sid] = dict(property=meta['property'], detected=row[meta['property']]['rc'] == 1, checks=row)
            print(sid, meta['property'], 'DETECTED' if results[sid]['detected'] else 'MISSED', row[meta['property']]['lines'][:2])
        finally:
            sh(f'git -C {REPO} checkout -- .')
            sh(f'cd {VERIF}/lean && python3 {VERIF}/tools/py2lean.py {REPO} {VERIF}/lean >/dev/null')
        json.dump(results, open(res_path, 'w'), indent=1)


if __name__ == '__main__':
    main()
