"""Translator for explicit-stack loops over Python lists (wave 5): `BinaryCLT.to_pc`, `BinaryCLT.get_scopes`, `build_xpc`.

A loop `while <stack>: <body>` whose state is a fixed tuple of local variables (Python lists of objects, and one variable
holding the object visited last, `None` at the start) is rendered as ONE Lean function from the state before an iteration to
the state after it, by symbolic execution of the body: every statement rewrites an environment `variable -> Lean term`, an
`if` statement executes both branches and merges the environments variable by variable (`if c then a else b`).

Python list idioms and their rendering (lists keep the orientation of the Python lists: `append` = at the end):
    xs[-1]              the match at the head of the function: `match xs.getLast? with | none => <state unchanged> | some node => …`
                        (only as the first statement of the body, on the loop-condition variable: the loop runs while it is non-empty)
    xs[-k:]             Py5.suffix xs k        (Python: the last k entries, the WHOLE list for k = 0)
    del xs[-k:]         xs := Py5.delSuffix xs k   (Python: drops the last k entries, EVERYTHING for k = 0)
    xs[:len(xs) - k]    Py5.dropLastN xs k     (prefix without the last k entries; k > len(xs) gives a negative stop: not modelled, Nat subtraction)
    xs.append(e)        xs := xs ++ [e]
    xs.extend(ys)       xs := xs ++ ys
    ys[::-1]            ys.reverse
    v = xs.pop()        v := xs.getLast?   (an Option: the variable is the "visited last" one, `None` before),  xs := xs.dropLast
    [a, b], a + b       [a, b], a ++ b;   lit[0] on a literal list is resolved statically
    [v for s in ys for v in s]   ys.flatten
    len(e)              e.length
    o.m()               (m' o) for the argument-less methods in `methods`
    F(a, k=b)           (f' a b) for the constructors in `ctors` (positional then keyword arguments in the declared order)
    d[k]                (d' k) for the tables in `tables`; a further [j] with a constant j appends the argument j
    e in ys             (isIn e ys): identity membership of an optional object in a list of objects (parameter)
    not / or / and      ! / || / &&
Idioms added for `build_xpc` (each one only when its table is given; the two earlier fragments do not use them):
    o.a                 (a' o) for the attributes in `attrs` (plain reads only)
    [f(x) for x in xs]  ((xs).map (fun x1 => …))     one generator, no condition; the bound variable gets a canonical name `x<depth>`
    a / b               (div a b) for INTEGER terms a, b (`len(…)` or a literal): an uninterpreted parameter, no arithmetic is assumed
    a == b              (a == b) for INTEGER terms a, b
    isinstance(c, K)    (isK c) for the classes in `classes`: one predicate parameter per class
    G(a, k, b)          (g' k) for the functions in `opaque`: every argument marked as a constant must be exactly the named loop
                        constant (a parameter of the enclosing function that is assigned nowhere), the others are translated
    for c in xs: <body> acc := acc ++ (xs).flatMap (fun x1 => <what the body adds for x1>) when `acc` is bound to `[]` at that point,
                        is not a state variable, the body reads `acc` only as the receiver of `append` / `extend`, changes no
                        other variable and the loop has no `else`, `break` or `continue`
Idioms added for the Kahn loops of structure/node.py (`topological_order`, `topological_order_layered`); each one only when the
table `counters` is given (the three earlier fragments do not pass it, their output is unchanged):
    d = defaultdict(int)   d := emptyCount              for the dictionaries of integer counters named in `counters`
    d[k] = 3               d := (setCount d k 3)        (non-negative integer literal)
    d[k] += 1 / d[k] -= 1  d := (setCount d k ((getCount d k) + 1)) / … - 1)
    d[k]                   (getCount d k)               an INTEGER term (a missing key reads 0: `defaultdict(int)`)
    sum(d.values())        (sumValues d)                an INTEGER term (uninterpreted: the sum over the keys present)
    a == b, a != b         (a == b), (a != b)           for INTEGER terms
    list(), deque([a])     [], [a]                      (a deque is a list whose FRONT is its head)
    not xs                 (xs).isEmpty                 for the local lists named in `lists`
    xs[-1]                 last                         for the lists in `last_of`, read before any change of xs: hoisted into
                           `match xs.getLast? with | none => raised | some last => …` (`raised`: the IndexError branch, a parameter)
    for c in xs: <body>    vars := (xs).foldl (fun (st1 : types) x1 => <the values after the body>) (vars) for the variables
                           `vars` the body changes (state variables first, in state order, then locals in order of definition);
                           nested `for` loops allowed, no `else` / `break` / `continue` / `return`; types from `types`
    while q: node = q.popleft(); …     `loop_step_queue`:   match q.head? with | none => <unchanged> | some node => … (q := q.tail)
    while True: … if c: break …        `loop_step_forever`: (c, <state at the break if c else the state after the body>); exactly one
                           top-level `if c: break`
Idioms added for the generators `bfs` / `dfs_post_order` of structure/node.py; only when the table `sets` is given:
    s = {a}                s := [a]                     a set of node objects read ONLY through membership tests: a list
    s.add(c)               s := s ++ [c]
    c not in s             (!(isIn c s))
    set(xs).issubset(s)    ((xs).all (fun x1 => (isIn x1 s)))
    yield e                yielded := yielded ++ [e]    (`yields`: the list of everything the generator has produced so far)
    xs.pop()               xs := xs.dropLast            (as a statement)
    if c: …; continue      `loop_step_stack`: at the top level of the loop body, the statements after it become its `else` branch
Anything else raises Untranslatable — never a default reading."""
import ast


class LP:
    def __init__(self, T, what, state, methods, ctors, tables, member='isIn', attrs=None, classes=None, opaque=None, div=None,
                 counters=None, lists=None, last_of=None, types=None, sets=None, yields=None):
        self.T, self.U, self.what = T, T.Untranslatable, what
        self.state = list(state)          # [(python name, lean name)]
        self.methods, self.ctors, self.tables, self.member = methods, ctors, tables, member
        self.attrs, self.classes, self.opaque, self.div = attrs or {}, classes or {}, opaque or {}, div
        self.ext = bool(attrs or classes or opaque or div)      # the idioms added for `build_xpc` are enabled
        self.aliases = set()
        self.depth = 0                    # nesting depth of bound variables (comprehensions, `for` loops): canonical names x1, x2, …
        # the Kahn-loop idioms: counters = {python name: (getCount, setCount, emptyCount, sumValues)}
        self.counters, self.lists, self.last_of, self.types = counters or {}, set(lists or ()), set(last_of or ()), types or {}
        self.cnt = bool(self.counters)
        self.need_last = None
        # the generator idioms: sets = python names of sets of objects (read through membership only), yields = python-side key of the
        # state component that collects the yielded values
        self.sets, self.yields = set(sets or ()), yields

    def fail(self, msg, node=None):
        raise self.U(f'{self.what}: {msg}' + (f' [{ast.unparse(node)[:80]}]' if node is not None else ''))

    # ---- expressions: value = ('t', leanTerm) | ('lit', [values]) | ('tab', lean, key) --------------------------------
    def term(self, v):
        if v[0] == 't':
            return v[1]
        if v[0] == 'lit':
            return '[' + ', '.join(self.term(x) for x in v[1]) + ']'
        self.fail('a table row is used as a value')

    def neg_len(self, e, env):
        """`-k` -> Lean term of k"""
        if isinstance(e, ast.UnaryOp) and isinstance(e.op, ast.USub):
            return self.term(self.ex(e.operand, env))
        self.fail('slice bound is not of the form -k', e)

    def int_term(self, e, env):
        """Lean term of an INTEGER expression: `len(…)` or a non-negative integer literal (nothing else is read as a number)"""
        if isinstance(e, ast.Call) and isinstance(e.func, ast.Name) and e.func.id == 'len' and len(e.args) == 1 and not e.keywords:
            return self.term(self.ex(e, env))
        if isinstance(e, ast.Constant) and isinstance(e.value, int) and not isinstance(e.value, bool) and e.value >= 0:
            return str(e.value)
        if self.cnt:
            c = self.counter_read(e, env)
            if c is not None:
                return c
            if (isinstance(e, ast.Call) and isinstance(e.func, ast.Name) and e.func.id == 'sum' and 'sum' not in env and len(e.args) == 1
                    and not e.keywords and isinstance(e.args[0], ast.Call) and isinstance(e.args[0].func, ast.Attribute)
                    and e.args[0].func.attr == 'values' and not e.args[0].args and not e.args[0].keywords
                    and isinstance(e.args[0].func.value, ast.Name) and e.args[0].func.value.id in self.counters
                    and e.args[0].func.value.id in env):
                d = e.args[0].func.value.id
                return f'({self.counters[d][3]} {self.term(env[d])})'
        self.fail('not an integer term (`len(…)` or a literal)', e)

    def counter_read(self, e, env):
        """`d[k]` for a dictionary of counters d -> (getCount d k), else None"""
        if (isinstance(e, ast.Subscript) and isinstance(e.value, ast.Name) and e.value.id in self.counters and e.value.id in env
                and not isinstance(e.slice, ast.Slice)):
            return f'({self.counters[e.value.id][0]} {self.term(env[e.value.id])} {self.term(self.ex(e.slice, env))})'
        return None

    def bind(self, target, env):
        """a fresh canonical name for the variable a comprehension / `for` loop binds (renaming it in the source changes nothing)"""
        if not isinstance(target, ast.Name):
            self.fail('bound variable is not a name', target)
        if target.id in env or target.id in dict(self.state):
            self.fail(f'bound variable {target.id} shadows a variable of the loop', target)
        self.depth += 1
        env2 = dict(env)
        env2[target.id] = ('t', f'x{self.depth}')
        return f'x{self.depth}', env2

    def ex(self, e, env):
        if isinstance(e, ast.Name):
            if e.id in env:
                return env[e.id]
            self.fail(f'unknown name {e.id}')
        if isinstance(e, ast.Constant):
            if isinstance(e.value, bool):
                return ('t', 'true' if e.value else 'false')
            if isinstance(e.value, (int, float)) and float(e.value) == int(e.value) and int(e.value) >= 0:
                return ('t', str(int(e.value)))
            if e.value is None:
                return ('t', 'none')
            self.fail('constant', e)
        if isinstance(e, ast.List):
            return ('lit', [self.ex(x, env) for x in e.elts])
        if isinstance(e, ast.BinOp) and isinstance(e.op, ast.Add):
            return ('t', f'({self.term(self.ex(e.left, env))} ++ {self.term(self.ex(e.right, env))})')
        if isinstance(e, ast.BinOp) and isinstance(e.op, ast.Div) and self.div:
            return ('t', f'({self.div} {self.int_term(e.left, env)} {self.int_term(e.right, env)})')
        if isinstance(e, ast.Attribute) and e.attr in self.attrs and isinstance(e.ctx, ast.Load):
            return ('t', f'({self.attrs[e.attr]} {self.term(self.ex(e.value, env))})')
        if isinstance(e, ast.Compare) and len(e.ops) == 1 and isinstance(e.ops[0], ast.Eq) and self.ext:
            return ('t', f'({self.int_term(e.left, env)} == {self.int_term(e.comparators[0], env)})')
        if isinstance(e, ast.Compare) and len(e.ops) == 1 and isinstance(e.ops[0], (ast.Eq, ast.NotEq)) and self.cnt:
            op = '==' if isinstance(e.ops[0], ast.Eq) else '!='
            return ('t', f'({self.int_term(e.left, env)} {op} {self.int_term(e.comparators[0], env)})')
        if isinstance(e, ast.UnaryOp) and isinstance(e.op, ast.Not) and isinstance(e.operand, ast.Name) and e.operand.id in self.lists:
            return ('t', f'({self.term(self.ex(e.operand, env))}).isEmpty')
        if isinstance(e, ast.UnaryOp) and isinstance(e.op, ast.Not):
            return ('t', f'(!{self.term(self.ex(e.operand, env))})')
        if isinstance(e, ast.BoolOp):
            op = ' || ' if isinstance(e.op, ast.Or) else ' && '
            return ('t', '(' + op.join(self.term(self.ex(x, env)) for x in e.values) + ')')
        if (isinstance(e, ast.Compare) and len(e.ops) == 1 and isinstance(e.ops[0], ast.NotIn) and self.sets
                and isinstance(e.comparators[0], ast.Name) and e.comparators[0].id in self.sets):
            return ('t', f'(!({self.member} {self.term(self.ex(e.left, env))} {self.term(self.ex(e.comparators[0], env))}))')
        if isinstance(e, ast.Compare) and len(e.ops) == 1 and isinstance(e.ops[0], ast.In):
            return ('t', f'({self.member} {self.term(self.ex(e.left, env))} {self.term(self.ex(e.comparators[0], env))})')
        if isinstance(e, ast.ListComp):
            # [v for s in ys for v in s]
            g = e.generators
            if (len(g) == 2 and not g[0].ifs and not g[1].ifs and isinstance(e.elt, ast.Name) and isinstance(g[0].target, ast.Name)
                    and isinstance(g[1].target, ast.Name) and isinstance(g[1].iter, ast.Name) and g[1].iter.id == g[0].target.id
                    and e.elt.id == g[1].target.id):
                return ('t', f'({self.term(self.ex(g[0].iter, env))}).flatten')
            if len(g) == 1 and not g[0].ifs and not g[0].is_async and self.ext:
                # [f(x) for x in xs]
                xs = self.term(self.ex(g[0].iter, env))
                x, env2 = self.bind(g[0].target, env)
                body = self.term(self.ex(e.elt, env2))
                self.depth -= 1
                return ('t', f'(({xs}).map (fun {x} => {body}))')
            self.fail('list comprehension', e)
        if isinstance(e, ast.Subscript):
            sl = e.slice
            if isinstance(sl, ast.Slice):
                base = self.term(self.ex(e.value, env))
                if sl.lower is None and sl.upper is None and sl.step is not None and ast.unparse(sl.step) == '-1':
                    return ('t', f'({base}).reverse')
                if sl.step is not None:
                    self.fail('slice with a step', e)
                if sl.lower is not None and sl.upper is None:
                    return ('t', f'(Py5.suffix {base} {self.neg_len(sl.lower, env)})')
                if sl.lower is None and sl.upper is not None:
                    u = sl.upper
                    if (isinstance(u, ast.BinOp) and isinstance(u.op, ast.Sub) and ast.unparse(u.left) == f'len({ast.unparse(e.value)})'):
                        return ('t', f'(Py5.dropLastN {base} {self.term(self.ex(u.right, env))})')
                self.fail('slice', e)
            if isinstance(e.value, ast.Name) and e.value.id in self.tables and e.value.id not in env:
                return ('tab', self.tables[e.value.id], self.term(self.ex(sl, env)))
            if isinstance(e.value, ast.Name) and e.value.id in self.last_of and ast.unparse(sl) == '-1':
                xs = e.value.id
                if env.get(xs) != ('t', dict(self.state).get(xs)):
                    self.fail(f'{xs}[-1] is read after {xs} was changed', e)
                if self.need_last not in (None, xs):
                    self.fail('two different lists are read with [-1]', e)
                self.need_last = xs
                return ('t', 'last')
            base = self.ex(e.value, env)
            if base[0] == 'lit':
                k = self.T.const_value(sl)
                if int(k) != k or not (0 <= int(k) < len(base[1])):
                    self.fail('index into a literal list', e)
                return base[1][int(k)]
            if base[0] == 'tab':
                k = self.T.const_value(sl)
                return ('t', f'({base[1]} {base[2]} {int(k)})')
            self.fail('subscript', e)
        if isinstance(e, ast.Call):
            f = e.func
            if isinstance(f, ast.Name) and f.id == 'len' and len(e.args) == 1 and not e.keywords:
                return ('t', f'({self.term(self.ex(e.args[0], env))}).length')
            if (self.sets and isinstance(f, ast.Attribute) and f.attr == 'issubset' and len(e.args) == 1 and not e.keywords
                    and isinstance(e.args[0], ast.Name) and e.args[0].id in self.sets and isinstance(f.value, ast.Call)
                    and isinstance(f.value.func, ast.Name) and f.value.func.id == 'set' and 'set' not in env and len(f.value.args) == 1
                    and not f.value.keywords):
                xs = self.term(self.ex(f.value.args[0], env))
                self.depth += 1
                x = f'x{self.depth}'
                self.depth -= 1
                return ('t', f'(({xs}).all (fun {x} => ({self.member} {x} {self.term(self.ex(e.args[0], env))})))')
            if self.cnt and isinstance(f, ast.Name) and f.id == 'list' and 'list' not in env and not e.args and not e.keywords:
                return ('lit', [])
            if ((self.cnt or self.sets) and isinstance(f, ast.Name) and f.id == 'deque' and 'deque' not in env and len(e.args) == 1 and not e.keywords
                    and isinstance(e.args[0], ast.List)):
                return self.ex(e.args[0], env)
            if isinstance(f, ast.Attribute) and f.attr in self.methods and not e.args and not e.keywords:
                return ('t', f'({self.methods[f.attr]} {self.term(self.ex(f.value, env))})')
            if (isinstance(f, ast.Name) and f.id == 'isinstance' and len(e.args) == 2 and not e.keywords
                    and isinstance(e.args[1], ast.Name) and e.args[1].id in self.classes and e.args[1].id not in env):
                return ('t', f'({self.classes[e.args[1].id]} {self.term(self.ex(e.args[0], env))})')
            if isinstance(f, ast.Name) and f.id in self.opaque and f.id not in env:
                lean, spec = self.opaque[f.id]
                if len(e.args) != len(spec) or e.keywords:
                    self.fail(f'{f.id} is not called with {len(spec)} positional arguments', e)
                args = []
                for a, c in zip(e.args, spec):
                    if c is None:
                        args.append(self.term(self.ex(a, env)))
                    elif not (isinstance(a, ast.Name) and a.id == c and a.id not in env):
                        self.fail(f'argument of {f.id} is not the loop constant {c}', a)
                return ('t', '(' + ' '.join([lean] + args) + ')')
            if isinstance(f, ast.Name) and f.id in self.ctors:
                lean, pos, kws = self.ctors[f.id]
                if len(e.args) != len(pos) or sorted(k.arg for k in e.keywords) != sorted(kws):
                    self.fail(f'constructor {f.id} is not called with ({pos}, {kws})', e)
                args = [self.ex(a, env) for a in e.args] + [self.ex(next(k.value for k in e.keywords if k.arg == n), env) for n in kws]
                return ('t', '(' + ' '.join([lean] + [self.term(a) for a in args]) + ')')
            self.fail('call', e)
        self.fail('expression', e)

    # ---- statements -------------------------------------------------------------------------------------------------
    def block(self, stmts, env):
        env = dict(env)
        for s in stmts:
            env = self.stmt(s, env)
        return env

    def mutated(self, name, node):
        for pair in self.aliases:
            if name in pair:
                self.fail(f'in-place change of {name}, which shares its list with {sorted(pair - {name})}', node)

    def stmt(self, s, env):
        env = dict(env)
        if self.cnt:
            r = self.counter_stmt(s, env)
            if r is not None:
                return r
        if (self.cnt or self.sets) and isinstance(s, ast.For):
            return self.for_fold(s, env)
        if self.sets:
            if (isinstance(s, ast.Assign) and len(s.targets) == 1 and isinstance(s.targets[0], ast.Name) and s.targets[0].id in self.sets):
                if not isinstance(s.value, ast.Set):
                    self.fail(f'the set {s.targets[0].id} is not created by a set display', s)
                env[s.targets[0].id] = ('lit', [self.ex(x, env) for x in s.value.elts])
                return env
            if (isinstance(s, ast.Expr) and isinstance(s.value, ast.Call) and isinstance(s.value.func, ast.Attribute)
                    and isinstance(s.value.func.value, ast.Name) and not s.value.keywords):
                xs, m, args = s.value.func.value.id, s.value.func.attr, s.value.args
                if m == 'add' and len(args) == 1 and xs in self.sets and xs in env:
                    self.mutated(xs, s)
                    env[xs] = ('t', f'({self.term(env[xs])} ++ [{self.term(self.ex(args[0], env))}])')
                    return env
                if m == 'pop' and not args and xs in env and xs not in self.sets:
                    self.mutated(xs, s)
                    env[xs] = ('t', f'({self.term(env[xs])}).dropLast')
                    return env
        if self.yields and isinstance(s, ast.Expr) and isinstance(s.value, ast.Yield) and s.value.value is not None:
            y = self.yields
            env[y] = ('t', f'({self.term(env[y])} ++ [{self.term(self.ex(s.value.value, env))}])')
            return env
        if isinstance(s, ast.Assign) and len(s.targets) == 1 and isinstance(s.targets[0], ast.Name):
            v = s.value
            if (isinstance(v, ast.Call) and isinstance(v.func, ast.Attribute) and v.func.attr == 'pop' and not v.args
                    and isinstance(v.func.value, ast.Name)):
                xs = v.func.value.id
                self.mutated(xs, s)
                env[s.targets[0].id] = ('t', f'({self.term(env[xs])}).getLast?')
                env[xs] = ('t', f'({self.term(env[xs])}).dropLast')
                return env
            if isinstance(v, ast.Name) and v.id in env and env[v.id][0] in ('t', 'lit'):
                # `a = b` makes two names for ONE Python list: a later in-place change of either would change both
                self.aliases.add(frozenset((s.targets[0].id, v.id)))
            env[s.targets[0].id] = self.ex(v, env)
            return env
        if isinstance(s, ast.AnnAssign) and isinstance(s.target, ast.Name) and s.value is not None:
            env[s.target.id] = self.ex(s.value, env)
            return env
        if isinstance(s, ast.Delete) and len(s.targets) == 1:
            t = s.targets[0]
            if (isinstance(t, ast.Subscript) and isinstance(t.value, ast.Name) and isinstance(t.slice, ast.Slice)
                    and t.slice.lower is not None and t.slice.upper is None and t.slice.step is None):
                xs = t.value.id
                self.mutated(xs, s)
                env[xs] = ('t', f'(Py5.delSuffix {self.term(env[xs])} {self.neg_len(t.slice.lower, env)})')
                return env
            self.fail('del', s)
        if isinstance(s, ast.Expr) and isinstance(s.value, ast.Call) and isinstance(s.value.func, ast.Attribute) \
                and isinstance(s.value.func.value, ast.Name) and len(s.value.args) == 1 and not s.value.keywords:
            xs, m = s.value.func.value.id, s.value.func.attr
            if xs not in env:
                self.fail(f'unknown list {xs}')
            a = self.ex(s.value.args[0], env)
            self.mutated(xs, s)
            if m == 'append':
                env[xs] = ('t', f'({self.term(env[xs])} ++ [{self.term(a)}])')
                return env
            if m == 'extend':
                env[xs] = ('t', f'({self.term(env[xs])} ++ {self.term(a)})')
                return env
            self.fail('method statement', s)
        if isinstance(s, ast.For) and self.ext:
            return self.for_acc(s, env)
        if isinstance(s, ast.If):
            c = self.term(self.ex(s.test, env))
            a = self.block(s.body, env)
            b = self.block(s.orelse, env)
            out = dict(env)
            for k in sorted(set(a) | set(b)):
                if k in a and k in b:
                    if a[k] == b[k]:
                        out[k] = a[k]
                    else:
                        out[k] = ('t', f'(if {c} then {self.term(a[k])} else {self.term(b[k])})')
                # a name introduced in one branch only is local to it: it is not defined after the `if` (a later use fails)
            return out
        if isinstance(s, ast.Expr) and isinstance(s.value, ast.Constant):
            return env
        if isinstance(s, ast.Pass) and self.sets:
            return env
        self.fail('statement', s)

    def for_acc(self, s, env):
        """`for c in xs:` whose body only appends to / extends ONE accumulator bound to `[]` -> acc ++ xs.flatMap (fun c => …)"""
        if s.orelse or getattr(s, 'type_comment', None):
            self.fail('for … else', s)
        for n in ast.walk(s):
            if isinstance(n, (ast.Break, ast.Continue, ast.Return, ast.While)) or (isinstance(n, ast.For) and n is not s):
                self.fail('control flow inside a `for` loop', s)
        recv = set()                 # receivers of append / extend statements in the body
        for n in ast.walk(s):
            if (isinstance(n, ast.Expr) and isinstance(n.value, ast.Call) and isinstance(n.value.func, ast.Attribute)
                    and n.value.func.attr in ('append', 'extend') and isinstance(n.value.func.value, ast.Name)):
                recv.add(n.value.func.value.id)
        if len(recv) != 1:
            self.fail(f'the `for` loop appends to {sorted(recv)}, expected exactly one accumulator', s)
        acc = recv.pop()
        if acc in dict(self.state) or env.get(acc) != ('lit', []):
            self.fail(f'the accumulator {acc} of the `for` loop is not a local list bound to []', s)
        # the body may mention `acc` only as the receiver of those statements
        uses = sum(1 for n in ast.walk(s) if isinstance(n, ast.Name) and n.id == acc)
        stmts = sum(1 for n in ast.walk(s) if isinstance(n, ast.Expr) and isinstance(n.value, ast.Call)
                    and isinstance(n.value.func, ast.Attribute) and n.value.func.attr in ('append', 'extend')
                    and isinstance(n.value.func.value, ast.Name) and n.value.func.value.id == acc)
        if uses != stmts:
            self.fail(f'the body of the `for` loop reads its accumulator {acc}', s)
        xs = self.term(self.ex(s.iter, env))
        x, env2 = self.bind(s.target, env)
        out = self.block(s.body, env2)
        self.depth -= 1
        for k, v in env.items():
            if k != acc and out.get(k) != v:
                self.fail(f'the body of the `for` loop changes {k}', s)
        env = dict(env)
        env[acc] = ('t', f'([] ++ ({xs}).flatMap (fun {x} => {self.term(out[acc])}))')
        return env

    # ---- the Kahn-loop idioms (only reached when `counters` is given) ---------------------------------------------------
    def counter_stmt(self, s, env):
        '''`d = defaultdict(int)`, `d[k] = <literal>`, `d[k] += <literal>`, `d[k] -= <literal>` on a dictionary of counters; None otherwise'''
        if isinstance(s, ast.Assign) and len(s.targets) == 1:
            t, v = s.targets[0], s.value
            if isinstance(t, ast.Name) and t.id in self.counters:
                if (isinstance(v, ast.Call) and isinstance(v.func, ast.Name) and v.func.id == 'defaultdict' and 'defaultdict' not in env
                        and len(v.args) == 1 and not v.keywords and isinstance(v.args[0], ast.Name) and v.args[0].id == 'int' and 'int' not in env):
                    env[t.id] = ('t', self.counters[t.id][2])
                    return env
                self.fail(f'the dictionary of counters {t.id} is not created by defaultdict(int)', s)
            if isinstance(t, ast.Subscript) and isinstance(t.value, ast.Name) and t.value.id in self.counters:
                d = t.value.id
                if d not in env or isinstance(t.slice, ast.Slice):
                    self.fail('assignment to a counter', s)
                if not (isinstance(v, ast.Constant) and isinstance(v.value, int) and not isinstance(v.value, bool) and v.value >= 0):
                    self.fail('a counter is assigned something else than a non-negative integer literal', s)
                env[d] = ('t', f'({self.counters[d][1]} {self.term(env[d])} {self.term(self.ex(t.slice, env))} {v.value})')
                return env
        if isinstance(s, ast.AugAssign) and isinstance(s.target, ast.Subscript) and isinstance(s.target.value, ast.Name) \
                and s.target.value.id in self.counters:
            d = s.target.value.id
            if d not in env or isinstance(s.target.slice, ast.Slice) or not isinstance(s.op, (ast.Add, ast.Sub)):
                self.fail('update of a counter', s)
            v = s.value
            if not (isinstance(v, ast.Constant) and isinstance(v.value, int) and not isinstance(v.value, bool) and v.value >= 0):
                self.fail('a counter is changed by something else than a non-negative integer literal', s)
            k = self.term(self.ex(s.target.slice, env))
            op = '+' if isinstance(s.op, ast.Add) else '-'
            get, set_ = self.counters[d][0], self.counters[d][1]
            env[d] = ('t', f'({set_} {self.term(env[d])} {k} (({get} {self.term(env[d])} {k}) {op} {v.value}))')
            return env
        return None

    @staticmethod
    def proj(var, i, n):
        '''component i of an n-tuple (Lean tuples are nested pairs)'''
        if n == 1:
            return var
        return var + '.2' * i + ('.1' if i < n - 1 else '')

    def for_fold(self, s, env):
        '''`for c in xs: <body>` -> a left fold over xs whose state is the tuple of the variables the body changes'''
        if s.orelse or getattr(s, 'type_comment', None):
            self.fail('for … else', s)
        for n in ast.walk(s):
            if isinstance(n, (ast.Break, ast.Continue, ast.Return, ast.While, ast.Yield, ast.YieldFrom)):
                self.fail('control flow inside a `for` loop', s)
        # the variables the body may change: targets of assignments / receivers of method statements, known before the loop
        touched = set()
        for n in ast.walk(s):
            if isinstance(n, (ast.Assign, ast.AugAssign, ast.AnnAssign)):
                for t in (n.targets if isinstance(n, ast.Assign) else [n.target]):
                    for m in ast.walk(t):
                        if isinstance(m, ast.Name):
                            touched.add(m.id)
            if isinstance(n, ast.Expr) and isinstance(n.value, ast.Call) and isinstance(n.value.func, ast.Attribute) \
                    and isinstance(n.value.func.value, ast.Name):
                touched.add(n.value.func.value.id)
            if isinstance(n, ast.Delete):
                self.fail('del inside a `for` loop', s)
        order = [p for p, _ in self.state] + [k for k in env if k not in dict(self.state)]
        mods = [k for k in order if k in touched and k in env]
        if not mods:
            self.fail('the `for` loop changes no known variable', s)
        for m in mods:
            if m not in self.types:
                self.fail(f'no type is declared for the variable {m} changed by the `for` loop', s)
            self.mutated(m, s)
        xs = self.term(self.ex(s.iter, env))
        x, env2 = self.bind(s.target, env)
        st, n = f'st{self.depth}', len(mods)
        for i, m in enumerate(mods):
            env2[m] = ('t', self.proj(st, i, n))
        start = {k: v for k, v in env2.items()}
        out = self.block(s.body, env2)
        self.depth -= 1
        for k in env:
            if k not in mods and out.get(k) != start.get(k):
                self.fail(f'the body of the `for` loop changes {k}', s)
        comps = [self.term(out[m]) for m in mods]
        inits = [self.term(env[m]) for m in mods]

        def tup(cs):
            # (X.1, X.2.1, X.2.2) is X
            if len(cs) > 1 and cs[0].endswith('.1'):
                base = cs[0][:-2]
                if cs == [self.proj(base, i, len(cs)) for i in range(len(cs))]:
                    return base
            return cs[0] if len(cs) == 1 else '(' + ', '.join(cs) + ')'
        ty = ' × '.join(self.types[m] for m in mods)
        fold = f'(({xs}).foldl (fun ({st} : {ty}) {x} => {tup(comps)}) {tup(inits)})'
        env = dict(env)
        for i, m in enumerate(mods):
            env[m] = ('t', self.proj(fold, i, n))
        return env

    def result_tuple(self, env):
        return '(' + ', '.join(self.term(env[p]) for p, _ in self.state) + ')'

    def loop_step_queue(self, loop, top):
        '''`while q: <x> = q.popleft(); …` (q a deque, rendered as a list whose front is its head) -> the Lean body'''
        cond = ast.unparse(loop.test)
        names = dict(self.state)
        if cond not in names:
            self.fail(f'the loop condition `{cond}` is not a state variable')
        body = [s for s in loop.body if not (isinstance(s, ast.Expr) and isinstance(s.value, ast.Constant))]
        if loop.orelse:
            self.fail('while … else')
        first = body[0]
        if not (isinstance(first, ast.Assign) and len(first.targets) == 1 and isinstance(first.targets[0], ast.Name)
                and ast.unparse(first.value) == f'{cond}.popleft()'):
            self.fail(f'the body does not start with `<x> = {cond}.popleft()`', first)
        for n in ast.walk(loop):
            if isinstance(n, (ast.Break, ast.Continue, ast.Return, ast.YieldFrom)) or (isinstance(n, ast.While) and n is not loop) \
                    or (isinstance(n, ast.Yield) and not self.yields):
                self.fail('control flow inside the loop', n)
        env = {p: ('t', l) for p, l in self.state}
        env[first.targets[0].id] = ('t', top)
        env[cond] = ('t', f'({names[cond]}).tail')
        env = self.block(body[1:], env)
        same = '(' + ', '.join(l for _, l in self.state) + ')'
        return f'match {names[cond]}.head? with\n  | none => {same}\n  | some {top} =>\n    {self.result_tuple(env)}'

    def loop_step_forever(self, loop, raised):
        '''`while True: <A>; if c: break; <B>` -> (c, the state at the break when c, else the state after <B>)'''
        if not (isinstance(loop.test, ast.Constant) and loop.test.value is True) or loop.orelse:
            self.fail('the loop is not `while True:` without else')
        body = [s for s in loop.body if not (isinstance(s, ast.Expr) and isinstance(s.value, ast.Constant))]
        brk = [i for i, s in enumerate(body) if isinstance(s, ast.If) and len(s.body) == 1 and isinstance(s.body[0], ast.Break) and not s.orelse]
        if len(brk) != 1:
            self.fail(f'expected exactly one top-level `if <c>: break`, found {len(brk)}')
        n_break = sum(1 for n in ast.walk(loop) if isinstance(n, ast.Break))
        if n_break != 1:
            self.fail('a `break` that is not the top-level one')
        for n in ast.walk(loop):
            if isinstance(n, (ast.Continue, ast.Return, ast.Yield, ast.YieldFrom)) or (isinstance(n, ast.While) and n is not loop):
                self.fail('control flow inside the loop', n)
        env0 = {p: ('t', l) for p, l in self.state}
        env1 = self.block(body[:brk[0]], env0)
        c = self.term(self.ex(body[brk[0]].test, env1))
        env2 = self.block(body[brk[0] + 1:], env1)
        comps = []
        for p, _ in self.state:
            a, b = self.term(env1[p]), self.term(env2[p])
            comps.append(a if a == b else f'(if {c} then {a} else {b})')
        res = '(' + ', '.join([c] + comps) + ')'
        if self.need_last is None:
            return res
        return f'match {dict(self.state)[self.need_last]}.getLast? with\n  | none => {raised}\n  | some last =>\n    {res}'

    def loop_step_stack(self, loop, top):
        '''`while stack: <x> = stack[-1]; …` with `if c: …; continue` at the top level of the body: the statements after such an `if`
        become its `else` branch, then as `loop_step`'''
        if not self.sets:
            self.fail('loop_step_stack without the generator idioms')
        body = [s for s in loop.body if not (isinstance(s, ast.Expr) and isinstance(s.value, ast.Constant))]

        def norm(stmts):
            for i, st in enumerate(stmts):
                if isinstance(st, ast.If) and not st.orelse and st.body and isinstance(st.body[-1], ast.Continue):
                    return stmts[:i] + [ast.If(test=st.test, body=st.body[:-1] or [ast.Pass()], orelse=norm(stmts[i + 1:]))]
            return stmts
        body = norm(body)
        for st in body:
            for n in ast.walk(st):
                if isinstance(n, (ast.Break, ast.Continue, ast.Return, ast.YieldFrom, ast.While)):
                    self.fail('control flow inside the loop', n)
        for n in ast.walk(ast.Module(body=body, type_ignores=[])):
            if isinstance(n, ast.For) and any(isinstance(m, ast.Yield) for m in ast.walk(n)):
                self.fail('yield inside a `for` loop', n)
        new = ast.While(test=loop.test, body=body, orelse=loop.orelse)
        return self.loop_step(new, top)

    def loop_step(self, loop, top):
        """`loop`: the ast.While; `top`: lean name bound to `<cond>[-1]`.  Returns the Lean body (a term over the lean state names)."""
        cond = ast.unparse(loop.test)
        names = dict(self.state)
        if cond not in names:
            self.fail(f'the loop condition `{cond}` is not a state variable')
        body = [s for s in loop.body if not (isinstance(s, ast.Expr) and isinstance(s.value, ast.Constant))]
        if loop.orelse:
            self.fail('while … else')
        first = body[0]
        if not (isinstance(first, ast.Assign) and isinstance(first.targets[0], ast.Name) and ast.unparse(first.value) == f'{cond}[-1]'):
            self.fail(f'the body does not start with `<x> = {cond}[-1]`', first)
        self.live = {n for s in body for n in (x.id for x in ast.walk(s) if isinstance(x, ast.Name))}
        env = {p: ('t', l) for p, l in self.state}
        env[first.targets[0].id] = ('t', top)
        env = self.block(body[1:], env)
        same = '(' + ', '.join(l for _, l in self.state) + ')'
        res = '(' + ', '.join(self.term(env[p]) for p, _ in self.state) + ')'
        return f'match {names[cond]}.getLast? with\n  | none => {same}\n  | some {top} =>\n    {res}'


PY5_PRELUDE = (
    '/-! Python list idioms met by the fifth wave of fragments (`S5…`: explicit-stack loops). Core Lean only. -/\n'
    'namespace Py5\n'
    '/-- `xs[-k:]`: the last `k` entries — the WHOLE list for `k = 0` (Python reads `-0` as `0`) -/\n'
    'def suffix {β : Type} (xs : List β) (k : Nat) : List β := if k = 0 then xs else xs.drop (xs.length - k)\n'
    '/-- what `del xs[-k:]` leaves: the list without its last `k` entries — NOTHING for `k = 0` -/\n'
    'def delSuffix {β : Type} (xs : List β) (k : Nat) : List β := if k = 0 then [] else xs.take (xs.length - k)\n'
    '/-- `xs[:len(xs) - k]` for `k ≤ len(xs)` -/\n'
    'def dropLastN {β : Type} (xs : List β) (k : Nat) : List β := xs.take (xs.length - k)\n'
    'end Py5')


# ======================================================================================================================
# BEGIN block J (append-only): idioms for the table-filling passes of algorithms/evaluation.py (`eval_bottom_up`,
# `eval_top_down`, serial paths).  Everything is behind NEW keyword tables of the subclass `LPArr`; `LP` above is untouched.
#     A[k] = e               A := (set' A k e)                       for the row tables in `rows` = {python name: (get', set')}
#     A[k] |= e              A := (set' A k ((get' A k) || e))       (a table of booleans: `|=` is the element-wise OR of one row)
#     A[k]                   (get' A k)                              read of a row of a table in `rows`
#     c[k]                   (c' k)                                  read of a row of a CONSTANT table in `consts` = {python name: lean name}
#     o.id                   (nid o)                                 through `attrs` (already an idiom of LP)
#     a & b                  (a && b)
#     a == b                 (a == b)                                for two NAMES bound to terms (an index against a selector's answer)
#     np.stack(<list>, axis=1)   the list itself                     (one row of the batch: column i = entry i)
#     reversed(xs)           (xs).reverse
#     enumerate(xs)          (xs).zipIdx                             as the iterable of a `for` with a 2-tuple target `i, c`: c = x.1, i = x.2
#     f(a, <fixed>, **kw)    (f' a)                                  for the function PARAMETERS in `calls` = {python name: (lean, [spec])},
#                                                                    spec entry None = translated argument, a string = the argument's text
#                                                                    (spaces removed, `{0}`, `{1}` … = the texts of the translated arguments)
#     with <lock>: body      body                                    for the locks in `locks` (serial reading: the lock orders nothing)
#     if <hooks> is not None: <calls on hooks>    nothing            for the module-level name in `hooks` (verification hooks, inert by default)
#     for … (any `for`)      `for_fold` of LP
# ======================================================================================================================
class LPArr(LP):
    def __init__(self, T, what, state, rows=None, consts=None, calls=None, locks=None, hooks=None, **kw):
        kw.setdefault('methods', {})
        kw.setdefault('ctors', {})
        kw.setdefault('tables', {})
        LP.__init__(self, T, what, state, **kw)
        self.rows, self.consts, self.calls = rows or {}, consts or {}, calls or {}
        self.locks, self.hooks = set(locks or ()), hooks

    def key(self, e, env):
        return self.term(self.ex(e, env))

    def bind(self, target, env):
        if isinstance(target, ast.Tuple) and len(target.elts) == 2 and all(isinstance(t, ast.Name) for t in target.elts):
            # `for i, c in enumerate(xs)`: only legal when the iterable was rendered by the `enumerate` idiom (checked by the caller)
            i, c = target.elts
            for t in (i, c):
                if t.id in env or t.id in dict(self.state):
                    self.fail(f'bound variable {t.id} shadows a variable of the loop', target)
            if i.id == c.id:
                self.fail('the two bound variables coincide', target)
            self.depth += 1
            env2 = dict(env)
            env2[c.id] = ('t', f'x{self.depth}.1')
            env2[i.id] = ('t', f'x{self.depth}.2')
            return f'x{self.depth}', env2
        return LP.bind(self, target, env)

    def for_fold(self, s, env):
        tup = isinstance(s.target, ast.Tuple)
        enum = (isinstance(s.iter, ast.Call) and isinstance(s.iter.func, ast.Name) and s.iter.func.id == 'enumerate'
                and 'enumerate' not in env and len(s.iter.args) == 1 and not s.iter.keywords)
        if tup != enum:
            self.fail('a tuple target without `enumerate(…)` (or the converse)', s)
        return LP.for_fold(self, s, env)

    def ex(self, e, env):
        if isinstance(e, ast.Subscript) and isinstance(e.value, ast.Name) and not isinstance(e.slice, ast.Slice):
            a = e.value.id
            if a in self.rows and a in env:
                return ('t', f'({self.rows[a][0]} {self.term(env[a])} {self.key(e.slice, env)})')
            if a in self.consts and a not in env:
                return ('t', f'({self.consts[a]} {self.key(e.slice, env)})')
        if isinstance(e, ast.BinOp) and isinstance(e.op, ast.BitAnd):
            return ('t', f'({self.term(self.ex(e.left, env))} && {self.term(self.ex(e.right, env))})')
        if (isinstance(e, ast.Compare) and len(e.ops) == 1 and isinstance(e.ops[0], ast.Eq) and isinstance(e.left, ast.Name)
                and isinstance(e.comparators[0], ast.Name) and e.left.id in env and e.comparators[0].id in env):
            return ('t', f'({self.term(env[e.left.id])} == {self.term(env[e.comparators[0].id])})')
        if isinstance(e, ast.Call):
            f = e.func
            dn = self.T.dotted_name(f)
            if dn == 'np.stack' and 'np' not in env:
                ax = [k.value for k in e.keywords if k.arg == 'axis']
                if len(e.args) != 1 or len(ax) != 1 or len(e.keywords) != 1 or int(self.T.const_value(ax[0])) != 1:
                    self.fail('np.stack is not called as np.stack(<list>, axis=1)', e)
                return self.ex(e.args[0], env)
            if isinstance(f, ast.Name) and f.id == 'reversed' and 'reversed' not in env and len(e.args) == 1 and not e.keywords:
                return ('t', f'({self.term(self.ex(e.args[0], env))}).reverse')
            if isinstance(f, ast.Name) and f.id == 'enumerate' and 'enumerate' not in env and len(e.args) == 1 and not e.keywords:
                return ('t', f'({self.term(self.ex(e.args[0], env))}).zipIdx')
            if isinstance(f, ast.Name) and f.id in self.calls and f.id not in env:
                return self.call_star(e, env)
        return LP.ex(self, e, env)

    def call_star(self, e, env):
        """`f(a, b, **kwargs)` with f in `calls`: the `**name` argument is matched against the spec entry `**name`"""
        f = e.func
        lean, spec = self.calls[f.id]
        given = [ast.unparse(a).replace(' ', '') for a in e.args] + ['**' + ast.unparse(k.value).replace(' ', '') if k.arg is None
                                                                       else f'{k.arg}=' + ast.unparse(k.value).replace(' ', '') for k in e.keywords]
        if len(given) != len(spec):
            self.fail(f'{f.id} is not called with {len(spec)} arguments', e)
        nodes = list(e.args) + [k.value for k in e.keywords]
        args, srcs = [], []
        for g, sp, nd in zip(given, spec, nodes):
            if sp is None:
                if g.startswith('**') or '=' in g.split('(')[0]:
                    self.fail(f'{f.id}: a translated argument is not positional', e)
                args.append(self.term(self.ex(nd, env)))
                srcs.append(g)
        for g, sp in zip(given, spec):
            if sp is not None and g != sp.format(*srcs):
                self.fail(f'{f.id}: argument `{g}` is not `{sp.format(*srcs)}`', e)
        return ('t', '(' + ' '.join([lean] + args) + ')')

    def stmt(self, s, env):
        env = dict(env)
        # verification hooks: `if <hooks> is not None: <hooks>.f(…)` — inert unless the hooks module is loaded
        if (self.hooks and isinstance(s, ast.If) and ast.unparse(s.test).replace(' ', '') == f'{self.hooks}isnotNone' and not s.orelse
                and self.hooks not in env
                and all(isinstance(b, ast.Expr) and isinstance(b.value, ast.Call) and (self.T.dotted_name(b.value.func) or '').startswith(self.hooks + '.')
                        for b in s.body)):
            return env
        if isinstance(s, ast.With) and len(s.items) == 1 and s.items[0].optional_vars is None \
                and isinstance(s.items[0].context_expr, ast.Name) and s.items[0].context_expr.id in self.locks:
            return self.block(s.body, env)
        if isinstance(s, ast.For):
            return self.for_fold(s, env)
        if isinstance(s, ast.Assign) and len(s.targets) == 1 and isinstance(s.targets[0], ast.Subscript) \
                and isinstance(s.targets[0].value, ast.Name) and s.targets[0].value.id in self.rows:
            t = s.targets[0]
            a = t.value.id
            if a not in env or isinstance(t.slice, ast.Slice):
                self.fail('store into a row table', s)
            self.mutated(a, s)
            v = self.val(s.value, env)
            env[a] = ('t', f'({self.rows[a][1]} {self.term(env[a])} {self.key(t.slice, env)} {v})')
            return env
        if isinstance(s, ast.AugAssign) and isinstance(s.target, ast.Subscript) and isinstance(s.target.value, ast.Name) \
                and s.target.value.id in self.rows:
            t = s.target
            a = t.value.id
            if a not in env or isinstance(t.slice, ast.Slice) or not isinstance(s.op, ast.BitOr):
                self.fail('update of a row table (only `|=`)', s)
            self.mutated(a, s)
            k = self.key(t.slice, env)
            get, set_ = self.rows[a]
            v = self.val(s.value, env)
            env[a] = ('t', f'({set_} {self.term(env[a])} {k} (({get} {self.term(env[a])} {k}) || {v}))')
            return env
        if isinstance(s, ast.Assign) and len(s.targets) == 1 and isinstance(s.targets[0], ast.Name):
            v = s.value
            if isinstance(v, ast.Call) and isinstance(v.func, ast.Name) and v.func.id in self.calls and v.func.id not in env:
                env[s.targets[0].id] = self.call_star(v, env)
                return env
        return LP.stmt(self, s, env)

    def val(self, e, env):
        if isinstance(e, ast.Call) and isinstance(e.func, ast.Name) and e.func.id in self.calls and e.func.id not in env:
            return self.term(self.call_star(e, env))
        return self.term(self.ex(e, env))
# END block J


# ======================================================================================================================
# BLOCK K (append-only; nothing above is changed): skeletons of `for` loops whose state is ONE array (or dictionary) that
# is written at a slot computed from the loop variable — `BinaryCLT.message_passing`, `mpe`, `sample` (cltree.py) and the passes of
# `prune` / `marginalize` (algorithms/structure.py).  What is rendered: the traversal (the iterated expression), the slot that is
# written, the slots of the state that are read, the statements around the loop that touch the state, what is returned.  The
# numerical content of an iteration is a PARAMETER (`body`) that receives exactly the entries of the state the source reads.
# Idioms (each one behind a table given by the caller; anything else raises Untranslatable):
#     for v in E:            (E').foldl (fun st v => …) st      no else / break / continue / return / nested loop on the state
#     reversed(E)            (E').reverse
#     E[1:]                  (Py.drop E' (1 : Int))
#     <iter_syms>            the name given in `iter_syms` (text of the expression, e.g. `self.bfs` -> bfs)
#   slots (`slot_term`):
#     v                      j            the loop variable
#     <slot_syms>            e.g. `self.root` -> root
#     T[v] for T in slot_tabs   (Py4.getI tree j 0)
#     v.a for a in slot_attrs   (nid node)
#   accesses to the state array A (position axis `axis`: 0 = first index, -1 = last index; the other indices are row masks / `:`):
#     A[.., s, ..] (load)                 a read of slot s:      (get st s) handed to the body
#     A[.., s, ..] op= e                  read + write of slot s:  st := set st s (body … (get st s) …)
#     A[.., s, ..] = e   under a mask     masked write of slot s:  st := Py5.storeOpt set st s (body …)   (body : … → Option E; `none` = row not selected)
#     A[.., s, ..] = e   without mask     st := set st s (body …)
#     A anywhere else inside the loop     Untranslatable
# ======================================================================================================================
PY5K_PRELUDE = (
    '/-! Idioms of the loop skeletons (`S5clt…Loop`, `S5…PassLoop`; tools/listprog.py, block K). Core Lean only. -/\n'
    'namespace Py5\n'
    '/-- a store under a row mask, `A[mask, s] = v`, seen from ONE row: `some v` = the row is selected and receives `v`, `none` = the row is '
    'not selected and the array is unchanged -/\n'
    'def storeOpt {M K E : Type} (set : M → K → E → M) (st : M) (k : K) : Option E → M\n'
    '  | some v => set st k v\n'
    '  | none => st\n'
    'end Py5')


class SK:
    def __init__(self, T, what, axis=0, iter_syms=None, slot_syms=None, slot_tabs=None, slot_attrs=None, var='j', get='getRow', set_='setRow'):
        self.T, self.U, self.what, self.axis = T, T.Untranslatable, what, axis
        self.iter_syms, self.slot_syms = iter_syms or {}, slot_syms or {}
        self.slot_tabs, self.slot_attrs = slot_tabs or {}, slot_attrs or {}
        self.var, self.get, self.set = var, get, set_

    def fail(self, msg, node=None):
        raise self.U(f'{self.what}: {msg}' + (f' [{ast.unparse(node)[:80]}]' if node is not None else ''))

    @staticmethod
    def txt(e):
        return ast.unparse(e).replace(' ', '')

    def iter_term(self, e):
        t = self.txt(e)
        if t in self.iter_syms:
            return self.iter_syms[t]
        if (isinstance(e, ast.Call) and isinstance(e.func, ast.Name) and e.func.id == 'reversed' and len(e.args) == 1 and not e.keywords):
            return f'({self.iter_term(e.args[0])}).reverse'
        if (isinstance(e, ast.Subscript) and isinstance(e.slice, ast.Slice) and e.slice.upper is None and e.slice.step is None
                and isinstance(e.slice.lower, ast.Constant) and e.slice.lower.value == 1 and not isinstance(e.slice.lower.value, bool)):
            return f'(Py.drop {self.iter_term(e.value)} (1 : Int))'
        self.fail('the iterated expression is not built from the known lists with `reversed(·)` / `·[1:]`', e)

    def slot_term(self, e, loopvar):
        if isinstance(e, ast.Name) and e.id == loopvar:
            return self.var
        t = self.txt(e)
        if t in self.slot_syms:
            return self.slot_syms[t]
        if (isinstance(e, ast.Subscript) and self.txt(e.value) in self.slot_tabs and isinstance(e.slice, ast.Name) and e.slice.id == loopvar):
            return f'(Py4.getI {self.slot_tabs[self.txt(e.value)]} {self.var} 0)'
        if isinstance(e, ast.Attribute) and e.attr in self.slot_attrs and isinstance(e.value, ast.Name) and e.value.id == loopvar:
            return f'({self.slot_attrs[e.attr]} {self.var})'
        self.fail('slot of the state that is not computed from the loop variable by a known idiom', e)

    def occurrences(self, stmts, A, loopvar):
        '''every occurrence of the state array A in `stmts`: (mode, slot term or None, masked) with mode in load / store / aug / whole'''
        out = []

        def full(s):
            return isinstance(s, ast.Slice) and s.lower is None and s.upper is None and s.step is None

        def visit(n, aug=False):
            if isinstance(n, ast.Subscript) and isinstance(n.value, ast.Name) and n.value.id == A:
                idx = list(n.slice.elts) if isinstance(n.slice, ast.Tuple) else [n.slice]
                if self.axis == -1 and len(idx) < 2:
                    self.fail('the state is indexed without its position axis', n)
                pos = idx[self.axis]
                if isinstance(pos, ast.Slice):
                    self.fail('the position axis of the state is sliced', n)
                others = [i for k, i in enumerate(idx) if k != (self.axis % len(idx))]
                masked = any(not full(i) for i in others)
                mode = ('aug' if aug else 'store') if isinstance(n.ctx, (ast.Store, ast.Del)) else 'load'
                if isinstance(n.ctx, ast.Del):
                    self.fail('del on the state', n)
                out.append((mode, self.slot_term(pos, loopvar), masked))
                for i in idx:
                    visit(i)
                return
            if isinstance(n, ast.Name) and n.id == A:
                out.append(('whole', None, False))
                return
            if isinstance(n, ast.AugAssign):
                visit(n.target, aug=True)
                visit(n.value)
                return
            for c in ast.iter_child_nodes(n):
                visit(c)
        for s in stmts:
            visit(s)
        return out

    def state_of(self, loop):
        '''the ONE name that is stored into by subscript inside the loop'''
        names = set()
        for n in ast.walk(loop):
            if isinstance(n, ast.Subscript) and isinstance(n.ctx, ast.Store) and isinstance(n.value, ast.Name):
                names.add(n.value.id)
            if isinstance(n, ast.Attribute) and isinstance(n.ctx, ast.Store):
                b = n.value
                if isinstance(b, ast.Subscript) and isinstance(b.value, ast.Name):
                    names.add(b.value.id)
        if len(names) != 1:
            self.fail(f'the loop stores by subscript into {sorted(names)}, expected exactly one array')
        return names.pop()

    def step(self, occ, st, body_args, where):
        '''the Lean term of the state after a group of statements with the occurrences `occ` of the state (exactly one slot written)'''
        if any(m == 'whole' for m, _, _ in occ):
            self.fail(f'{where}: the state is used as a whole (not through one of its slots)')
        writes = [(m, s, k) for m, s, k in occ if m in ('store', 'aug')]
        if not writes:
            self.fail(f'{where}: nothing is written to the state')
        W = {s for _, s, _ in writes}
        if len(W) != 1:
            self.fail(f'{where}: more than one slot of the state is written: {sorted(W)}')
        W = W.pop()
        modes = {m for m, _, _ in writes}
        if len(modes) != 1:
            self.fail(f'{where}: plain and augmented stores into the state are mixed')
        reads = {s for m, s, _ in occ if m == 'load'}
        if modes == {'aug'}:
            reads.add(W)
        order = ([W] if W in reads else []) + sorted(reads - {W})
        args = ' '.join(body_args + [f'({self.get} {st} {r})' for r in order])
        if modes == {'aug'}:
            return f'{self.set} {st} {W} ({args})', len(order)
        masked = {k for _, _, k in writes}
        if masked == {True}:
            return f'Py5.storeOpt {self.set} {st} {W} ({args})', len(order)
        if masked == {False}:
            return f'{self.set} {st} {W} ({args})', len(order)
        self.fail(f'{where}: masked and unmasked stores into the state are mixed')

    def fold(self, loop, A, st, body, extra, init):
        '''`for v in E: <body>` -> ((E').foldl (fun st j => <step>) init, number of state entries handed to the body)'''
        if loop.orelse or not isinstance(loop.target, ast.Name):
            self.fail('for … else / a loop target that is not a name', loop)
        v = loop.target.id
        for n in ast.walk(loop):
            if isinstance(n, (ast.Break, ast.Return, ast.While, ast.Yield, ast.YieldFrom)) or (isinstance(n, ast.For) and n is not loop and
                    any(isinstance(m, ast.Name) and m.id == A for m in ast.walk(n))):
                self.fail('control flow inside the loop', n)
            if isinstance(n, ast.Name) and n.id == v and isinstance(n.ctx, ast.Store) and n is not loop.target:
                self.fail('the loop variable is assigned inside the loop', n)
        if any(isinstance(m, ast.Name) and m.id == A for m in ast.walk(loop.iter)):
            self.fail('the iterated expression mentions the state', loop.iter)
        term, n = self.step(self.occurrences(loop.body, A, v), st, [body] + extra + [self.var], 'loop body')
        return f'({self.iter_term(loop.iter)}).foldl (fun {st} {self.var} => {term}) {init}', n


# ---- BLOCK K, continued (append-only): passes over a node list whose state is a DICTIONARY keyed by `node.id` (`prune`, `marginalize`) ----
#     A[v.id] = e, A[v.id].attr = e     writes of (or mutations of the object at) the slot of the visited node: the ONLY writes allowed;
#                                        rendered  st := apply st (nid node) (body (get st) node)   — the body may READ the dictionary at any
#                                        key (children, grandchildren: `map(lambda n: A[n.id], …)`) but an iteration changes one slot
#     `continue`, `raise`, nested `for` loops that do not store into A are part of the body
def _sk_fold_keyed(self, loop, A, st, body, init, canon):
    '''-> (Lean term of the fold, sorted canonical texts of the stores into the state)'''
    if loop.orelse or not isinstance(loop.target, ast.Name):
        self.fail('for … else / a loop target that is not a name', loop)
    v = loop.target.id
    writes = []
    for n in ast.walk(loop):
        if isinstance(n, (ast.Break, ast.Return, ast.While, ast.Yield, ast.YieldFrom)):
            self.fail('control flow inside the loop', n)
        if isinstance(n, ast.Name) and n.id == v and isinstance(n.ctx, ast.Store) and n is not loop.target:
            self.fail('the loop variable is assigned inside the loop', n)
    if any(isinstance(m, ast.Name) and m.id == A for m in ast.walk(loop.iter)):
        self.fail('the iterated expression mentions the state', loop.iter)
    sub_of_A = set()
    for n in ast.walk(loop):
        if isinstance(n, ast.Subscript) and isinstance(n.value, ast.Name) and n.value.id == A:
            sub_of_A.add(id(n.value))
            if isinstance(n.slice, (ast.Slice, ast.Tuple)):
                self.fail('the dictionary is not read by a single key', n)
            if isinstance(n.ctx, ast.Store):
                if self.slot_term(n.slice, v) != f'({self.slot_attrs.get("id", "nid")} {self.var})':
                    self.fail('a store into the dictionary at another key than the visited node', n)
            elif isinstance(n.ctx, ast.Del):
                self.fail('del on the dictionary', n)
        if isinstance(n, ast.Attribute) and isinstance(n.ctx, ast.Store):
            b = n.value
            if isinstance(b, ast.Subscript) and isinstance(b.value, ast.Name) and b.value.id == A:
                if self.slot_term(b.slice, v) != f'({self.slot_attrs.get("id", "nid")} {self.var})':
                    self.fail('an object of the dictionary is changed at another key than the visited node', n)
            elif any(isinstance(m, ast.Name) and m.id == A for m in ast.walk(b)):
                self.fail('an object reached through the dictionary is changed', n)
    for s in ast.walk(loop):
        if isinstance(s, (ast.Assign, ast.AugAssign, ast.AnnAssign)):
            for t in (s.targets if isinstance(s, ast.Assign) else [s.target]):
                base = t.value if isinstance(t, ast.Attribute) else t
                if isinstance(base, ast.Subscript) and isinstance(base.value, ast.Name) and base.value.id == A:
                    if isinstance(s, ast.AugAssign):
                        self.fail('augmented store into the dictionary', s)
                    writes.append(canon(t) + '=' + canon(s.value))
    for n in ast.walk(loop):
        if isinstance(n, ast.Name) and n.id == A and id(n) not in sub_of_A:
            self.fail('the dictionary is used as a whole inside the loop', n)
    if not writes:
        self.fail('the loop never stores into the dictionary')
    term = f'({self.iter_term(loop.iter)}).foldl (fun {st} {self.var} => apply {st} ({self.slot_attrs.get("id", "nid")} {self.var}) ({body} ({self.get} {st}) {self.var})) {init}'
    return term, sorted(writes)


SK.fold_keyed = _sk_fold_keyed
