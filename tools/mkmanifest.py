#!/usr/bin/env python3
"""Rewrite MANIFEST.json from harness/registry.py (claimed checks) and properties.jsonl (everything else -> not_applicable)."""
import json, os, sys
HERE = os.path.dirname(os.path.dirname(os.path.abspath(__file__)))
sys.path.insert(0, HERE)
from harness import registry

props = [json.loads(l) for l in open(os.path.join(HERE, 'properties.jsonl'))]
ids = [p['id'] for p in props]
checks = []
for pid in ids:
    if pid not in registry.PROPS:
        continue
    R = registry.PROPS[pid]
    checks.append(dict(
        property_id=pid,
        quick_cmd=f"cd /verif && /venv/bin/python check.py {pid} --tier quick",
        thorough_cmd=f"cd /verif && /venv/bin/python check.py {pid} --tier thorough",
        evidence_file=f"/verif/evidence/{pid}.json",
        replay_cmd_template=f"cd /verif && /venv/bin/python check.py {pid} --replay {{path}}",
        engine="lean-model",
        level_claimed=dict(category="proof", text=R.get('level_text', (
            "Lean 4 theorems about a model of the code (all inputs / sizes / histories the property quantifies over), tied to the "
            "current /repo source on every run by (a) the py2lean translator regenerating Generated/*.lean and re-proving the "
            "obligations about it and (b) a differential correspondence run of the model driver against the implementation "
            "in-process; a broken proof or correspondence triggers a failing-input search on the real code.")),
            design_ref=R.get('design_ref', f"DESIGN.md §6 {pid}")),
        level_note=R.get('level_note', "Trusted: Lean kernel (axioms audited: propext, Classical.choice, Quot.sound only), Mathlib, "
                         "py2lean translator, harness exporter/tolerances, driver. Modelled, not verified: IEEE floating point "
                         "(exact rationals in the model, tolerance-bounded comparison), NumPy/SciPy/PyTorch semantics. See DESIGN.md §4, §9."),
        technique=R.get('technique', "machine-checked proof in Lean 4 + translator-regenerated obligations + differential correspondence"),
    ))
na = [dict(property_id=p, reason=registry.NOT_CLAIMED.get(p, "check under construction (see DESIGN.md §10); not claimed yet"))
      for p in ids if p not in registry.PROPS]
m = dict(
    version=1,
    setup_cmd="cd /verif && /venv/bin/python check.py --setup",
    hooks=dict(guard="DEEPROB_KIT_VERIF", enable="DEEPROB_KIT_VERIF=1 PYTHONPATH=/repo:/verif/hooks (set by check.py)",
               baseline_off_cmd="cd /repo && env -u DEEPROB_KIT_VERIF /venv/bin/python -m pytest -ra -q -p no:cacheprovider --timeout=900 --continue-on-collection-errors",
               source_commits=registry.HOOK_COMMITS, add_only=True),
    engines=[dict(name="lean-model", path="lean", serves_properties=[c['property_id'] for c in checks],
                  kind_free_text="Lean 4 model + theorems (DeeprobModel), compiled line-protocol driver (Driver/)"),
             dict(name="harness", path="harness", serves_properties=[c['property_id'] for c in checks],
                  kind_free_text="Python differential correspondence harness calling /repo in-process (check.py)"),
             dict(name="py2lean", path="tools/py2lean.py", serves_properties=[c['property_id'] for c in checks],
                  kind_free_text="translator: formulas/guards/constants of /repo -> lean/DeeprobModel/Generated/*.lean")],
    checks=checks,
    notes="Every check: python check.py Cxx --tier quick|thorough; VERIF_SEED honoured. See DESIGN.md.",
    not_applicable=na,
)
json.dump(m, open(os.path.join(HERE, 'MANIFEST.json'), 'w'), indent=1)
print('claimed', [c['property_id'] for c in checks])
