#!/usr/bin/env python3
"""Parallel version of run_seeded.py: N lanes, each with its own copy of /verif (build output included) and its own scratch
worktree of /repo (outside /repo and /verif, removed afterwards), so that /repo itself is never touched and several seeded
changes are exercised at the same time. The checks find the lane's repository through DEEPROB_REPO.

usage: run_seeded_par.py [-j LANES] [--root DIR] [--out FILE] [ids...]     (ids default: every seeded/<id>)
"""
import argparse, glob, json, os, subprocess, sys, time, threading, queue, shutil

VERIF = os.path.dirname(os.path.dirname(os.path.abspath(__file__)))
REPO = '/repo'


def sh(cmd, **kw):
    return subprocess.run(cmd, shell=True, stdout=subprocess.PIPE, stderr=subprocess.STDOUT, text=True, **kw)


def main():
    ap = argparse.ArgumentParser()
    ap.add_argument('-j', type=int, default=4)
    ap.add_argument('--root', default='/root/lanes')
    ap.add_argument('--out', default=os.path.join(VERIF, 'seeded', 'RESULTS.json'))
    ap.add_argument('--seed', default='0')
    ap.add_argument('ids', nargs='*')
    a = ap.parse_args()
    ids = a.ids or sorted(os.path.basename(d) for d in glob.glob(os.path.join(VERIF, 'seeded', '*')) if os.path.isdir(d))
    results = json.load(open(a.out)) if os.path.exists(a.out) else {}
    lock = threading.Lock()
    q = queue.Queue()
    for i in ids:
        q.put(i)

    def lane(k):
        lv, lr = f'{a.root}/{k}/verif', f'{a.root}/{k}/repo'
        os.makedirs(f'{a.root}/{k}', exist_ok=True)
        sh(f'git -C {REPO} worktree remove --force {lr}')
        r = sh(f'rsync -a --delete --exclude .git --exclude replay --exclude .run {VERIF}/ {lv}/')
        assert r.returncode == 0, r.stdout
        r = sh(f'git -C {REPO} worktree add -q --detach {lr} HEAD')
        assert r.returncode == 0, r.stdout
        try:
            while True:
                try:
                    sid = q.get_nowait()
                except queue.Empty:
                    return
                d = os.path.join(VERIF, 'seeded', sid)
                meta = json.load(open(os.path.join(d, 'meta.json')))
                p = meta['property']
                r = sh(f'git -C {lr} apply {d}/patch.diff')
                if r.returncode != 0:
                    with lock:
                        results[sid] = dict(error='patch does not apply: ' + r.stdout[:300])
                    continue
                try:
                    t0 = time.time()
                    env = dict(os.environ, DEEPROB_REPO=lr, VERIF_SEED=a.seed)
                    env.pop('PYTHONPATH', None)
                    o = sh(f'cd {lv} && timeout 3000 /venv/bin/python check.py {p} --tier quick', env=env)
                    lines = [l.replace(lv, '/verif') for l in o.stdout.splitlines()
                             if l.startswith(('VIOLATION', 'OK ', 'KNOWN-FINDING', 'INFRASTRUCTURE', '# '))]
                    row = {p: dict(rc=o.returncode, wall=round(time.time() - t0, 1), lines=lines[:4])}
                    with lock:
                        results[sid] = dict(property=p, detected=o.returncode == 1, checks=row)
                        json.dump(results, open(a.out, 'w'), indent=1)
                    print(sid, p, 'DETECTED' if o.returncode == 1 else f'MISSED rc={o.returncode}', lines[:2], flush=True)
                    if o.returncode not in (0, 1):
                        print(o.stdout[-1500:], flush=True)
                finally:
                    sh(f'git -C {lr} checkout -- .')
                    sh(f'git -C {lr} clean -fdq')
        finally:
            sh(f'git -C {REPO} worktree remove --force {lr}')
            shutil.rmtree(f'{a.root}/{k}', ignore_errors=True)

    ts = [threading.Thread(target=lane, args=(k,)) for k in range(a.j)]
    for t in ts:
        t.start()
    for t in ts:
        t.join()
    json.dump(results, open(a.out, 'w'), indent=1)
    missed = [i for i in ids if not results.get(i, {}).get('detected')]
    print('missed:', missed)


if __name__ == '__main__':
    main()
