"""Mutation test of the block-K fragments (loop skeletons): every mutant of the source must change the generated text or raise
Untranslatable; renamings of locals / parameters must NOT change it.   /venv/bin/python tools/mutation_k.py"""
import os, re, shutil, sys, tempfile
here = os.path.dirname(os.path.abspath(__file__))
sys.path.insert(0, here)
import py2lean, fragments

FILES = ['deeprob/spn/structure/cltree.py', 'deeprob/spn/algorithms/structure.py']


def gen(repo):
    o = py2lean.Out(None)
    fragments.emit_struct5k(o, repo, py2lean)
    fragments.emit_struct5k_rewrite(o, repo, py2lean)
    return o.snapshot, o.errors


def with_edit(rel, edit):
    d = tempfile.mkdtemp()
    for f in FILES:
        os.makedirs(os.path.dirname(os.path.join(d, f)), exist_ok=True)
        shutil.copy(os.path.join('/repo', f), os.path.join(d, f))
    p = os.path.join(d, rel)
    s = open(p).read()
    t = edit(s)
    assert t != s, 'the edit did not apply'
    open(p, 'w').write(t)
    r = gen(d)
    shutil.rmtree(d)
    return r


def rep(a, b, count=1):
    def f(s):
        assert a in s, a
        return s.replace(a, b, count)
    return f


def sub(pat, b, count=0):
    return lambda s: re.sub(pat, b, s, count=count)


base, errs = gen('/repo')
assert not errs, errs
C, S = FILES
MUTANTS = [
    ('const:cltree.message_passing.loop', C, 'iterate self.bfs forwards', rep('for j in reversed(self.bfs[1:]):', 'for j in self.bfs[1:]:')),
    ('const:cltree.message_passing.loop', C, 'bfs instead of bfs[1:]', rep('for j in reversed(self.bfs[1:]):', 'for j in reversed(self.bfs):')),
    ('const:cltree.message_passing.loop', C, 'write messages[j] instead of messages[tree[j]]', rep('messages[self.tree[j], mask] +=', 'messages[j, mask] +=')),
    ('const:cltree.message_passing.loop', C, 'plain store instead of +=', rep('messages[self.tree[j], mask] +=', 'messages[self.tree[j], mask] =')),
    ('const:cltree.message_passing.loop', C, 'read the parent message instead of the own one', rep('msg = np.expand_dims(messages[j], axis=1)', 'msg = np.expand_dims(messages[self.tree[j]], axis=1)')),
    ('const:cltree.message_passing.loop', C, 'root value from another slot', rep('msg = messages[self.root]', 'msg = messages[0]')),
    ('const:cltree.message_passing.loop', C, 'return_lls test dropped', rep('        if not return_lls:\n            return messages\n', '')),
    ('const:cltree.message_passing.loop', C, 'messages initialised with ones', rep('messages = np.zeros(shape=(n_features, n_samples, 2)', 'messages = np.ones(shape=(n_features, n_samples, 2)')),
    ('const:cltree.message_passing.loop', C, 'whole-array use inside the loop', rep('            msg = np.expand_dims(messages[j], axis=1)\n', '            msg = np.expand_dims(messages[j], axis=1)\n            messages = messages - np.max(messages)\n')),
    ('const:cltree.mpe.loop', C, 'mpe: skip the root step', rep("        x[mask, self.root] = np.argmax(msg, axis=1)\n", '')),
    ('const:cltree.mpe.loop', C, 'mpe: bfs instead of bfs[1:]', sub(r"(# Compute MPE at the other features.*\n\s+)for j in self\.bfs\[1:\]:", r'\1for j in self.bfs:')),
    ('const:cltree.mpe.loop', C, 'mpe: reversed order', sub(r"(# Compute MPE at the other features.*\n\s+)for j in self\.bfs\[1:\]:", r'\1for j in reversed(self.bfs[1:]):')),
    ('const:cltree.mpe.loop', C, "mpe: reduce='mar'", rep("return_lls=False, reduce='mpe'", "return_lls=False, reduce='mar'")),
    ('const:cltree.mpe.loop', C, 'mpe: no copy', rep('    def mpe(self, x: np.ndarray) -> np.ndarray:\n        x = np.copy(x)\n', '    def mpe(self, x: np.ndarray) -> np.ndarray:\n')),
    ('const:cltree.mpe.loop', C, 'mpe: reads its own entry instead of the parent', rep('obs_parent_values = x[mask, self.tree[j]].astype(np.int64)\n            msg = self.params[j, obs_parent_values] + messages[j, mask]\n            x[mask, j] = np.argmax', 'obs_parent_values = x[mask, j].astype(np.int64)\n            msg = self.params[j, obs_parent_values] + messages[j, mask]\n            x[mask, j] = np.argmax')),
    ('const:cltree.mpe.loop', C, 'mpe: unmasked store', rep('            x[mask, j] = np.argmax(msg, axis=1)', '            x[:, j] = np.argmax(msg, axis=1)')),
    ('const:cltree.sample.loop', C, "sample: reduce='mpe'", rep("return_lls=False, reduce='mar'", "return_lls=False, reduce='mpe'")),
    ('const:cltree.sample.loop', C, 'sample: root step skipped', rep("        x[mask, self.root] = ss.bernoulli.rvs(np.exp(log_probs))\n", '')),
]
RENAMES = [
    (C, 'rename j -> pos', sub(r'\bj\b', 'pos')),
    (C, 'rename messages -> table, msg -> mm, mask -> sel', lambda s: re.sub(r'\bmask\b', 'sel', re.sub(r'\bmsg\b', 'mm', re.sub(r'\bmessages\b', 'table', s)))),
    (C, 'rename obs_mask -> om, x -> data in message_passing/mpe bodies', lambda s: re.sub(r'\bobs_mask\b', 'om', s)),
]
MUTANTS += [
    ('const:structure.prune.loop', S, 'prune: dfs_post_order instead of topological_order', rep('    nodes = topological_order(root)', '    nodes = dfs_post_order(root)')),
    ('const:structure.prune.loop', S, 'prune: forward order', rep('    for node in reversed(nodes):', '    for node in nodes:')),
    ('const:structure.prune.loop', S, 'prune: forgetting nodes_map[node.id] = children_nodes[0]', rep('            nodes_map[node.id] = children_nodes[0]\n        elif isinstance(node, Product):', '            pass\n        elif isinstance(node, Product):')),
    ('const:structure.prune.loop', S, 'prune: forgetting nodes_map[node.id].children = children (Product)', rep('            nodes_map[node.id].children = children\n        elif isinstance(node, Sum):', '            pass\n        elif isinstance(node, Sum):')),
    ('const:structure.prune.loop', S, 'prune: store at a child key', rep('            nodes_map[node.id] = children_nodes[0]\n        elif isinstance(node, Product):', '            nodes_map[node.children[0].id] = children_nodes[0]\n        elif isinstance(node, Product):')),
    ('const:structure.prune.loop', S, 'prune: returns nodes_map[root.id] without assign_ids', rep('    return assign_ids(nodes_map[root.id])\n\n\ndef marginalize', '    return nodes_map[root.id]\n\n\ndef marginalize')),
    ('const:structure.marginalize.loop', S, 'marginalize: forward order', lambda s: s[:s.index('def marginalize')] + s[s.index('def marginalize'):].replace('    for node in reversed(nodes):', '    for node in nodes:', 1)),
    ('const:structure.marginalize.loop', S, 'marginalize: forgetting nodes_map[node.id] = None (no children left)', rep('        if not children_nodes:\n            nodes_map[node.id] = None', '        if not children_nodes:\n            pass')),
    ('const:structure.marginalize.loop', S, 'marginalize: final prune dropped', rep('    return prune(root, copy=False)', '    return root')),
    ('const:structure.marginalize.loop', S, 'marginalize: dfs_post_order', lambda s: s[:s.index('def marginalize')] + s[s.index('def marginalize'):].replace('    nodes = topological_order(root)', '    nodes = dfs_post_order(root)', 1)),
]
RENAMES += [
    (S, 'rename node -> nd, nodes_map -> table, children_nodes -> cn, nodes -> order', lambda s: re.sub(r'\bnodes\b', 'order', re.sub(r'\bchildren_nodes\b', 'cn', re.sub(r'\bnodes_map\b', 'table', re.sub(r'\bnode\b', 'nd', s))))),
]

fails = 0
for frag, rel, what, edit in MUTANTS:
    snap, errs = with_edit(rel, edit)
    name = frag.split(':', 1)[1]
    if name in errs:
        print(f'ok   {name:36s} {what}: Untranslatable — {errs[name][:110]}')
    elif snap.get(frag) != base[frag]:
        print(f'ok   {name:36s} {what}: text changed')
    else:
        fails += 1
        print(f'FAIL {name:36s} {what}: same text, no error')
for rel, what, edit in RENAMES:
    snap, errs = with_edit(rel, edit)
    if errs or snap != base:
        fails += 1
        print(f'FAIL rename `{what}`: {errs or [k for k in base if snap.get(k) != base[k]]}')
    else:
        print(f'ok   rename `{what}`: identical text')
print('failures:', fails)
sys.exit(1 if fails else 0)
