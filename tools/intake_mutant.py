#!/usr/bin/env python3
"""Confirm a seeded change produced by a sub-agent and keep it under /verif/seeded/<id>/.

usage: [MUT_ROOT=/tmp/mut2 MUT_ID_OFFSET=2] intake_mutant.py Cxx k [--skip-tests]
Confirms in a scratch worktree (outside /repo and /verif, removed afterwards): the patch applies to HEAD of /repo, the
demonstration exits non-zero with the change and 0 without, and the repository's own suite gives the baseline result
(86 passed, the same 2 always-failing tests)."""
import json, os, shutil, subprocess, sys, re

VERIF = os.path.dirname(os.path.dirname(os.path.abspath(__file__)))


def sh(cmd, **kw):
    return subprocess.run(cmd, shell=True, stdout=subprocess.PIPE, stderr=subprocess.STDOUT, text=True, **kw)


def main():
    pid, k = sys.argv[1], sys.argv[2]
    skip_tests = '--skip-tests' in sys.argv
    root = os.environ.get('MUT_ROOT', '/tmp/mut')
    src = f'{root}/{pid}_out/{k}'
    sid = f'{pid}-{int(k) + int(os.environ.get("MUT_ID_OFFSET", "0"))}'
    wt = f'{root}/verify_{sid}'
    sh(f'git -C /repo worktree remove --force {wt}')
    r = sh(f'git -C /repo worktree add -q {wt} HEAD')
    if r.returncode != 0:
        print('cannot create worktree', r.stdout)
        return 2
    ran = {}
    try:
        env = dict(os.environ, PYTHONPATH=wt, OMP_NUM_THREADS='1', MKL_NUM_THREADS='1', OPENBLAS_NUM_THREADS='1')
        env.pop('DEEPROB_KIT_VERIF', None)
        d0 = sh(f'cd {wt} && timeout 1800 /venv/bin/python {src}/demo.py', env=env)
        ran['demo_without_change'] = dict(rc=d0.returncode, tail=d0.stdout[-400:])
        a = sh(f'git -C {wt} apply {src}/patch.diff')
        if a.returncode != 0:
            print(sid, 'REJECTED: patch does not apply:', a.stdout[:300])
            return 1
        files = sh(f'git -C {wt} diff --stat').stdout
        d1 = sh(f'cd {wt} && timeout 1800 /venv/bin/python {src}/demo.py', env=env)
        ran['demo_with_change'] = dict(rc=d1.returncode, tail=d1.stdout[-600:])
        if d0.returncode != 0 or d1.returncode == 0:
            print(sid, f'REJECTED: demo rc without change = {d0.returncode}, with change = {d1.returncode}')
            print(d0.stdout[-300:], '\n---\n', d1.stdout[-300:])
            return 1
        if not skip_tests:
            t = sh(f'cd {wt} && timeout 3000 /venv/bin/python -m pytest -q -p no:cacheprovider --timeout=900 tests/ 2>&1 | tail -6', env=env)
            ran['pytest'] = t.stdout[-500:]
            m = re.search(r'(\d+) failed, (\d+) passed', t.stdout)
            ok = bool(m) and m.group(1) == '2' and m.group(2) == '86' and 'test_data_flatten' in t.stdout and 'test_compute_fid' in t.stdout
            if not ok:
                print(sid, 'REJECTED: test suite is not at the baseline:', t.stdout[-400:])
                return 1
        dst = os.path.join(VERIF, 'seeded', sid)
        os.makedirs(dst, exist_ok=True)
        shutil.copy(f'{src}/patch.diff', dst)
        shutil.copy(f'{src}/demo.py', dst)
        agent_meta = open(f'{src}/meta.txt').read() if os.path.exists(f'{src}/meta.txt') else ''
        json.dump(dict(id=sid, property=pid, files=files.strip().splitlines(), needs_to_manifest=agent_meta,
                       confirmed=dict(patch_applies=True, demo_without_change_rc=d0.returncode, demo_with_change_rc=d1.returncode,
                                      demo_with_change_output=d1.stdout[-600:], pytest=ran.get('pytest', 'skipped')),
                       produced_by='independent sub-agent given only the property text and a scratch worktree'),
                  open(os.path.join(dst, 'meta.json'), 'w'), indent=1)
        print(sid, 'KEPT', files.strip().splitlines()[-1] if files.strip() else '')
        return 0
    finally:
        sh(f'git -C /repo worktree remove --force {wt}')


if __name__ == '__main__':
    sys.exit(main())
