#!/bin/bash
# run every claimed check at the given tier for a list of seeds; print one line per run
TIER=${1:-quick}; shift
SEEDS=${@:-0}
cd /verif
for s in $SEEDS; do
  for p in $(python3 -c "import json;print(' '.join(c['property_id'] for c in json.load(open('MANIFEST.json'))['checks']))"); do
    t0=$(date +%s)
    out=$(VERIF_SEED=$s timeout 3000 /venv/bin/python check.py $p --tier $TIER 2>&1)
    rc=$?
    t1=$(date +%s)
    echo "seed=$s $p rc=$rc $((t1-t0))s $(echo "$out" | grep -E '^(OK|VIOLATION|KNOWN-FINDING|INFRASTRUCTURE)' | head -3 | cut -c1-200 | tr '\n' '|')"
  done
done
