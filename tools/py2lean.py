"""py2lean: regenerate DeeprobModel/Generated/*.lean from the current /repo sources.

Small and general: it translates straight-line arithmetic Python (assignments, + - * / **, unary
minus, numeric literals, whitelisted calls, max/min, comparisons) found by *selectors* (class,
function, which statement) into Lean terms. Every fragment is translated independently; a fragment
that can no longer be translated is omitted from the generated file (so the obligations that
mention it stop building) and reported in the returned error map.
"""
import ast, os, sys
from fractions import Fraction


class Untranslatable(Exception):
    pass


# ----------------------------------------------------------------------------- locating code
def parse_file(repo, rel):
    with open(os.path.join(repo, rel)) as f:
        return ast.parse(f.read())


def find_func(tree, qual):
    """qual = 'Class.method' or 'function'"""
    parts = qual.split('.')
    body = tree.body
    node = None
    for p in parts:
        node = None
        for n in body:
            if isinstance(n, (ast.ClassDef, ast.FunctionDef)) and n.name == p:
                node = n
                break
        if node is None:
            raise Untranslatable(f'{qual}: {p} not found')
        body = node.body
    if not isinstance(node, ast.FunctionDef):
        raise Untranslatable(f'{qual} is not a function')
    return node


def walk_stmts(fn):
    """all statements of a function body in source order (descending into if/for/with/while/try)"""
    out = []
    def rec(stmts):
        for s in stmts:
            out.append(s)
            for attr in ('body', 'orelse', 'finalbody'):
                sub = getattr(s, attr, None)
                if isinstance(sub, list) and sub and isinstance(sub[0], ast.stmt) and not isinstance(s, (ast.FunctionDef, ast.ClassDef)):
                    rec(sub)
            if isinstance(s, ast.Try):
                for h in s.handlers:
                    rec(h.body)
    rec(fn.body)
    return out


def target_key(t):
    """canonical text of an assignment target"""
    return ast.unparse(t).replace(' ', '')


def assignments(fn, key):
    res = []
    for s in walk_stmts(fn):
        if isinstance(s, ast.Assign):
            for t in s.targets:
                if target_key(t) == key:
                    res.append(s.value)
        elif isinstance(s, ast.AugAssign) and target_key(s.target) == key:
            res.append(ast.BinOp(left=s.target, op=s.op, right=s.value))
    return res


def returns(fn):
    return [s.value for s in walk_stmts(fn) if isinstance(s, ast.Return) and s.value is not None]


def calls(node, dotted):
    """all Call nodes whose function's dotted name ends with `dotted`"""
    res = []
    for n in ast.walk(node):
        if isinstance(n, ast.Call):
            name = dotted_name(n.func)
            if name is not None and (name == dotted or name.endswith('.' + dotted)):
                res.append(n)
    return res


def dotted_name(f):
    if isinstance(f, ast.Name):
        return f.id
    if isinstance(f, ast.Attribute):
        b = dotted_name(f.value)
        return None if b is None else b + '.' + f.attr
    return None


# ----------------------------------------------------------------------------- expressions
EPS = {'float16': Fraction(1, 2 ** 10), 'float32': Fraction(1, 2 ** 23), 'float64': Fraction(1, 2 ** 52)}


def const_value(e):
    """exact rational value of a constant expression (literals, finfo eps, arithmetic)"""
    if isinstance(e, ast.Constant) and isinstance(e.value, (int, float)) and not isinstance(e.value, bool):
        return Fraction(repr(e.value)) if isinstance(e.value, float) else Fraction(e.value)
    if isinstance(e, ast.UnaryOp) and isinstance(e.op, ast.USub):
        return -const_value(e.operand)
    if isinstance(e, ast.Attribute) and e.attr == 'eps' and isinstance(e.value, ast.Call):
        nm = dotted_name(e.value.func)
        if nm and nm.endswith('finfo') and e.value.args:
            a = dotted_name(e.value.args[0])
            if a and a.split('.')[-1] in EPS:
                return EPS[a.split('.')[-1]]
    if isinstance(e, ast.BinOp):
        a, b = const_value(e.left), const_value(e.right)
        if isinstance(e.op, ast.Add): return a + b
        if isinstance(e.op, ast.Sub): return a - b
        if isinstance(e.op, ast.Mult): return a * b
        if isinstance(e.op, ast.Div) and b != 0: return a / b
        if isinstance(e.op, ast.Pow) and b.denominator == 1: return a ** int(b)
    raise Untranslatable('not a constant: ' + ast.unparse(e))


def q_lean(q, ty='Rat'):
    q = Fraction(q)
    if q.denominator == 1:
        return f'({q.numerator} : {ty})'
    return f'(({q.numerator} : {ty}) / {q.denominator})'


UNARY_FUNS = {'exp': 'E.exp', 'log': 'E.log', 'sqrt': 'E.sqrt', 'tanh': 'E.tanh', 'sigmoid': 'E.sigmoid'}


class Tr:
    """expression translator to a Lean term over a field `F` (structure `E : ExpLog F` supplies exp/log/sqrt)"""

    def __init__(self, env=None, call_hook=None, name_hook=None, elementwise=(), syms=None):
        self.env = dict(env or {})
        self.call_hook = call_hook
        self.name_hook = name_hook
        # element-wise reading table: exact source text of a sub-expression (blanks removed) -> Lean symbol
        self.syms = {k.replace(' ', ''): v for k, v in (syms or {}).items()}

    def tr(self, e):
        if self.syms:
            key = ast.unparse(e).replace(' ', '')
            if key in self.syms and key not in self.env:
                return self.syms[key]
        try:
            return q_lean(const_value(e), 'F')
        except Untranslatable:
            pass
        if isinstance(e, ast.Name):
            if e.id in self.env:
                return self.env[e.id]
            if self.name_hook:
                r = self.name_hook(e.id)
                if r is not None:
                    return r
            raise Untranslatable(f'free name {e.id}')
        if isinstance(e, ast.UnaryOp) and isinstance(e.op, ast.USub):
            return f'(-{self.tr(e.operand)})'
        if isinstance(e, ast.BinOp):
            if isinstance(e.op, ast.Pow):
                p = const_value(e.right)
                a = self.tr(e.left)
                if p.denominator == 1 and p >= 0:
                    return f'({a} ^ {p.numerator})'
                return f'(E.rpow {a} {p.numerator} {p.denominator})'
            a, b = self.tr(e.left), self.tr(e.right)
            op = {ast.Add: '+', ast.Sub: '-', ast.Mult: '*', ast.Div: '/'}.get(type(e.op))
            if op is None:
                raise Untranslatable('operator ' + type(e.op).__name__)
            return f'({a} {op} {b})'
        if isinstance(e, ast.Call):
            if self.call_hook:
                r = self.call_hook(self, e)
                if r is not None:
                    return r
            nm = dotted_name(e.func) or ''
            base = nm.split('.')[-1]
            if base in UNARY_FUNS and len(e.args) == 1:
                return f'({UNARY_FUNS[base]} {self.tr(e.args[0])})'
            if base in ('max', 'maximum') and len(e.args) == 2:
                return f'(max {self.tr(e.args[0])} {self.tr(e.args[1])})'
            if base in ('min', 'minimum') and len(e.args) == 2:
                return f'(min {self.tr(e.args[0])} {self.tr(e.args[1])})'
            raise Untranslatable('call ' + nm)
        if isinstance(e, ast.Attribute):
            key = ast.unparse(e)
            if key in self.env:
                return self.env[key]
            if self.name_hook:
                r = self.name_hook(key)
                if r is not None:
                    return r
        if isinstance(e, ast.Subscript):
            key = ast.unparse(e).replace(' ', '')
            if key in self.env:
                return self.env[key]
            if self.name_hook:
                r = self.name_hook(key)
                if r is not None:
                    return r
        raise Untranslatable('expression ' + ast.unparse(e))

    def run(self, fn, stop_at_return=True):
        """symbolically execute the straight-line body of `fn` (a `for` body is read element-wise, i.e.
        executed once); returns the returned term (or None)"""
        return self.run_stmts(fn.body)

    def run_stmts(self, stmts):
        for s in stmts:
            if isinstance(s, ast.Expr):
                continue
            if isinstance(s, ast.Assign) and len(s.targets) == 1:
                try:
                    self.env[target_key(s.targets[0])] = self.tr(s.value)
                except Untranslatable:
                    self.env.pop(target_key(s.targets[0]), None)
            elif isinstance(s, ast.AugAssign):
                try:
                    self.env[target_key(s.target)] = self.tr(ast.BinOp(left=s.target, op=s.op, right=s.value))
                except Untranslatable:
                    self.env.pop(target_key(s.target), None)
            elif isinstance(s, ast.For):
                r = self.run_stmts(s.body)
                if r is not None:
                    return r
            elif isinstance(s, ast.Return) and s.value is not None:
                return self.tr(s.value)
        return None

    def value_of(self, key, what=None):
        """the term bound to an assignment target after `run`"""
        key = key.replace(' ', '')
        if key not in self.env:
            raise Untranslatable(f'{what or key}: no translatable assignment')
        return self.env[key]


def cmp_guard(test, tr):
    """a Python comparison `a < b` etc. as a Lean Prop over F"""
    if isinstance(test, ast.Compare) and len(test.ops) == 1:
        op = {ast.Lt: '<', ast.LtE: '≤', ast.Gt: '>', ast.GtE: '≥', ast.Eq: '=', ast.NotEq: '≠'}.get(type(test.ops[0]))
        if op:
            return f'({tr.tr(test.left)} {op} {tr.tr(test.comparators[0])})'
    if isinstance(test, ast.BoolOp):
        j = ' ∨ ' if isinstance(test.op, ast.Or) else ' ∧ '
        return '(' + j.join(cmp_guard(v, tr) for v in test.values) + ')'
    if isinstance(test, ast.UnaryOp) and isinstance(test.op, ast.Not):
        return f'(¬ {cmp_guard(test.operand, tr)})'
    if isinstance(test, ast.Call) and (dotted_name(test.func) or '').split('.')[-1] == 'isclose' and len(test.args) == 2:
        # numpy.isclose(a, b, rtol=1e-5, atol=1e-8):  |a - b| <= atol + rtol * |b|
        kw = {k.arg: const_value(k.value) for k in test.keywords}
        if set(kw) - {'rtol', 'atol'}:
            raise Untranslatable('isclose keywords ' + ast.unparse(test))
        rtol, atol = kw.get('rtol', Fraction(1, 10 ** 5)), kw.get('atol', Fraction(1, 10 ** 8))
        a, b = tr.tr(test.args[0]), tr.tr(test.args[1])
        return f'(max ({a} - {b}) (-({a} - {b})) ≤ {q_lean(atol, "F")} + {q_lean(rtol, "F")} * max {b} (-{b}))'
    raise Untranslatable('guard ' + ast.unparse(test))


def raise_guards(fn):
    """tests of `if <test>: raise ...` statements, in order"""
    res = []
    for s in walk_stmts(fn):
        if isinstance(s, ast.If) and s.body and isinstance(s.body[0], ast.Raise):
            res.append(s.test)
    return res


# ----------------------------------------------------------------------------- fragments
class Out:
    def __init__(self):
        self.consts, self.formulas, self.errors = [], [], {}

    def const(self, name, fn):
        try:
            self.consts.append(fn())
        except Untranslatable as ex:
            self.errors[name] = str(ex)
        except Exception as ex:  # a translator crash is a failed translation, not a pass
            self.errors[name] = f'{type(ex).__name__}: {ex}'

    def formula(self, name, fn):
        try:
            r = fn()  # one definition, or a list of definitions
            self.formulas.extend(r if isinstance(r, list) else [r])
        except Untranslatable as ex:
            self.errors[name] = str(ex)
        except Exception as ex:
            self.errors[name] = f'{type(ex).__name__}: {ex}'


def the(xs, what):
    if len(xs) != 1:
        raise Untranslatable(f'{what}: expected exactly one occurrence, found {len(xs)}')
    return xs[0]


def generate(repo, outdir, write_if_changed):
    o = Out()
    import fragments
    fragments.emit(o, repo, sys.modules[__name__])
    consts = ('/- GENERATED by tools/py2lean.py from the /repo working tree — do not edit. -/\n'
              'namespace Deeprob.Gen\n\n' + '\n\n'.join(o.consts) + '\n\nend Deeprob.Gen\n')
    formulas = ('/- GENERATED by tools/py2lean.py from the /repo working tree — do not edit. -/\n'
                'import DeeprobModel.Spec.ExpLog\n'
                'set_option linter.unusedVariables false\n'
                'namespace Deeprob.Gen\nvariable {F : Type} [Field F] [LinearOrder F] (E : ExpLog F)\n\n'
                + '\n\n'.join(o.formulas) + '\n\nend Deeprob.Gen\n')
    # the same terms once more at the computable carrier `Rat`, without any Mathlib import (the driver
    # executable links this file); formulas that mention `E.` and Prop-valued guards stay in Formulas.lean only
    import re
    rat = [re.sub(r'\bF\b', 'Rat', f) for f in o.formulas if 'E.' not in f and ': Prop' not in f]
    formulas_rat = ('/- GENERATED by tools/py2lean.py from the /repo working tree — do not edit.\n'
                    '   Same terms as Formulas.lean, at the carrier `Rat` (no Mathlib). -/\n'
                    'set_option linter.unusedVariables false\nnamespace Deeprob.GenRat\n\n' + '\n\n'.join(rat) + '\n\nend Deeprob.GenRat\n')
    os.makedirs(outdir, exist_ok=True)
    write_if_changed(os.path.join(outdir, 'Consts.lean'), consts)
    write_if_changed(os.path.join(outdir, 'Formulas.lean'), formulas)
    write_if_changed(os.path.join(outdir, 'FormulasRat.lean'), formulas_rat)
    return o.errors


if __name__ == '__main__':
    repo = sys.argv[1] if len(sys.argv) > 1 else '/repo'
    here = os.path.dirname(os.path.abspath(__file__))
    sys.path.insert(0, here)
    sys.path.insert(0, os.path.join(os.path.dirname(here)))
    try:
        from harness.common import write_if_changed, LEAN
    except ImportError:  # stand-alone use outside /verif
        LEAN = None
        def write_if_changed(path, text):
            old = open(path).read() if os.path.exists(path) else None
            if old != text:
                with open(path, 'w') as f:
                    f.write(text)
    lean = sys.argv[2] if len(sys.argv) > 2 else os.environ.get('DEEPROB_LEAN', LEAN)
    errs = generate(repo, os.path.join(lean, 'DeeprobModel', 'Generated'), write_if_changed)
    print(errs)
