"""py2lean: regenerate DeeprobModel/Generated/*.lean from the current /repo sources.

Small and general: it translates straight-line arithmetic Python (assignments, + - * / **, unary
minus, numeric literals, whitelisted calls, max/min, comparisons) found by *selectors* (class,
function, which statement) into Lean terms. Every fragment is translated independently; a fragment
that can no longer be translated is omitted from the generated file (so the obligations that
mention it stop building) and reported in the returned error map.
"""
import ast, os, sys
from fractions import Fraction


class Untranslatable(Exception):
    pass


# ----------------------------------------------------------------------------- locating code
def parse_file(repo, rel):
    with open(os.path.join(repo, rel)) as f:
        return ast.parse(f.read())


def find_func(tree, qual):
    """qual = 'Class.method' or 'function'"""
    parts = qual.split('.')
    body = tree.body
    node = None
    for p in parts:
        node = None
        for n in body:
            if isinstance(n, (ast.ClassDef, ast.FunctionDef)) and n.name == p:
                node = n
                break
        if node is None:
            raise Untranslatable(f'{qual}: {p} not found')
        body = node.body
    if not isinstance(node, ast.FunctionDef):
        raise Untranslatable(f'{qual} is not a function')
    return node


def walk_stmts(fn):
    """all statements of a function body in source order (descending into if/for/with/while/try)"""
    out = []
    def rec(stmts):
        for s in stmts:
            out.append(s)
            for attr in ('body', 'orelse', 'finalbody'):
                sub = getattr(s, attr, None)
                if isinstance(sub, list) and sub and isinstance(sub[0], ast.stmt) and not isinstance(s, (ast.FunctionDef, ast.ClassDef)):
                    rec(sub)
            if isinstance(s, ast.Try):
                for h in s.handlers:
                    rec(h.body)
    rec(fn.body)
    return out


def target_key(t):
    """canonical text of an assignment target"""
    return ast.unparse(t).replace(' ', '')


def assignments(fn, key):
    res = []
    for s in walk_stmts(fn):
        if isinstance(s, ast.Assign):
            for t in s.targets:
                if target_key(t) == key:
                    res.append(s.value)
        elif isinstance(s, ast.AugAssign) and target_key(s.target) == key:
            res.append(ast.BinOp(left=s.target, op=s.op, right=s.value))
        elif isinstance(s, ast.AnnAssign) and s.value is not None and target_key(s.target) == key:
            res.append(s.value)
    return res


def returns(fn):
    return [s.value for s in walk_stmts(fn) if isinstance(s, ast.Return) and s.value is not None]


def calls(node, dotted):
    """all Call nodes whose function's dotted name ends with `dotted`"""
    res = []
    for n in ast.walk(node):
        if isinstance(n, ast.Call):
            name = dotted_name(n.func)
            if name is not None and (name == dotted or name.endswith('.' + dotted)):
                res.append(n)
    return res


def dotted_name(f):
    if isinstance(f, ast.Name):
        return f.id
    if isinstance(f, ast.Attribute):
        b = dotted_name(f.value)
        return None if b is None else b + '.' + f.attr
    return None


# ----------------------------------------------------------------------------- expressions
EPS = {'float16': Fraction(1, 2 ** 10), 'float32': Fraction(1, 2 ** 23), 'float64': Fraction(1, 2 ** 52)}


def const_value(e):
    """exact rational value of a constant expression (literals, finfo eps, arithmetic)"""
    if isinstance(e, ast.Constant) and isinstance(e.value, (int, float)) and not isinstance(e.value, bool):
        return Fraction(repr(e.value)) if isinstance(e.value, float) else Fraction(e.value)
    if isinstance(e, ast.UnaryOp) and isinstance(e.op, ast.USub):
        return -const_value(e.operand)
    if isinstance(e, ast.Attribute) and e.attr == 'eps' and isinstance(e.value, ast.Call):
        nm = dotted_name(e.value.func)
        if nm and nm.endswith('finfo') and e.value.args:
            a = dotted_name(e.value.args[0])
            if a and a.split('.')[-1] in EPS:
                return EPS[a.split('.')[-1]]
    if isinstance(e, ast.BinOp):
        a, b = const_value(e.left), const_value(e.right)
        if isinstance(e.op, ast.Add): return a + b
        if isinstance(e.op, ast.Sub): return a - b
        if isinstance(e.op, ast.Mult): return a * b
        if isinstance(e.op, ast.Div) and b != 0: return a / b
        if isinstance(e.op, ast.Pow) and b.denominator == 1: return a ** int(b)
    raise Untranslatable('not a constant: ' + ast.unparse(e))


def q_lean(q, ty='Rat'):
    q = Fraction(q)
    if q.denominator == 1:
        return f'({q.numerator} : {ty})'
    return f'(({q.numerator} : {ty}) / {q.denominator})'


UNARY_FUNS = {'exp': 'E.exp', 'log': 'E.log', 'sqrt': 'E.sqrt', 'tanh': 'E.tanh', 'sigmoid': 'E.sigmoid'}


class Tr:
    """expression translator to a Lean term over a field `F` (structure `E : ExpLog F` supplies exp/log/sqrt)"""

    def __init__(self, env=None, call_hook=None, name_hook=None, elementwise=(), syms=None):
        self.env = dict(env or {})
        self.call_hook = call_hook
        self.name_hook = name_hook
        # element-wise reading table: exact source text of a sub-expression (blanks removed) -> Lean symbol
        self.syms = {k.replace(' ', ''): v for k, v in (syms or {}).items()}

    def tr(self, e):
        if self.syms:
            key = ast.unparse(e).replace(' ', '')
            if key in self.syms and key not in self.env:
                return self.syms[key]
        try:
            return q_lean(const_value(e), 'F')
        except Untranslatable:
            pass
        if isinstance(e, ast.Name):
            if e.id in self.env:
                return self.env[e.id]
            if self.name_hook:
                r = self.name_hook(e.id)
                if r is not None:
                    return r
            raise Untranslatable(f'free name {e.id}')
        if isinstance(e, ast.UnaryOp) and isinstance(e.op, ast.USub):
            return f'(-{self.tr(e.operand)})'
        if isinstance(e, ast.BinOp):
            if isinstance(e.op, ast.Pow):
                p = const_value(e.right)
                a = self.tr(e.left)
                if p.denominator == 1 and p >= 0:
                    return f'({a} ^ {p.numerator})'
                return f'(E.rpow {a} {p.numerator} {p.denominator})'
            a, b = self.tr(e.left), self.tr(e.right)
            op = {ast.Add: '+', ast.Sub: '-', ast.Mult: '*', ast.Div: '/'}.get(type(e.op))
            if op is None:
                raise Untranslatable('operator ' + type(e.op).__name__)
            return f'({a} {op} {b})'
        if isinstance(e, ast.Call):
            if self.call_hook:
                r = self.call_hook(self, e)
                if r is not None:
                    return r
            nm = dotted_name(e.func) or ''
            base = nm.split('.')[-1]
            if base in UNARY_FUNS and len(e.args) == 1:
                return f'({UNARY_FUNS[base]} {self.tr(e.args[0])})'
            if base in ('max', 'maximum') and len(e.args) == 2:
                return f'(max {self.tr(e.args[0])} {self.tr(e.args[1])})'
            if base in ('min', 'minimum') and len(e.args) == 2:
                return f'(min {self.tr(e.args[0])} {self.tr(e.args[1])})'
            raise Untranslatable('call ' + nm)
        if isinstance(e, ast.IfExp):
            return f'(if {cmp_guard(e.test, self)} then {self.tr(e.body)} else {self.tr(e.orelse)})'
        if isinstance(e, ast.Attribute):
            key = ast.unparse(e)
            if key in self.env:
                return self.env[key]
            if self.name_hook:
                r = self.name_hook(key)
                if r is not None:
                    return r
        if isinstance(e, ast.Subscript):
            key = ast.unparse(e).replace(' ', '')
            if key in self.env:
                return self.env[key]
            if self.name_hook:
                r = self.name_hook(key)
                if r is not None:
                    return r
        raise Untranslatable('expression ' + ast.unparse(e))

    def run(self, fn, stop_at_return=True):
        """symbolically execute the straight-line body of `fn` (a `for` body is read element-wise, i.e.
        executed once); returns the returned term (or None)"""
        return self.run_stmts(fn.body)

    def run_stmts(self, stmts):
        for s in stmts:
            if isinstance(s, ast.Expr):
                continue
            if isinstance(s, ast.Assign) and len(s.targets) == 1:
                try:
                    self.env[target_key(s.targets[0])] = self.tr(s.value)
                except Untranslatable:
                    self.env.pop(target_key(s.targets[0]), None)
            elif isinstance(s, ast.AugAssign):
                try:
                    self.env[target_key(s.target)] = self.tr(ast.BinOp(left=s.target, op=s.op, right=s.value))
                except Untranslatable:
                    self.env.pop(target_key(s.target), None)
            elif isinstance(s, ast.For):
                r = self.run_stmts(s.body)
                if r is not None:
                    return r
            elif isinstance(s, ast.Return) and s.value is not None:
                return self.tr(s.value)
        return None

    def value_of(self, key, what=None):
        """the term bound to an assignment target after `run`"""
        key = key.replace(' ', '')
        if key not in self.env:
            raise Untranslatable(f'{what or key}: no translatable assignment')
        return self.env[key]


def cmp_guard(test, tr):
    """a Python comparison `a < b` etc. as a Lean Prop over F"""
    if isinstance(test, ast.Compare) and len(test.ops) == 1:
        op = {ast.Lt: '<', ast.LtE: '≤', ast.Gt: '>', ast.GtE: '≥', ast.Eq: '=', ast.NotEq: '≠'}.get(type(test.ops[0]))
        if op:
            return f'({tr.tr(test.left)} {op} {tr.tr(test.comparators[0])})'
    if isinstance(test, ast.BoolOp):
        j = ' ∨ ' if isinstance(test.op, ast.Or) else ' ∧ '
        return '(' + j.join(cmp_guard(v, tr) for v in test.values) + ')'
    if isinstance(test, ast.UnaryOp) and isinstance(test.op, ast.Not):
        return f'(¬ {cmp_guard(test.operand, tr)})'
    if isinstance(test, ast.Call) and (dotted_name(test.func) or '').split('.')[-1] == 'isclose' and len(test.args) == 2:
        # numpy.isclose(a, b, rtol=1e-5, atol=1e-8):  |a - b| <= atol + rtol * |b|
        kw = {k.arg: const_value(k.value) for k in test.keywords}
        if set(kw) - {'rtol', 'atol'}:
            raise Untranslatable('isclose keywords ' + ast.unparse(test))
        rtol, atol = kw.get('rtol', Fraction(1, 10 ** 5)), kw.get('atol', Fraction(1, 10 ** 8))
        a, b = tr.tr(test.args[0]), tr.tr(test.args[1])
        return f'(max ({a} - {b}) (-({a} - {b})) ≤ {q_lean(atol, "F")} + {q_lean(rtol, "F")} * max {b} (-{b}))'
    raise Untranslatable('guard ' + ast.unparse(test))


def raise_guards(fn):
    """tests of `if <test>: raise ...` statements, in order"""
    res = []
    for s in walk_stmts(fn):
        if isinstance(s, ast.If) and s.body and isinstance(s.body[0], ast.Raise):
            res.append(s.test)
    return res


# ----------------------------------------------------------------------------- structure: statements, stores
def parent_map(fn):
    """child AST node -> parent AST node, for every node below `fn`"""
    pm = {}
    for p in ast.walk(fn):
        for c in ast.iter_child_nodes(p):
            pm[c] = p
    return pm


def ancestors(fn, node, pm=None):
    """enclosing AST nodes of `node` inside `fn`, innermost first"""
    pm = pm or parent_map(fn)
    res = []
    while node in pm:
        node = pm[node]
        res.append(node)
    return res


def nested_func(fn, name):
    """the function `name` defined inside `fn` (closure)"""
    return the([n for n in ast.walk(fn) if isinstance(n, ast.FunctionDef) and n.name == name and n is not fn],
               f'nested function {name}')


BINOPS = {ast.BitOr: '|', ast.BitAnd: '&', ast.Add: '+', ast.Sub: '-', ast.Mult: '*', ast.Div: '/', ast.FloorDiv: '//',
          ast.Mod: '%', ast.Pow: '**', ast.BitXor: '^', ast.MatMult: '@', ast.LShift: '<<', ast.RShift: '>>'}


def store_sites(fn, arrays=None):
    """every statement of `fn` (nested functions included) that stores into `<array>[index]` (or, with `arrays=None`,
    into any subscripted name): dicts with the array name, the index text, the operator ('=' or 'op=';
    `a[i] = a[i] op e` is read as `a[i] op= e`), the texts of the enclosing `with` context expressions, the texts of
    the enclosing `if` tests (with 'not ' prefixed for an else branch), the enclosing loops ('target in iter'), the
    right-hand side and the statement."""
    pm = parent_map(fn)
    res = []
    for s in ast.walk(fn):
        if isinstance(s, ast.Assign):
            tgts, op, rhs = s.targets, '=', s.value
        elif isinstance(s, ast.AugAssign):
            tgts, op, rhs = [s.target], BINOPS.get(type(s.op), '?') + '=', s.value
        else:
            continue
        flat = []
        for t in tgts:
            flat.extend(t.elts if isinstance(t, (ast.Tuple, ast.List)) else [t])
        for t in flat:
            if not (isinstance(t, ast.Subscript) and isinstance(t.value, ast.Name)):
                continue
            if arrays is not None and t.value.id not in arrays:
                continue
            o, r = op, rhs
            if o == '=' and isinstance(r, ast.BinOp) and ast.dump(r.left) == ast.dump(ast.copy_location(_as_load(t), r.left)):
                o, r = BINOPS.get(type(r.op), '?') + '=', r.right
            withs, tests, loops, child = [], [], [], s
            for a in ancestors(fn, s, pm):
                if isinstance(a, ast.With):
                    withs.extend(ast.unparse(i.context_expr) for i in a.items)
                if isinstance(a, (ast.For, ast.While)):
                    loops.append(ast.unparse(a.target) + ' in ' + ast.unparse(a.iter) if isinstance(a, ast.For) else 'while ' + ast.unparse(a.test))
                if isinstance(a, ast.If) and child is not a.test:
                    tests.append(('' if child in a.body else 'not ') + ast.unparse(a.test))
                child = a
            res.append(dict(array=t.value.id, index=ast.unparse(t.slice), op=o, withs=withs, tests=tests, loops=loops, rhs=r, stmt=s))
    res.sort(key=lambda d: (d['stmt'].lineno, d['stmt'].col_offset))
    return res


def _as_load(t):
    t2 = ast.parse(ast.unparse(t), mode='eval').body
    return t2


def load_sites(node, arrays):
    """index texts of every read `<array>[index]` below `node` (Load context), in source order"""
    res = []
    for n in ast.walk(node):
        if isinstance(n, ast.Subscript) and isinstance(n.ctx, ast.Load) and isinstance(n.value, ast.Name) and n.value.id in arrays:
            res.append((n.lineno, n.col_offset, n.value.id, ast.unparse(n.slice)))
    return [(a, i) for _, _, a, i in sorted(res)]


def isinstance_class(tests, var):
    """the class K of the innermost positive `isinstance(<var>, K)` among the enclosing if-tests ('' if none)"""
    pre = f'isinstance({var},'
    for t in tests:
        k = t.replace(' ', '')
        if k.startswith(pre) and k.endswith(')'):
            return k[len(pre):-1]
    return ''


def store_site_lean(d, var, arrays):
    """a `store_sites` record as a Lean `StoreSite` literal; `arrays` = names whose reads on the right-hand side are listed"""
    r, sel = d['rhs'], ''
    if isinstance(r, ast.BinOp) and isinstance(r.op, ast.BitAnd):
        sel = ast.unparse(r.right)
    reads = ', '.join(f'({lean_str(a)}, {lean_str(i)})' for a, i in load_sites(r, arrays))
    return ('{ cls := %s, array := %s, index := %s, op := %s, loop := %s, locks := %s, reads := [%s], sel := %s }' % (
        lean_str(isinstance_class(d['tests'], var)), lean_str(d['array']), lean_str(d['index']), lean_str(d['op']),
        lean_str(d['loops'][0] if d['loops'] else ''), lean_list([lean_str(w) for w in d['withs']]), reads, lean_str(sel)))


def reduction_call(e):
    """`np.f(a, axis=k)` / `torch.f(a, dim=k)` / `a.f(axis=k)` -> (f, source text of a, k or None, other keyword names)"""
    if not isinstance(e, ast.Call):
        raise Untranslatable('not a call: ' + ast.unparse(e))
    nm = dotted_name(e.func)
    if isinstance(e.func, ast.Attribute) and (nm is None or nm.split('.')[0] not in ('np', 'numpy', 'torch', 'scipy', 'sp')):
        f, args = e.func.attr, [e.func.value] + list(e.args)     # method form
    elif nm is not None:
        f, args = nm.split('.')[-1], list(e.args)
    else:
        raise Untranslatable('call ' + ast.unparse(e))
    if not args:
        raise Untranslatable('reduction without an argument: ' + ast.unparse(e))
    axis, other = None, []
    for kw in e.keywords:
        if kw.arg in ('axis', 'dim'):
            axis = int(const_value(kw.value))
        else:
            other.append(kw.arg)
    if axis is None and len(args) == 2:
        axis = int(const_value(args[1]))
    elif len(args) > 1:
        raise Untranslatable('reduction with extra arguments: ' + ast.unparse(e))
    return f, ast.unparse(args[0]), axis, sorted(other)


LEAN_KEYWORDS = set("""have show from fun let in at do then else if match with end def theorem lemma example structure class instance where
open namespace section variable universe import export axiom inductive deriving mutual private protected partial unsafe noncomputable abbrev
by calc suffices obtain using local attribute macro syntax notation infix infixl infixr prefix postfix set_option return for unless try catch
finally break continue mut Type Prop Sort""".split())


def lid(name):
    """a Python identifier as a Lean binder name (quoted when it is a Lean keyword)"""
    return f'«{name}»' if name in LEAN_KEYWORDS else name


def lean_opt_int(k):
    return 'none' if k is None else f'(some ({k}))'


def lean_str(s):
    return '"' + s.replace('\\', '\\\\').replace('"', '\\"') + '"'


def lean_list(xs):
    return '[' + ', '.join(xs) + ']'


# ----------------------------------------------------------------------------- index arithmetic, guards on lists / sets
PY_PRELUDE = (
    '/-! Python list / set primitives used by the generated index-arithmetic and guard terms (core Lean only).\n'
    '    Integer `//` and `%` are rendered as `Int.fdiv` / `Int.fmod` (floor rounding = Python). -/\n'
    'namespace Py\n'
    '/-- `set(a) == set(b)` -/\n'
    'def setEqB (a b : List Nat) : Bool := a.all (fun v => b.contains v) && b.all (fun v => a.contains v)\n'
    '/-- the distinct elements (`set(l)` as a list; order irrelevant to every use) -/\n'
    'def dedup : List Nat → List Nat\n  | [] => []\n  | x :: xs => if xs.contains x then dedup xs else x :: dedup xs\n'
    '/-- `l[:k]` / `l[k:]` with Python\'s reading of a negative bound -/\n'
    'def take {β : Type} (l : List β) (k : Int) : List β := if k < 0 then l.take (l.length - k.natAbs) else l.take k.toNat\n'
    'def drop {β : Type} (l : List β) (k : Int) : List β := if k < 0 then l.drop (l.length - k.natAbs) else l.drop k.toNat\n'
    '/-- boolean-mask selection `x[mask]` on one row -/\n'
    'def select {β : Type} (x : List β) (m : List Bool) : List β := ((x.zip m).filter (fun p => p.2)).map (fun p => p.1)\n'
    '/-- `np.arange(start, stop, step)` on integers -/\n'
    'def arange (start stop step : Int) : List Int :=\n'
    '  if step > 0 then (List.range (Int.fdiv (stop - start + step - 1) step).toNat).map (fun (i : Nat) => start + step * (i : Int))\n'
    '  else if step < 0 then (List.range (Int.fdiv (start - stop - step - 1) (-step)).toNat).map (fun (i : Nat) => start + step * (i : Int))\n'
    '  else []\n'
    '/-- row-major multi-index of the flat index `d` in `shape` (the leading extent is not used) / its inverse -/\n'
    'def decode : List Nat → Nat → List Nat\n  | [], _ => []\n'
    '  | _ :: ss, d => (d / ss.foldl (· * ·) 1) :: decode ss (d % ss.foldl (· * ·) 1)\n'
    'def encode : List Nat → List Nat → Nat\n  | _ :: ss, i :: is => i * ss.foldl (· * ·) 1 + encode ss is\n  | _, _ => 0\n'
    '/-- `x.reshape(shape).permute(perm)` read as a gather on flat (row-major) indices: the flat index in `shape` of the\n'
    '    element found at flat index `d` of the permuted tensor (axis `k` of the result is axis `perm[k]` of the source) -/\n'
    'def permuteSrc (shape perm : List Nat) (d : Nat) : Nat :=\n'
    '  let idx := decode (perm.map (fun k => shape.getD k 1)) d\n'
    '  encode shape ((List.range shape.length).map (fun ax => idx.getD (perm.idxOf ax) 0))\n'
    'end Py\n'
    '/-- one store `array[index] op rhs` found in a function: class tested by the enclosing `isinstance` branch, the\n'
    '    enclosing loop, the context managers held, the `array[index]` reads of the right-hand side, what the\n'
    '    right-hand side is `&`-ed with -/\n'
    'structure StoreSite where\n  cls : String\n  array : String\n  index : String\n  op : String\n  loop : String\n'
    '  locks : List String\n  reads : List (String × String)\n  sel : String\nderiving DecidableEq, Repr')


NP_COMPARE = {'less': ast.Lt, 'less_equal': ast.LtE, 'greater': ast.Gt, 'greater_equal': ast.GtE, 'equal': ast.Eq,
              'not_equal': ast.NotEq, 'lt': ast.Lt, 'le': ast.LtE, 'gt': ast.Gt, 'ge': ast.GtE, 'eq': ast.Eq, 'ne': ast.NotEq}


def arange_args(e, tr):
    """`np.arange(stop)` / `np.arange(start, stop[, step])` -> the three bounds as Lean Int terms"""
    if not (isinstance(e, ast.Call) and (dotted_name(e.func) or '').split('.')[-1] == 'arange' and not e.keywords and 1 <= len(e.args) <= 3):
        raise Untranslatable('not an arange: ' + ast.unparse(e))
    a = [tr.as_int(tr.tr(x)) for x in e.args]
    if len(a) == 1:
        return '(0 : Int)', a[0], '(1 : Int)'
    return a[0], a[1], (a[2] if len(a) == 3 else '(1 : Int)')


class TrZ:
    """typed translator of index arithmetic and guards into core-Lean terms.
    Types: 'int' (Lean Int), 'item' (Lean Nat: ids, variables, positions), 'bool', 'obj' (an opaque object whose
    attributes are functions), ('list', t), ('set', t) (represented by a list).  `env` maps Python names to
    (lean term, type); `syms` maps exact source texts to (lean term, type); `attrs` maps attribute names to
    (lean function, result type)."""

    def __init__(self, env=None, syms=None, attrs=None, funcs=None, transparent=()):
        self.env = dict(env or {})
        self.syms = {k.replace(' ', ''): v for k, v in (syms or {}).items()}
        self.attrs = dict(attrs or {})
        # opaque functions: Python dotted name -> (lean function, result type or None = type of the first argument)
        self.funcs = dict(funcs or {})
        # method names that do not change a row read as a list (`.view(...)`, `.tolist()`, `.copy()` ...)
        self.transparent = set(transparent)

    def syms_src(self):
        return dict(self.syms)

    def child(self, **bind):
        sub = TrZ(self.env, None, self.attrs, self.funcs, self.transparent)
        sub.syms = self.syms
        sub.env.update(bind)
        return sub

    # -- helpers
    def as_int(self, tt):
        t, ty = tt
        if ty == 'int':
            return t
        if ty == 'item':
            return f'(({t} : Nat) : Int)'
        raise Untranslatable(f'integer expected, got {ty}: {t}')

    def as_bool(self, tt):
        if isinstance(tt[1], tuple) and tt[1][0] in ('list', 'set'):   # truthiness of a container
            return f'(!{tt[0]}.isEmpty)'
        if tt[1] != 'bool':
            raise Untranslatable(f'boolean expected, got {tt[1]}: {tt[0]}')
        return tt[0]

    def seq(self, tt):
        if not (isinstance(tt[1], tuple) and tt[1][0] in ('list', 'set')):
            raise Untranslatable(f'list expected, got {tt[1]}: {tt[0]}')
        return tt[0], tt[1][1]

    def lam(self, args, body, elty):
        """translate `body` with the single lambda / comprehension variable bound to an element of type `elty`"""
        if len(args) != 1:
            raise Untranslatable('lambda with several arguments')
        sub = self.child(**{args[0]: (lid(args[0]), elty)})
        t, ty = sub.tr(body)
        return f'(fun {lid(args[0])} => {t})', ty

    def mapped(self, e):
        """`map(lambda v: body, xs)`, `[body for v in xs]`, `(body for v in xs)` -> (lean list term, element type)"""
        if isinstance(e, ast.Call) and dotted_name(e.func) == 'map' and len(e.args) == 2 and isinstance(e.args[0], ast.Lambda):
            xs, elty = self.seq(self.tr(e.args[1]))
            f, ty = self.lam([a.arg for a in e.args[0].args.args], e.args[0].body, elty)
            return f'({xs}.map {f})', ty
        if isinstance(e, (ast.ListComp, ast.GeneratorExp)) and all(not g.ifs and isinstance(g.target, ast.Name) for g in e.generators):
            g = e.generators[0]
            xs, elty = self.seq(self.tr(g.iter))
            if len(e.generators) == 1:
                f, ty = self.lam([g.target.id], e.elt, elty)
                return f'({xs}.map {f})', ty
            # [elt for a in A for b in B …] = A.flatMap (fun a => [elt for b in B …])
            inner = type(e)(elt=e.elt, generators=e.generators[1:])
            sub = self.child(**{g.target.id: (lid(g.target.id), elty)})
            t, ty = sub.mapped(inner)
            return f'({xs}.flatMap (fun {lid(g.target.id)} => {t}))', ty
        return None

    # -- expressions
    def tr(self, e):
        key = ast.unparse(e).replace(' ', '')
        if key in self.syms:
            return self.syms[key]
        if isinstance(e, ast.Constant):
            if isinstance(e.value, bool):
                return ('true' if e.value else 'false'), 'bool'
            if isinstance(e.value, int):
                return f'({e.value} : Int)', 'int'
            if isinstance(e.value, str):
                return lean_str(e.value), 'str'
            raise Untranslatable('constant ' + repr(e.value))
        if isinstance(e, ast.Name):
            if e.id in self.env:
                return self.env[e.id]
            raise Untranslatable(f'free name {e.id}')
        if isinstance(e, ast.Attribute):
            if e.attr in self.attrs:
                o, ty = self.tr(e.value)
                if ty != 'obj':
                    raise Untranslatable(f'attribute {e.attr} of a non-object')
                f, rty = self.attrs[e.attr]
                return f'({f} {o})', rty
            raise Untranslatable('attribute ' + ast.unparse(e))
        if isinstance(e, ast.UnaryOp):
            a = self.tr(e.operand)
            if isinstance(e.op, ast.USub):
                return f'(-{self.as_int(a)})', 'int'
            if isinstance(e.op, ast.Not):
                return f'(!{self.as_bool(a)})', 'bool'
            if isinstance(e.op, ast.Invert):
                if a[1] == 'bool':
                    return f'(!{a[0]})', 'bool'
                if a[1] == ('list', 'bool'):   # element-wise negation of a boolean mask
                    return f'({a[0]}.map (fun b => !b))', ('list', 'bool')
            raise Untranslatable('unary ' + ast.unparse(e))
        if isinstance(e, ast.BinOp):
            a, b = self.tr(e.left), self.tr(e.right)
            if isinstance(a[1], tuple) and a[1][0] == 'list' and a[1] == b[1] and isinstance(e.op, ast.Add):
                return f'({a[0]} ++ {b[0]})', a[1]
            if a[1] == 'bool' and b[1] == 'bool' and isinstance(e.op, (ast.BitAnd, ast.BitOr)):
                return f'({a[0]} {"&&" if isinstance(e.op, ast.BitAnd) else "||"} {b[0]})', 'bool'
            x, y = self.as_int(a), self.as_int(b)
            if isinstance(e.op, (ast.Add, ast.Sub, ast.Mult)):
                return f'({x} {BINOPS[type(e.op)]} {y})', 'int'
            if isinstance(e.op, ast.FloorDiv):
                return f'(Int.fdiv {x} {y})', 'int'
            if isinstance(e.op, ast.Mod):
                return f'(Int.fmod {x} {y})', 'int'
            if isinstance(e.op, ast.Pow):
                return f'({x} ^ ({y}).toNat)', 'int'
            raise Untranslatable('operator ' + type(e.op).__name__)
        if isinstance(e, ast.Compare):
            parts, left = [], self.tr(e.left)
            for op, rt in zip(e.ops, e.comparators):
                right = self.tr(rt)
                parts.append(self.cmp(op, left, right))
                left = right
            return (parts[0] if len(parts) == 1 else '(' + ' && '.join(parts) + ')'), 'bool'
        if isinstance(e, ast.BoolOp):
            j = ' || ' if isinstance(e.op, ast.Or) else ' && '
            return '(' + j.join(self.as_bool(self.tr(v)) for v in e.values) + ')', 'bool'
        if isinstance(e, ast.IfExp):
            c, a, b = self.as_bool(self.tr(e.test)), self.tr(e.body), self.tr(e.orelse)
            if a[1] != b[1]:
                raise Untranslatable('branches of different types: ' + ast.unparse(e))
            return f'(if {c} then {a[0]} else {b[0]})', a[1]
        if isinstance(e, (ast.Tuple, ast.List)):
            xs = [self.tr(x) for x in e.elts]
            tys = {ty for _, ty in xs}
            if len(tys) > 1:
                raise Untranslatable('heterogeneous literal ' + ast.unparse(e))
            ty = tys.pop() if tys else 'int'
            return lean_list([t for t, _ in xs]), ('list', ty)
        if isinstance(e, ast.Subscript):
            base = self.tr(e.value)
            xs, elty = self.seq(base)
            if isinstance(e.slice, ast.Slice) and e.slice.step is None:
                lo, hi = e.slice.lower, e.slice.upper
                if lo is None and hi is not None:
                    return f'(Py.take {xs} {self.as_int(self.tr(hi))})', base[1]
                if hi is None and lo is not None:
                    return f'(Py.drop {xs} {self.as_int(self.tr(lo))})', base[1]
                raise Untranslatable('slice ' + ast.unparse(e))
            if isinstance(e.slice, ast.Constant) and isinstance(e.slice.value, int) and e.slice.value >= 0 and elty in ('item', 'int'):
                return f'({xs}.getD {e.slice.value} 0)', elty
            ix = self.tr(e.slice)
            if ix[1] == ('list', 'bool'):
                return f'(Py.select {xs} {ix[0]})', base[1]
            raise Untranslatable('subscript ' + ast.unparse(e))
        m = self.mapped(e)
        if m is not None:
            return m[0], ('list', m[1])
        if isinstance(e, ast.Call):
            nm = dotted_name(e.func) or ''
            base = nm.split('.')[-1]
            if nm == 'len' and len(e.args) == 1:
                xs, ty = self.tr(e.args[0])
                if isinstance(ty, tuple) and ty[0] == 'list':
                    return f'(({xs}.length : Nat) : Int)', 'int'
                if ty == ('set', 'item'):
                    return f'(((Py.dedup {xs}).length : Nat) : Int)', 'int'
                raise Untranslatable('len of ' + str(ty))
            if nm == 'int' and len(e.args) == 1 and not e.keywords:
                return self.as_int(self.tr(e.args[0])), 'int'
            if base == 'ceil' and len(e.args) == 1 and isinstance(e.args[0], ast.BinOp) and isinstance(e.args[0].op, ast.Div):
                # ceil of an exact quotient of integers: -((-a) // b)
                a, b = self.as_int(self.tr(e.args[0].left)), self.as_int(self.tr(e.args[0].right))
                return f'(-(Int.fdiv (-{a}) {b}))', 'int'
            if nm == 'range' and len(e.args) == 1 and not e.keywords:
                return f'(Py.arange 0 {self.as_int(self.tr(e.args[0]))} 1)', ('list', 'int')
            if nm == 'set' and len(e.args) == 1:
                xs, elty = self.seq(self.tr(e.args[0]))
                return xs, ('set', elty)
            if nm in ('list', 'tuple') and len(e.args) == 1:
                xs, elty = self.seq(self.tr(e.args[0]))
                return xs, ('list', elty)
            if nm in ('any', 'all') and len(e.args) == 1:
                xs, elty = self.seq(self.tr(e.args[0]))
                if elty != 'bool':
                    raise Untranslatable(nm + ' over non-booleans')
                return f'({xs}.{nm} (fun b => b))', 'bool'
            if nm == 'sum' and len(e.args) == 2 and isinstance(e.args[1], ast.List) and not e.args[1].elts:
                xs, elty = self.seq(self.tr(e.args[0]))   # sum(list of lists, []) = concatenation
                if not (isinstance(elty, tuple) and elty[0] == 'list'):
                    raise Untranslatable('sum(…, []) over non-lists')
                return f'({xs}.flatten)', elty
            if nm in self.funcs and not e.keywords:
                args = [self.tr(a) for a in e.args]
                f, rty = self.funcs[nm]
                return '(' + ' '.join([f] + [t for t, _ in args]) + ')', (rty if rty is not None else args[0][1])
            if isinstance(e.func, ast.Attribute) and e.func.attr == 'issubset' and len(e.args) == 1:
                a, b = self.tr(e.func.value), self.tr(e.args[0])
                if a[1] == ('set', 'item') and b[1] == ('set', 'item'):
                    return f'({a[0]}.all (fun v => {b[0]}.contains v))', 'bool'
                raise Untranslatable('issubset on ' + str(a[1]))
            if isinstance(e.func, ast.Attribute) and e.func.attr in self.transparent:
                return self.tr(e.func.value)
            if base in NP_COMPARE and len(e.args) == 2 and not e.keywords:   # np.less_equal(a, b) etc., element-wise
                return self.cmp(NP_COMPARE[base](), self.tr(e.args[0]), self.tr(e.args[1])), 'bool'
            if nm in ('max', 'min') and len(e.args) == 2 and not e.keywords:
                return f'({nm} {self.as_int(self.tr(e.args[0]))} {self.as_int(self.tr(e.args[1]))})', 'int'
            raise Untranslatable('call ' + ast.unparse(e))
        raise Untranslatable('expression ' + ast.unparse(e))

    def cmp(self, op, a, b):
        if isinstance(a[1], tuple) or isinstance(b[1], tuple):
            if a[1] == ('set', 'item') and b[1] == ('set', 'item') and isinstance(op, (ast.Eq, ast.NotEq)):
                t = f'(Py.setEqB {a[0]} {b[0]})'
                return t if isinstance(op, ast.Eq) else f'(!{t})'
            raise Untranslatable('comparison of ' + str(a[1]) + ' and ' + str(b[1]))
        if a[1] == b[1] and a[1] in ('bool', 'str') and isinstance(op, (ast.Eq, ast.NotEq)):
            return f'({a[0]} {"==" if isinstance(op, ast.Eq) else "!="} {b[0]})'
        x, y = self.as_int(a), self.as_int(b)
        if isinstance(op, (ast.Eq, ast.NotEq)):
            return f'({x} {"==" if isinstance(op, ast.Eq) else "!="} {y})'
        s = {ast.Lt: '<', ast.LtE: '≤', ast.Gt: '>', ast.GtE: '≥'}.get(type(op))
        if s is None:
            raise Untranslatable('comparison ' + type(op).__name__)
        return f'(decide ({x} {s} {y}))'

    # -- statements
    def chain(self, stmts, counter=None):
        """a block of assignments and `if <test>: return <value>` guards ending in `return None` (or falling through)
        as a Lean term of type `Option Nat`: `some k` = the k-th guard (source order, from 0) fired, `none` = passed."""
        counter = counter if counter is not None else [0]
        if not stmts:
            return 'none'
        s, rest = stmts[0], stmts[1:]
        if isinstance(s, ast.Expr) and isinstance(s.value, ast.Constant):
            return self.chain(rest, counter)
        if isinstance(s, ast.Return):
            if s.value is None or (isinstance(s.value, ast.Constant) and s.value.value is None):
                return 'none'
            k = counter[0]; counter[0] += 1
            return f'some {k}'
        if isinstance(s, ast.Assign) and len(s.targets) == 1 and isinstance(s.targets[0], ast.Name):
            t, ty = self.tr(s.value)
            nm = s.targets[0].id
            sub = self.child(**{nm: (lid(nm), ty)})
            return f'let {lid(nm)} := {t};\n  {sub.chain(rest, counter)}'
        if isinstance(s, ast.If) and not s.orelse and len(s.body) == 1 and isinstance(s.body[0], (ast.Return, ast.Raise)):
            r = s.body[0]
            if isinstance(r, ast.Return) and (r.value is None or (isinstance(r.value, ast.Constant) and r.value.value is None)):
                raise Untranslatable('guard returning None')
            c = self.as_bool(self.tr(s.test))
            k = counter[0]; counter[0] += 1
            return f'if {c} then some {k}\n  else {self.chain(rest, counter)}'
        raise Untranslatable('statement ' + ast.unparse(s).splitlines()[0])


def branch_value(tr, ifstmt, var):
    """value of `var` after `if t: <assignments> else: <assignments>` as a Lean conditional (both branches must assign it;
    an `elif` chain nests)"""
    c = tr.as_bool(tr.tr(ifstmt.test))
    def side(stmts):
        if len(stmts) == 1 and isinstance(stmts[0], ast.If):
            return branch_value(tr, stmts[0], var)
        if not any(isinstance(st, ast.Assign) and target_key(st.targets[0]) == var for st in stmts):
            raise Untranslatable(f'{var} is not assigned in a branch')
        return let_block(tr, stmts, ast.Name(id=var, ctx=ast.Load()))
    (a, ta), (b, tb) = side(ifstmt.body), side(ifstmt.orelse)
    if ta != tb:
        raise Untranslatable(f'{var}: branches of different types')
    return f'(if {c} then ({a}) else ({b}))', ta


def cases_value(tr, ifstmt, target):
    """`if t1: <target> = v1 elif t2: <target> = v2 … else: raise` as `if t1 then some v1 else if t2 then some v2 … else none`"""
    c = tr.as_bool(tr.tr(ifstmt.test))
    st = the(ifstmt.body, 'single statement of a case')
    if not (isinstance(st, ast.Assign) and target_key(st.targets[0]) == target.replace(' ', '')):
        raise Untranslatable(f'a case does not just assign {target}')
    v, ty = tr.tr(st.value)
    rest = ifstmt.orelse
    if len(rest) == 1 and isinstance(rest[0], ast.If):
        r, rty = cases_value(tr, rest[0], target)
        if rty != ty:
            raise Untranslatable('cases of different types')
    elif len(rest) == 1 and isinstance(rest[0], ast.Raise):
        r = 'none'
    else:
        raise Untranslatable('the chain of cases does not end with a raise')
    return f'if {c} then some {v}\n  else {r}', ty


def let_block(tr, stmts, result):
    """`stmts` (assignments to plain names; other statements are skipped when `skip` says so) as nested Lean `let`s
    around the translation of the expression `result` (an AST node, or a function of the final translator)"""
    if not stmts:
        t = result(tr) if callable(result) else tr.tr(result)
        return t
    s, rest = stmts[0], stmts[1:]
    if isinstance(s, ast.Assign) and len(s.targets) == 1 and isinstance(s.targets[0], ast.Name):
        t, ty = tr.tr(s.value)
        nm = s.targets[0].id
        body, bty = let_block(tr.child(**{nm: (lid(nm), ty)}), rest, result)
        return f'let {lid(nm)} := {t};\n  {body}', bty
    raise Untranslatable('statement ' + ast.unparse(s).splitlines()[0])


def loop_over(fn, var, iter_text=None):
    """the `for <var> in …:` loop of `fn`"""
    fs = [s for s in walk_stmts(fn) if isinstance(s, ast.For) and isinstance(s.target, ast.Name) and s.target.id == var
          and (iter_text is None or ast.unparse(s.iter).replace(' ', '') == iter_text.replace(' ', ''))]
    return the(fs, f'for {var} in … loop')


# ----------------------------------------------------------------------------- third wave: row-wise reading of array code
PY3_PRELUDE = (
    '/-! Row-wise readings of the NumPy / SciPy primitives met by the third wave of fragments (`S3…` definitions):\n'
    '    a 2-D array with one row per sample is read one row at a time (`axis=1` reductions act inside the row); a data\n'
    '    entry is `Option Nat` (`none` = NaN). Core Lean only, any carrier. -/\n'
    'namespace Py3\n'
    'variable {α : Type}\n'
    '/-- `np.dot(x, w)` for one row `x` (length of the shorter operand; NumPy raises on a mismatch) -/\n'
    'def dot [Zero α] [Add α] [Mul α] : List α → List α → α\n  | x :: xs, w :: ws => x * w + dot xs ws\n  | _, _ => 0\n'
    '/-- `np.sum(x, axis=1)` / `np.prod(x, axis=1)` for one row -/\n'
    'def sum [Zero α] [Add α] : List α → α\n  | [] => 0\n  | x :: xs => x + sum xs\n'
    'def prod [One α] [Mul α] : List α → α\n  | [] => 1\n  | x :: xs => x * prod xs\n'
    '/-- `np.isnan` of a data entry, and the observed value read under the mask `~np.isnan(x)` -/\n'
    'def isnan (x : Option Nat) : Bool := x.isNone\n'
    'def val (x : Option Nat) : Nat := x.getD 0\n'
    '/-- `scipy.stats.bernoulli.pmf(k, p)` (SciPy semantics, trusted) -/\n'
    'def bernoulliPmf [Zero α] [One α] [Sub α] (k : Nat) (p : α) : α := if k = 0 then 1 - p else if k = 1 then p else 0\n'
    '/-- `scipy.stats.rv_discrete(values=(xk, pk)).pmf(k)` (SciPy semantics, trusted): the mass listed for `k` -/\n'
    'def rvDiscretePmf [Zero α] [Add α] (xk : List Nat) (pk : List α) (k : Nat) : α :=\n'
    '  sum (((xk.zip pk).filter (fun c => c.1 == k)).map (fun c => c.2))\n'
    '/-- `np.unique(l)`: the distinct labels in increasing order (NumPy semantics, trusted) -/\n'
    'def uinsert (x : Int) : List Int → List Int\n  | [] => [x]\n'
    '  | y :: ys => if x < y then x :: y :: ys else if x = y then y :: ys else y :: uinsert x ys\n'
    'def unique (l : List Int) : List Int := l.foldr uinsert []\n'
    '/-- `a[mask]` / `a[mask, :]`: the rows of `a` whose mask entry is true, in order -/\n'
    'def rowsWhere {β : Type} (a : List β) (m : List Bool) : List β := ((a.zip m).filter (fun p => p.2)).map (fun p => p.1)\n'
    '/-- `np.delete(a, obj=k)` -/\n'
    'def delete {β : Type} (a : List β) (k : Nat) : List β := a.eraseIdx k\n'
    'end Py3')


class TrA:
    """row-wise reader of NumPy code: translates expressions over arrays whose axis 0 ranges over the samples into the
    Lean term of ONE row.  A value is (term, elem, shape): elem in {'num', 'bool', 'opt' (data entry, none = NaN), 'nat'
    (observed data value)}; shape in {'P0' scalar parameter, 'P1' 1-D parameter array, 'R' 1-D array over the samples,
    'RC' (n, 1) array, 'RV' (n, k) array}.  P0 / R / RC values are scalar Lean terms, P1 / RV values are lists.
    Anything that is not understood raises Untranslatable (no default reading)."""

    SCALAR = ('P0', 'R', 'RC')

    def __init__(self, env=None, syms=None, carrier='F', funcs=None):
        self.env = dict(env or {})
        self.syms = {k.replace(' ', ''): v for k, v in (syms or {}).items()}
        self.carrier = carrier
        self.funcs = dict(funcs or {})     # dotted name -> handler(self, call) -> value
        self.guards = []                   # Lean texts of the masks under which entries were read in the current expression
        self.rowvar = None                 # Lean name of the entry index when a 1-D array is read entry by entry

    def child(self, **bind):
        t = TrA(self.env, None, self.carrier, self.funcs)
        t.syms = self.syms
        t.rowvar = self.rowvar
        t.env.update(bind)
        return t

    # -- helpers
    def lit(self, q):
        return q_lean(q, self.carrier)

    def join(self, sa, sb, what):
        """shape of an element-wise operation (NumPy broadcasting restricted to the combinations that keep the row reading)"""
        if sa == sb:
            return sa
        if sa == 'P0':
            return sb
        if sb == 'P0':
            return sa
        if {sa, sb} == {'RV', 'P1'} or {sa, sb} == {'RV', 'RC'}:
            return 'RV'
        raise Untranslatable(f'broadcast of shapes {sa} and {sb} in {what}')

    def ew2(self, f, a, b, what, elem='num'):
        """element-wise binary operation; `f(x, y)` renders the scalar operation"""
        (ta, ea, sa), (tb, eb, sb) = a, b
        s = self.join(sa, sb, what)
        la, lb = sa in ('P1', 'RV'), sb in ('P1', 'RV')
        if not la and not lb:
            return f(ta, tb), elem, s
        if la and lb:
            return f'(List.zipWith (fun a b => {f("a", "b")}) {ta} {tb})', elem, s
        if la:
            return f'({ta}.map (fun a => {f("a", tb)}))', elem, s
        return f'({tb}.map (fun b => {f(ta, "b")}))', elem, s

    def ew1(self, f, a, elem=None):
        t, e, s = a
        if s in ('P1', 'RV'):
            return f'({t}.map (fun a => {f("a")}))', elem or e, s
        return f(t), elem or e, s

    def num(self, v, what):
        if v[1] != 'num':
            raise Untranslatable(f'number expected in {what}, got {v[1]}')
        return v

    def kw(self, call, allowed):
        ks = {k.arg: k.value for k in call.keywords}
        if set(ks) - set(allowed):
            raise Untranslatable('unexpected keywords in ' + ast.unparse(call))
        return ks

    def axis_of(self, call, ks, pos=1):
        a = ks.get('axis', ks.get('dim'))
        if a is None and len(call.args) > pos:
            a = call.args[pos]
        return None if a is None else int(const_value(a))

    def truth(self, e, default=False):
        if e is None:
            return default
        if isinstance(e, ast.Constant) and isinstance(e.value, bool):
            return e.value
        raise Untranslatable('flag is not a literal: ' + ast.unparse(e))

    def shape_arg(self, e):
        """`np.ones(shape)`-style argument -> 'R' for `len(x)` / `[len(x)]` / `n_samples`, 'RC' for `[len(x), 1]`"""
        def is_n(d):
            v = self.tr(d) if not (isinstance(d, ast.Call) and dotted_name(d.func) == 'len') else None
            if v is not None:
                return v[1] == 'nrows'
            a = self.tr(d.args[0])
            return a[2] in ('R', 'RC', 'RV')
        dims = list(e.elts) if isinstance(e, (ast.List, ast.Tuple)) else [e]
        if len(dims) == 1 and is_n(dims[0]):
            return 'R'
        if len(dims) == 2 and is_n(dims[0]) and const_value(dims[1]) == 1:
            return 'RC'
        raise Untranslatable('shape ' + ast.unparse(e))

    # -- expressions
    def tr(self, e):
        key = ast.unparse(e).replace(' ', '')
        if key in self.syms:
            return self.syms[key]
        try:
            return self.lit(const_value(e)), 'num', 'P0'
        except Untranslatable:
            pass
        if isinstance(e, ast.Name):
            if e.id in self.env:
                return self.env[e.id]
            raise Untranslatable(f'free name {e.id}')
        if isinstance(e, ast.Attribute):
            if key in self.env:
                return self.env[key]
            if e.attr == 'T':
                v = self.tr(e.value)
                if v[2] == 'CV':        # (k, samples) array: its transpose has one row per sample
                    return v[0], v[1], 'RV'
                raise Untranslatable('transpose of a value that is not a (k × samples) array: ' + ast.unparse(e))
            raise Untranslatable('attribute ' + ast.unparse(e))
        if isinstance(e, ast.UnaryOp):
            a = self.tr(e.operand)
            if isinstance(e.op, ast.USub):
                return self.ew1(lambda x: f'(-{x})', self.num(a, 'negation'))
            if isinstance(e.op, (ast.Invert, ast.Not)) and a[1] == 'bool':
                return self.ew1(lambda x: f'(!{x})', a)
            raise Untranslatable('unary ' + ast.unparse(e))
        if isinstance(e, ast.BinOp):
            a, b = self.tr(e.left), self.tr(e.right)
            if isinstance(e.op, ast.Pow):
                p = const_value(e.right)
                if p.denominator == 1 and p >= 0:
                    return self.ew1(lambda x: f'({x} ^ {p.numerator})', self.num(a, 'power'))
                raise Untranslatable('power ' + ast.unparse(e))
            if a[1] == 'bool' and b[1] == 'bool' and isinstance(e.op, (ast.BitAnd, ast.BitOr)):
                o = '&&' if isinstance(e.op, ast.BitAnd) else '||'
                return self.ew2(lambda x, y: f'({x} {o} {y})', a, b, ast.unparse(e), 'bool')
            op = {ast.Add: '+', ast.Sub: '-', ast.Mult: '*', ast.Div: '/'}.get(type(e.op))
            if op is None:
                raise Untranslatable('operator ' + type(e.op).__name__)
            return self.ew2(lambda x, y: f'({x} {op} {y})', self.num(a, ast.unparse(e)), self.num(b, ast.unparse(e)), ast.unparse(e))
        if isinstance(e, ast.Compare) and len(e.ops) == 1:
            a, b = self.tr(e.left), self.tr(e.comparators[0])
            op = {ast.Lt: '<', ast.LtE: '≤', ast.Gt: '>', ast.GtE: '≥', ast.Eq: '=', ast.NotEq: '≠'}.get(type(e.ops[0]))
            if op is None or a[1] != b[1] or a[1] not in ('num', 'nat'):
                raise Untranslatable('comparison ' + ast.unparse(e))
            return self.ew2(lambda x, y: f'(decide ({x} {op} {y}))', a, b, ast.unparse(e), 'bool')
        if isinstance(e, ast.Subscript):
            base = self.tr(e.value)
            ix = self.tr(e.slice)
            if ix[1] == 'bool' and ix[2] == base[2] and base[2] in ('R', 'RC'):
                # masked read `a[mask]`: on one row it is the entry itself, valid where the mask holds
                self.guards.append(ix[0])
                if base[1] == 'opt':
                    return f'(Gen.Py3.val {base[0]})', 'nat', base[2]
                return base
            raise Untranslatable('subscript ' + ast.unparse(e))
        if isinstance(e, ast.Call):
            return self.call(e)
        raise Untranslatable('expression ' + ast.unparse(e))

    def call(self, e):
        nm = dotted_name(e.func) or ''
        base = nm.split('.')[-1]
        if nm in self.funcs:
            return self.funcs[nm](self, e)
        if isinstance(e.func, ast.Attribute) and ast.unparse(e.func).replace(' ', '') in self.funcs:
            return self.funcs[ast.unparse(e.func).replace(' ', '')](self, e)
        lib = nm.split('.')[0] in ('np', 'numpy', 'torch')
        if isinstance(e.func, ast.Attribute) and e.func.attr == 'astype' and not lib:
            v = self.tr(e.func.value)
            ks = self.kw(e, ('copy', 'dtype'))
            ty = (dotted_name(e.args[0]) if e.args else dotted_name(ks.get('dtype'))) or ''
            if v[1] == 'nat' and ty.split('.')[-1] in ('int64', 'int32', 'int'):
                return v
            if v[1] == 'num' and ty.split('.')[-1] in ('float32', 'float64', 'float'):
                return v
            raise Untranslatable('astype ' + ast.unparse(e))
        if isinstance(e.func, ast.Attribute) and e.func.attr == 'squeeze' and not lib:
            args = [e.func.value] + list(e.args)
            return self.squeeze(e, args, self.kw(e, ('axis',)))
        if lib and base == 'squeeze':
            return self.squeeze(e, list(e.args), self.kw(e, ('axis',)))
        if lib and base == 'expand_dims':
            ks = self.kw(e, ('axis',))
            v = self.tr(e.args[0])
            if self.axis_of(e, ks) == 1 and v[2] == 'R':
                return v[0], v[1], 'RC'
            raise Untranslatable('expand_dims ' + ast.unparse(e))
        if lib and base in ('sum', 'prod'):
            ks = self.kw(e, ('axis', 'keepdims'))
            v = self.num(self.tr(e.args[0]), base)
            if self.axis_of(e, ks) != 1 or v[2] != 'RV':
                raise Untranslatable(f'{base}: not a reduction of a (samples × k) array along axis 1: ' + ast.unparse(e))
            return f'(Gen.Py3.{base} {v[0]})', 'num', ('RC' if self.truth(ks.get('keepdims')) else 'R')
        if lib and base == 'dot' and len(e.args) == 2 and not e.keywords:
            a, b = self.num(self.tr(e.args[0]), 'dot'), self.num(self.tr(e.args[1]), 'dot')
            if (a[2], b[2]) != ('RV', 'P1'):
                raise Untranslatable('dot: operands are not (samples × k array, length-k parameter): ' + ast.unparse(e))
            return f'(Gen.Py3.dot {a[0]} {b[0]})', 'num', 'R'
        if base == 'logsumexp':
            ks = self.kw(e, ('axis', 'keepdims', 'b'))
            v = self.num(self.tr(e.args[0]), base)
            if self.axis_of(e, ks) != 1 or v[2] != 'RV':
                raise Untranslatable('logsumexp: not along axis 1 of a (samples × k) array: ' + ast.unparse(e))
            ex = f'({v[0]}.map (fun a => E.exp a))'
            if 'b' in ks:
                b = self.num(self.tr(ks['b']), 'logsumexp b')
                if b[2] != 'P1':
                    raise Untranslatable('logsumexp: b is not a length-k parameter')
                body = f'(E.log (Gen.Py3.dot {ex} {b[0]}))'
            else:
                body = f'(E.log (Gen.Py3.sum {ex}))'
            return body, 'num', ('RC' if self.truth(ks.get('keepdims')) else 'R')
        if base in ('log_softmax', 'softmax'):
            ks = self.kw(e, ('axis',))
            v = self.num(self.tr(e.args[0]), base)
            if self.axis_of(e, ks) != 1 or v[2] != 'RV':
                raise Untranslatable(f'{base}: not along axis 1 of a (samples × k) array: ' + ast.unparse(e))
            z = f'(Gen.Py3.sum ({v[0]}.map (fun b => E.exp b)))'
            if base == 'log_softmax':
                return f'({v[0]}.map (fun a => a - E.log {z}))', 'num', 'RV'
            return f'({v[0]}.map (fun a => E.exp a / {z}))', 'num', 'RV'
        if lib and base in ('maximum', 'minimum') and len(e.args) == 2 and not e.keywords:
            f = 'max' if base == 'maximum' else 'min'
            return self.ew2(lambda x, y: f'({f} {x} {y})', self.num(self.tr(e.args[0]), base), self.num(self.tr(e.args[1]), base), ast.unparse(e))
        if lib and base in ('exp', 'log') and len(e.args) == 1 and not e.keywords:
            return self.ew1(lambda x: f'(E.{base} {x})', self.num(self.tr(e.args[0]), base))
        if lib and base in ('ones', 'zeros'):
            self.kw(e, ('dtype', 'shape'))
            sh = e.args[0] if e.args else {k.arg: k.value for k in e.keywords}.get('shape')
            if sh is None:
                raise Untranslatable(base + ' without a shape')
            return f'({1 if base == "ones" else 0} : {self.carrier})', 'num', self.shape_arg(sh)
        if lib and base == 'isnan' and len(e.args) == 1 and not e.keywords:
            v = self.tr(e.args[0])
            if v[1] != 'opt':
                raise Untranslatable('isnan of a non-data value')
            return self.ew1(lambda x: f'(Gen.Py3.isnan {x})', v, 'bool')
        raise Untranslatable('call ' + ast.unparse(e))

    def squeeze(self, e, args, ks):
        v = self.tr(args[0])
        ax = None
        if 'axis' in ks:
            ax = int(const_value(ks['axis']))
        elif len(args) > 1:
            ax = int(const_value(args[1]))
        if v[2] == 'RC' and ax in (1, -1):
            return v[0], v[1], 'R'
        if v[2] == 'RC' and ax is None:      # squeeze() of an (n, 1) array (n > 1) — what the code relies on
            return v[0], v[1], 'R'
        raise Untranslatable('squeeze ' + ast.unparse(e))

    # -- statements
    def block(self, stmts, tail):
        """straight-line statements (assignments to names, masked stores `a[mask] = e`) as nested `let`s around
        `tail(self_at_the_end)`; every other statement is refused"""
        if not stmts:
            return tail(self)
        s, rest = stmts[0], stmts[1:]
        if isinstance(s, ast.Expr) and isinstance(s.value, ast.Constant):
            return self.block(rest, tail)
        if isinstance(s, (ast.Assign, ast.AugAssign)) and (isinstance(s, ast.AugAssign) or len(s.targets) == 1):
            tgt = s.target if isinstance(s, ast.AugAssign) else s.targets[0]
            val = ast.BinOp(left=_as_load(tgt), op=s.op, right=s.value) if isinstance(s, ast.AugAssign) else s.value
            if isinstance(tgt, ast.Name):
                self.guards = []
                v = self.tr(val)
                if self.guards:
                    raise Untranslatable('masked read outside a masked store: ' + ast.unparse(s))
                sub = self.child(**{tgt.id: (lid(tgt.id), v[1], v[2])})
                return f'let {lid(tgt.id)} := {v[0]};\n  {sub.block(rest, tail)}'
            if isinstance(tgt, ast.Subscript) and isinstance(tgt.value, ast.Name) and tgt.value.id in self.env:
                old = self.env[tgt.value.id]
                m = self.tr(tgt.slice)
                if m[1] == 'idx' and m[2] == 'P1' and old[2] == 'R' and self.rowvar:
                    # `a[<list of positions>] = e` read at the entry `rowvar` of a 1-D array
                    self.guards = []
                    v = self.tr(val)
                    if self.guards or v[1] != old[1] or v[2] != 'P0':
                        raise Untranslatable('indexed store of a value that is not a scalar: ' + ast.unparse(s))
                    nm = tgt.value.id
                    sub = self.child(**{nm: (lid(nm), old[1], old[2])})
                    return f'let {lid(nm)} := if {m[0]}.contains {self.rowvar} then {v[0]} else {old[0]};\n  {sub.block(rest, tail)}'
                if m[1] != 'bool' or m[2] != old[2] or old[2] not in ('R', 'RC'):
                    raise Untranslatable('store that is not a masked store into a per-sample array: ' + ast.unparse(s))
                self.guards = []
                v = self.tr(val)
                if any(g != m[0] for g in self.guards):
                    raise Untranslatable('entries read under a mask other than the mask of the store: ' + ast.unparse(s))
                self.guards = []
                if v[1] != old[1] or v[2] not in (old[2], 'P0', 'R'):
                    raise Untranslatable('masked store of a value of another kind: ' + ast.unparse(s))
                nm = tgt.value.id
                sub = self.child(**{nm: (lid(nm), old[1], old[2])})
                return f'let {lid(nm)} := if {m[0]} then {v[0]} else {old[0]};\n  {sub.block(rest, tail)}'
        raise Untranslatable('statement ' + ast.unparse(s).splitlines()[0])

    def body_value(self, fn, want=None):
        """the function body (docstring skipped) ending in `return <expr>` as a Lean term, with the returned value's kind"""
        stmts = [s for s in fn.body if not (isinstance(s, ast.Expr) and isinstance(s.value, ast.Constant))]
        if not stmts or not isinstance(stmts[-1], ast.Return) or stmts[-1].value is None:
            raise Untranslatable(f'{fn.name}: the body does not end with `return <value>`')
        out = {}
        def tail(t):
            t.guards = []
            v = t.tr(stmts[-1].value)
            if t.guards:
                raise Untranslatable(f'{fn.name}: masked read in the returned value')
            out['kind'] = (v[1], v[2])
            return v[0]
        term = self.block(stmts[:-1], tail)
        if want is not None and out['kind'] != want:
            raise Untranslatable(f'{fn.name}: returns a value of kind {out["kind"]}, expected {want}')
        return term, out['kind']


class TrZ3(TrZ):
    """TrZ plus the array idioms of the third wave: label masks (`clusters == c`), row / column selection by a mask,
    exact quotients of two lengths (rendered as the pair (numerator, denominator)), object attributes rendered as structure
    projections.  Row-major data is ('list', 'row'), column-major data ('clist', 'col')."""

    def child(self, **bind):
        sub = TrZ3(self.env, None, self.attrs, self.funcs, self.transparent)
        sub.syms = self.syms
        sub.env.update(bind)
        return sub

    def seq(self, tt):
        if isinstance(tt[1], tuple) and tt[1][0] == 'clist':
            return tt[0], tt[1][1]
        return TrZ.seq(self, tt)

    def cmp(self, op, a, b):
        if isinstance(op, (ast.Eq, ast.NotEq)) and a[1] == ('list', 'int') and b[1] == 'int':
            t = f'({a[0]}.map (fun a => a == {b[0]}))' if isinstance(op, ast.Eq) else f'({a[0]}.map (fun a => a != {b[0]}))'
            return t
        return TrZ.cmp(self, op, a, b)

    def tr(self, e):
        if ast.unparse(e).replace(' ', '') in self.syms:
            return self.syms[ast.unparse(e).replace(' ', '')]
        if isinstance(e, ast.Compare) and len(e.ops) == 1:
            a, b = self.tr(e.left), self.tr(e.comparators[0])
            if a[1] == ('list', 'int') and b[1] == 'int' and isinstance(e.ops[0], (ast.Eq, ast.NotEq)):
                return self.cmp(e.ops[0], a, b), ('list', 'bool')
        if isinstance(e, ast.Subscript) and isinstance(e.slice, ast.Tuple) and len(e.slice.elts) == 2:
            i0, i1 = e.slice.elts
            full = lambda x: isinstance(x, ast.Slice) and x.lower is None and x.upper is None and x.step is None
            base = self.tr(e.value)
            if full(i1) and not full(i0) and isinstance(base[1], tuple) and base[1][0] == 'list':
                m = self.tr(i0)
                if m[1] == ('list', 'bool'):
                    return f'(Py3.rowsWhere {base[0]} {m[0]})', base[1]
            if full(i0) and not full(i1) and isinstance(base[1], tuple) and base[1][0] == 'clist':
                m = self.tr(i1)
                if m[1] == ('list', 'bool'):
                    return f'(Py3.rowsWhere {base[0]} {m[0]})', base[1]
            raise Untranslatable('selection ' + ast.unparse(e) + ' (rows of row-major data / columns of column-major data by a label mask expected)')
        if isinstance(e, ast.Subscript) and not isinstance(e.slice, (ast.Slice, ast.Tuple)):
            base = self.tr(e.value)
            if isinstance(base[1], tuple) and base[1][0] == 'list':
                try:
                    m = self.tr(e.slice)
                except Untranslatable:
                    m = None
                if m is not None and m[1] == ('list', 'bool'):
                    return f'(Py3.rowsWhere {base[0]} {m[0]})', base[1]
                if m is not None and m[1] in ('int', 'item') and base[1][1] not in ('item', 'int'):
                    return f'({base[0]}.getD ({self.as_int(m)}).toNat default)', base[1][1]
        if isinstance(e, ast.BinOp) and isinstance(e.op, ast.Div):
            a, b = self.tr(e.left), self.tr(e.right)
            if a[1] == 'int' and b[1] == 'int':
                return f'({a[0]}, {b[0]})', 'ratio'
            raise Untranslatable('quotient ' + ast.unparse(e))
        if isinstance(e, ast.Call) and (dotted_name(e.func) or '') == 'len' and len(e.args) == 1:
            v = self.tr(e.args[0])
            if isinstance(v[1], tuple) and v[1][0] == 'list':
                return f'(({v[0]}.length : Nat) : Int)', 'int'
        if isinstance(e, ast.Call) and (dotted_name(e.func) or '') in ('np.asarray', 'np.array') and len(e.args) == 1 and not e.keywords:
            return self.tr(e.args[0])
        return TrZ.tr(self, e)


def accumulate_loop(tr, stmts, loop, accs):
    """`acc = list()` … `for v in xs: <assignments>; acc.append(e)` as `acc := xs.map (fun v => let …; e)`, for each accumulator in
    `accs`.  `stmts` = the assignments before the loop (bound by `let`).  Returns {acc: (lean term, element type)}."""
    if not isinstance(loop.target, ast.Name) or loop.orelse:
        raise Untranslatable('loop target is not a single name')
    res = {}
    def build(acc):
        def at_loop(t):
            xs, elty = t.seq(t.tr(loop.iter))
            sub = t.child(**{loop.target.id: (lid(loop.target.id), elty)})
            lets, out = [], []
            for st in loop.body:
                if isinstance(st, ast.Expr) and isinstance(st.value, ast.Call) and isinstance(st.value.func, ast.Attribute) \
                        and st.value.func.attr == 'append' and isinstance(st.value.func.value, ast.Name) and st.value.func.value.id in accs:
                    if st.value.func.value.id == acc:
                        out.append(the(st.value.args, 'argument of append'))
                elif isinstance(st, ast.Assign):
                    lets.append(st)
                else:
                    raise Untranslatable('loop statement ' + ast.unparse(st).splitlines()[0])
            body, ty = let_block(sub, lets, the(out, f'{acc}.append in the loop'))
            res[acc] = ty
            return f'({xs}.map (fun {lid(loop.target.id)} =>\n    {body}))', ('list', ty)
        return let_block(tr, stmts, at_loop)
    return {acc: build(acc) for acc in accs}


# ----------------------------------------------------------------------------- fourth wave: NumPy idioms of loops and cascades
PY4_PRELUDE = (
    '/-! Readings of the NumPy / Python primitives met by the fourth wave of fragments (`S4…` definitions). Core Lean only. -/\n'
    'namespace Py4\n'
    '/-- NumPy / Python indexing `a[i]` with a possibly negative index (`-1` = last entry); `d` outside the range -/\n'
    'def getI {β : Type} (a : List β) (i : Int) (d : β) : β :=\n'
    '  if i < 0 then a.getD (a.length - i.natAbs) d else a.getD i.toNat d\n'
    '/-- `np.argmax(v)` of a vector: the FIRST index holding the maximum (NumPy semantics, trusted); 0 on the empty vector -/\n'
    'def argmaxAux {β : Type} [LT β] [DecidableLT β] : List β → Nat → Nat → β → Nat\n'
    '  | [], _, bi, _ => bi\n'
    '  | x :: xs, i, bi, bv => if bv < x then argmaxAux xs (i + 1) i x else argmaxAux xs (i + 1) bi bv\n'
    'def argmax {β : Type} [LT β] [DecidableLT β] : List β → Nat\n  | [] => 0\n  | x :: xs => argmaxAux xs 1 0 x\n'
    '/-- `a[i] = v` on a list (nothing outside the range) -/\n'
    'def setI {β : Type} (a : List β) (i : Nat) (v : β) : List β := a.set i v\n'
    '/-- `a[i] = v` with a possibly negative index -/\n'
    'def updI {β : Type} (a : List β) (i : Int) (v : β) : List β :=\n'
    '  if i < 0 then a.set (a.length - i.natAbs) v else a.set i.toNat v\n'
    '/-- the last axis of `self.params` / `messages` of a binary Chow-Liu tree: the entries for the values 0 and 1 -/\n'
    'def vec2 {β : Type} (f : Int → β) : List β := [f 0, f 1]\n'
    '/-- element-wise `f(a, b, c)` of three index vectors (NumPy fancy indexing `t[a, b, c]`) -/\n'
    'def zipWith3 {β γ δ ε : Type} (f : β → γ → δ → ε) : List β → List γ → List δ → List ε\n'
    '  | a :: as, b :: bs, c :: cs => f a b c :: zipWith3 f as bs cs\n  | _, _, _ => []\n'
    '/-- `torch.flatten(torch.stack([a, b], dim=2), start_dim=1)` on one row: the entries of `a` and `b` interleaved -/\n'
    'def interleave {β : Type} : List β → List β → List β\n  | a :: as, b :: bs => a :: b :: interleave as bs\n  | _, _ => []\n'
    '/-- `torch.gather(x, dim=1, index=idx)` on one row -/\n'
    'def gather {β : Type} [Inhabited β] (x : List β) (idx : List Int) : List β := idx.map (fun j => getI x j default)\n'
    '/-- `sum` of a vector in a carrier with `0` and `+` -/\n'
    'def sum {β : Type} [Zero β] [Add β] : List β → β\n  | [] => 0\n  | x :: xs => x + sum xs\n'
    'end Py4')


class TrZ4(TrZ3):
    """TrZ3 plus: `np.all(v)` / `np.any(v)` of a Boolean vector, enum members (`enums`: class name -> Lean type), negative
    indexing `a[i]` of integer / item lists (`Py4.getI`), `a.copy()`."""

    def __init__(self, env=None, syms=None, attrs=None, funcs=None, transparent=(), enums=None):
        TrZ3.__init__(self, env, syms, attrs, funcs, transparent)
        self.enums = dict(enums or {})

    def child(self, **bind):
        sub = TrZ4(self.env, None, self.attrs, self.funcs, self.transparent, self.enums)
        sub.syms = self.syms
        sub.env.update(bind)
        return sub

    def tr(self, e):
        if ast.unparse(e).replace(' ', '') in self.syms:
            return self.syms[ast.unparse(e).replace(' ', '')]
        if isinstance(e, ast.Attribute) and isinstance(e.value, ast.Name) and e.value.id in self.enums:
            ty, members = self.enums[e.value.id]
            if e.attr not in members:
                raise Untranslatable(f'{e.value.id}.{e.attr} is not a member of the enumeration')
            return f'{ty}.{e.attr}', ('enum', ty)
        if isinstance(e, ast.BinOp) and isinstance(e.op, (ast.Add, ast.Sub, ast.Mult, ast.Div)):
            a, b = self.tr(e.left), self.tr(e.right)
            if 'num' in (a[1], b[1]) and a[1] in ('num', 'int', 'item') and b[1] in ('num', 'int', 'item'):
                return f'({self.as_num(a)} {BINOPS[type(e.op)]} {self.as_num(b)})', 'num'
        if isinstance(e, ast.Compare) and len(e.ops) == 1 and isinstance(e.ops[0], (ast.Lt, ast.LtE, ast.Gt, ast.GtE)):
            a, b = self.tr(e.left), self.tr(e.comparators[0])
            if 'num' in (a[1], b[1]) and a[1] in ('num', 'int', 'item') and b[1] in ('num', 'int', 'item'):
                x, y = self.as_num(a), self.as_num(b)
                op = type(e.ops[0])
                # only `<` and `≤` of the carrier are used: a > b is b < a
                t = {ast.Lt: f'{x} < {y}', ast.LtE: f'{x} ≤ {y}', ast.Gt: f'{y} < {x}', ast.GtE: f'{y} ≤ {x}'}[op]
                return f'(decide ({t}))', 'bool'
        if isinstance(e, ast.Subscript) and not isinstance(e.slice, (ast.Slice, ast.Tuple, ast.Constant)):
            base = self.tr(e.value)
            if base[1] in (('list', 'item'), ('list', 'int')):
                try:
                    ix = self.tr(e.slice)
                except Untranslatable:
                    ix = None
                if ix is not None and ix[1] in ('int', 'item'):      # a[k] with a computed, possibly negative, index
                    return f'(Py4.getI {base[0]} {self.as_int(ix)} 0)', base[1][1]
            elif isinstance(base[1], tuple) and base[1][0] == 'list' and isinstance(e.slice, ast.UnaryOp):
                ix = self.tr(e.slice)                                 # xs[-k] on a list of objects: counted from the end
                if ix[1] == 'int':
                    return f'(Py4.getI {base[0]} {ix[0]} default)', base[1][1]
        if isinstance(e, ast.Call):
            nm = dotted_name(e.func) or ''
            if nm in ('np.all', 'np.any', 'numpy.all', 'numpy.any') and len(e.args) == 1 and not e.keywords:
                v = self.tr(e.args[0])
                if v[1] != ('list', 'bool'):
                    raise Untranslatable(f'{nm} of a value that is not a Boolean vector: ' + ast.unparse(e))
                return f'({v[0]}.{nm.split(".")[-1]} (fun b => b))', 'bool'
        return TrZ3.tr(self, e)

    def as_num(self, tt):
        """a value of the numeric carrier `W` (integers are cast: `[IntCast W]`)"""
        if tt[1] == 'num':
            return tt[0]
        return f'(({self.as_int(tt)} : Int) : W)'

    def cmp(self, op, a, b):
        if isinstance(a[1], tuple) and a[1][0] == 'enum' and a[1] == b[1] and isinstance(op, (ast.Eq, ast.NotEq)):
            return f'({a[0]} {"==" if isinstance(op, ast.Eq) else "!="} {b[0]})'
        return TrZ3.cmp(self, op, a, b)


def elif_chain(ifstmt):
    """`if t1: b1 elif t2: b2 … else: bn` -> ([(t1, b1), (t2, b2), …], bn or [])"""
    arms, cur = [], ifstmt
    while True:
        arms.append((cur.test, cur.body))
        if len(cur.orelse) == 1 and isinstance(cur.orelse[0], ast.If):
            cur = cur.orelse[0]
        else:
            return arms, cur.orelse


def tuple_term(terms):
    return terms[0] if len(terms) == 1 else '(' + ', '.join(terms) + ')'


def tuple_proj(var, k, n):
    """projection `k` (from 0) of a right-nested `n`-tuple held by `var`"""
    if n == 1:
        return var
    return var + '.2' * k + ('.1' if k < n - 1 else '')


RETURNED = ['<returned value>']     # `outs` of a function body: its value is what it returns


class Exec4:
    """statement-level reader: a block of Python statements as nested Lean `let`s whose value is the tuple of the final
    values of the variables `outs`.  Understood: `name = e`, `obj.attr = e` (the attribute becomes a variable `obj_attr`),
    `name op= e`, `xs.append(e)` / `xs.extend(e)` (list variables), `if … elif … else` (the variables assigned in a branch
    are merged), `if c: …; continue` inside a loop body (the rest of the body is the else branch), `for v in xs:` (a
    `foldl` over the variables the body assigns), `pass`, docstrings.  `stmt_hook(tr, stmt)` may translate a statement
    itself: it returns None (not mine), or (list of (lean name, python key, term, type) bindings).  Everything else is
    refused (Untranslatable naming the statement)."""

    def __init__(self, what, stmt_hook=None, skip=None, ret_coerce=None):
        self.what = what
        self.stmt_hook = stmt_hook
        self.skip = skip or (lambda st: False)
        self.ret_coerce = ret_coerce or (lambda term, ty: (term, ty))

    # -- environment handling: plain names live in tr.env, attribute / subscript keys in tr.syms
    def bind(self, tr, key, lean, ty):
        sub = tr.child()
        sub.syms = dict(tr.syms)
        if key.isidentifier():
            sub.env[key] = (lean, ty)
        else:
            sub.syms[key.replace(' ', '')] = (lean, ty)
        return sub

    def lookup(self, tr, key):
        k = key.replace(' ', '')
        if k in tr.syms:
            return tr.syms[k]
        if key in tr.env:
            return tr.env[key]
        return None

    @staticmethod
    def lean_name(key):
        return lid(key) if key.isidentifier() else lid(key.replace('.', '_').replace('[', '_').replace(']', '').replace(' ', ''))

    def assigned(self, stmts):
        """keys (names / attribute texts) assigned anywhere in `stmts`, in first-assignment order"""
        res = []
        def add(k):
            if k not in res:
                res.append(k)
        def rec(ss):
            for st in ss:
                if isinstance(st, ast.Assign):
                    for t in st.targets:
                        for x in (t.elts if isinstance(t, ast.Tuple) else [t]):
                            if isinstance(x, (ast.Name, ast.Attribute)):
                                add(ast.unparse(x))
                            elif isinstance(x, ast.Subscript):
                                add(ast.unparse(x.value))
                elif isinstance(st, ast.AugAssign):
                    add(ast.unparse(st.target.value if isinstance(st.target, ast.Subscript) else st.target))
                elif isinstance(st, ast.Expr) and isinstance(st.value, ast.Call) and isinstance(st.value.func, ast.Attribute) \
                        and st.value.func.attr in ('append', 'extend', 'appendleft', 'pop', 'popleft', 'insert'):
                    add(ast.unparse(st.value.func.value))
                elif isinstance(st, ast.Delete):
                    for t in st.targets:
                        add(ast.unparse(t.value if isinstance(t, ast.Subscript) else t))
                elif isinstance(st, ast.If):
                    rec(st.body); rec(st.orelse)
                elif isinstance(st, ast.For):
                    rec(st.body)
        rec(stmts)
        return res

    @staticmethod
    def mentions(node, key):
        return any(isinstance(n, (ast.Name, ast.Attribute)) and ast.unparse(n) == key for n in ast.walk(node))

    def needed(self, key, body, rest, outs):
        """is the value of `key` after a block `body` (None: not a loop) observable: returned in `outs`, mentioned by a later
        statement, or (loop bodies) read by the next iteration before it is overwritten"""
        if outs != RETURNED and key in outs:
            return True
        if any(self.mentions(st, key) for st in rest):
            return True
        for st in body or []:
            if isinstance(st, ast.Assign) and len(st.targets) == 1 and ast.unparse(st.targets[0]) == key:
                return self.mentions(st.value, key)
            if self.mentions(st, key):
                return True
        return False

    def final(self, tr, outs):
        if outs == RETURNED:
            raise Untranslatable(f'{self.what}: a path through the body does not end with a return')
        vals = []
        for k in outs:
            v = self.lookup(tr, k)
            if v is None:
                raise Untranslatable(f'{self.what}: `{k}` has no value at the end of a block')
            vals.append(v)
        return tuple_term([t for t, _ in vals]), [ty for _, ty in vals]

    def run(self, tr, stmts, outs, in_loop=False):
        """-> (Lean text, types of `outs`)"""
        if not stmts:
            return self.final(tr, outs)
        st, rest = stmts[0], stmts[1:]
        if (isinstance(st, ast.Expr) and isinstance(st.value, ast.Constant)) or isinstance(st, ast.Pass) or self.skip(st):
            return self.run(tr, rest, outs, in_loop)
        if self.stmt_hook is not None:
            r = self.stmt_hook(tr, st)
            if r is not None:
                text, sub = '', tr
                for lean, key, term, ty in r:
                    text += f'let {lean} := {term};\n  '
                    sub = self.bind(sub, key, lean, ty)
                body, tys = self.run(sub, rest, outs, in_loop)
                return text + body, tys
        if isinstance(st, ast.Continue) and in_loop and not rest:
            return self.final(tr, outs)
        if isinstance(st, ast.Return) and outs == RETURNED:
            if st.value is None:
                raise Untranslatable(f'{self.what}: bare return')
            term, ty = self.ret_coerce(*tr.tr(st.value))
            return term, [ty]
        if isinstance(st, ast.If) and outs == RETURNED and not st.orelse and st.body and isinstance(st.body[-1], ast.Return):
            c = tr.as_bool(tr.tr(st.test))
            a, ta = self.run(tr, st.body, outs, in_loop)
            b, tb = self.run(tr, rest, outs, in_loop)
            if ta != tb:
                raise Untranslatable(f'{self.what}: the two exits around `if {ast.unparse(st.test)}` return values of different kinds {ta} / {tb}')
            return f'if {c} then\n  ({a})\n  else\n  ({b})', ta
        if isinstance(st, (ast.Assign, ast.AnnAssign)) and (isinstance(st, ast.AnnAssign) or len(st.targets) == 1):
            tgt = st.target if isinstance(st, ast.AnnAssign) else st.targets[0]
            if isinstance(tgt, (ast.Name, ast.Attribute)) and st.value is not None:
                key = ast.unparse(tgt)
                term, ty = tr.tr(st.value)
                lean = self.lean_name(key)
                body, tys = self.run(self.bind(tr, key, lean, ty), rest, outs, in_loop)
                return f'let {lean} := {term};\n  {body}', tys
            if isinstance(tgt, ast.Tuple) and isinstance(st.value, ast.Tuple) and len(tgt.elts) == len(st.value.elts) \
                    and all(isinstance(x, (ast.Name, ast.Attribute)) for x in tgt.elts):
                vals = [tr.tr(v) for v in st.value.elts]        # simultaneous assignment: all right-hand sides first
                text, sub = '', tr
                for x, (term, ty) in zip(tgt.elts, vals):
                    key = ast.unparse(x)
                    text += f'let {self.lean_name(key)}\'new := {term};\n  '
                for x, (term, ty) in zip(tgt.elts, vals):
                    key = ast.unparse(x)
                    text += f'let {self.lean_name(key)} := {self.lean_name(key)}\'new;\n  '
                    sub = self.bind(sub, key, self.lean_name(key), ty)
                body, tys = self.run(sub, rest, outs, in_loop)
                return text + body, tys
        if isinstance(st, ast.AugAssign) and isinstance(st.target, (ast.Name, ast.Attribute)):
            key = ast.unparse(st.target)
            term, ty = tr.tr(ast.BinOp(left=_as_load(st.target), op=st.op, right=st.value))
            lean = self.lean_name(key)
            body, tys = self.run(self.bind(tr, key, lean, ty), rest, outs, in_loop)
            return f'let {lean} := {term};\n  {body}', tys
        if isinstance(st, ast.Expr) and isinstance(st.value, ast.Call) and isinstance(st.value.func, ast.Attribute) \
                and st.value.func.attr in ('append', 'extend') and len(st.value.args) == 1 and not st.value.keywords:
            key = ast.unparse(st.value.func.value)
            old = self.lookup(tr, key)
            if old is None or not (isinstance(old[1], tuple) and old[1][0] == 'list'):
                raise Untranslatable(f'{self.what}: `{key}` is not a list variable in ' + ast.unparse(st))
            term, ty = tr.tr(st.value.args[0])
            if st.value.func.attr == 'append':
                if ty != old[1][1]:
                    raise Untranslatable(f'{self.what}: {ast.unparse(st)} appends a value of kind {ty} to a list of {old[1][1]}')
                new = f'({old[0]} ++ [{term}])'
            else:
                if not (isinstance(ty, tuple) and ty[0] in ('list', 'set') and ty[1] == old[1][1]):
                    raise Untranslatable(f'{self.what}: {ast.unparse(st)} extends a list of {old[1][1]} by {ty}')
                new = f'({old[0]} ++ {term})'
            lean = self.lean_name(key)
            body, tys = self.run(self.bind(tr, key, lean, old[1]), rest, outs, in_loop)
            return f'let {lean} := {new};\n  {body}', tys
        if isinstance(st, ast.If):
            c = tr.as_bool(tr.tr(st.test))
            if in_loop and not st.orelse and st.body and isinstance(st.body[-1], ast.Continue):
                a, ta = self.run(tr, st.body[:-1], outs, in_loop)
                b, tb = self.run(tr, rest, outs, in_loop)
                if ta != tb:
                    raise Untranslatable(f'{self.what}: the two ways through `if {ast.unparse(st.test)}: …; continue` leave values of different kinds')
                return f'if {c} then\n  ({a})\n  else\n  ({b})', ta
            mods = [k for k in self.assigned(st.body + st.orelse)
                    if (self.lookup(tr, k) is not None or (k in self.assigned(st.body) and k in self.assigned(st.orelse)))
                    and self.needed(k, None, rest, outs)]
            if not mods:
                raise Untranslatable(f'{self.what}: conditional without an effect on a known variable: if {ast.unparse(st.test)}')
            a, ta = self.run(tr, st.body, mods, in_loop)
            b, tb = self.run(tr, st.orelse, mods, in_loop)
            if ta != tb:
                raise Untranslatable(f'{self.what}: the branches of `if {ast.unparse(st.test)}` leave values of different kinds')
            return self.rebind(tr, mods, ta, f'if {c} then ({a}) else ({b})', rest, outs, in_loop)
        if isinstance(st, ast.For) and not st.orelse and isinstance(st.target, ast.Name):
            xs, elty = tr.seq(tr.tr(st.iter))
            mods = [k for k in self.assigned(st.body) if self.lookup(tr, k) is not None and self.needed(k, st.body, rest, outs)]
            if not mods:
                raise Untranslatable(f'{self.what}: loop without an effect on a known variable: for {ast.unparse(st.target)} in {ast.unparse(st.iter)}')
            init, tys0 = self.final(tr, mods)
            sub = tr.child()
            sub.syms = dict(tr.syms)
            text = ''
            n = len(mods)
            for k, key in enumerate(mods):
                if n > 1:
                    text += f'let {self.lean_name(key)} := {tuple_proj("st", k, n)};\n    '
                sub = self.bind(sub, key, self.lean_name(key), tys0[k])
            sub = self.bind(sub, st.target.id, lid(st.target.id), elty)
            body, tys = self.run(sub, st.body, mods, True)
            if tys != tys0:
                raise Untranslatable(f'{self.what}: the loop over {ast.unparse(st.iter)} changes the kind of a variable')
            acc = 'st' if n > 1 else self.lean_name(mods[0])
            return self.rebind(tr, mods, tys, f'({xs}.foldl (fun {acc} {lid(st.target.id)} =>\n    {text}{body}) {init})', rest, outs, in_loop)
        raise Untranslatable(f'{self.what}: statement not understood: ' + ast.unparse(st).splitlines()[0])

    def rebind(self, tr, mods, tys, term, rest, outs, in_loop):
        n = len(mods)
        sub = tr
        if n == 1:
            lean = self.lean_name(mods[0])
            body, t2 = self.run(self.bind(tr, mods[0], lean, tys[0]), rest, outs, in_loop)
            return f'let {lean} := {term};\n  {body}', t2
        text = f'let st\'{len(str(term)) % 97} := {term};\n  '
        var = f"st'{len(str(term)) % 97}"
        for k, key in enumerate(mods):
            text += f'let {self.lean_name(key)} := {tuple_proj(var, k, n)};\n  '
            sub = self.bind(sub, key, self.lean_name(key), tys[k])
        body, t2 = self.run(sub, rest, outs, in_loop)
        return text + body, t2


# ----------------------------------------------------------------------------- fragments
class Out:
    """collects the generated definitions. `baseline` (tools/fragment_baseline.json, captured from the unchanged
    tree with `py2lean.py --snapshot`) maps a fragment name to the text it generated there: when a fragment can no
    longer be translated the last known translation is emitted instead, so that the model still builds and the
    correspondence check can go on to look for a concrete failing input; the fragment is still reported in
    `errors` (the check then treats the translator tie of that fragment as broken)."""

    def __init__(self, baseline=None):
        self.consts, self.formulas, self.errors = [], [], {}
        self.baseline = baseline or {}
        self.snapshot = {}
        self.fallbacks = []

    def _run(self, kind, name, fn):
        dst = self.consts if kind == 'const' else self.formulas
        try:
            r = fn()  # one definition, or a list of definitions
            r = r if isinstance(r, list) else [r]
            self.snapshot[f'{kind}:{name}'] = r
            dst.extend(r)
            return
        except Untranslatable as ex:
            self.errors[name] = str(ex)
        except Exception as ex:  # a translator crash is a failed translation, not a pass
            self.errors[name] = f'{type(ex).__name__}: {ex}'
        old = self.baseline.get(f'{kind}:{name}')
        if old is not None:
            self.fallbacks.append(name)
            dst.extend(['-- FALLBACK (fragment no longer translatable on the current source; last known translation kept)\n' + t
                        for t in old])

    def const(self, name, fn):
        self._run('const', name, fn)

    def formula(self, name, fn):
        self._run('formula', name, fn)


def the(xs, what):
    if len(xs) != 1:
        raise Untranslatable(f'{what}: expected exactly one occurrence, found {len(xs)}')
    return xs[0]


BASELINE = os.path.join(os.path.dirname(os.path.abspath(__file__)), 'fragment_baseline.json')


def generate(repo, outdir, write_if_changed, snapshot_to=None):
    import json
    o = Out(json.load(open(BASELINE)) if os.path.exists(BASELINE) and not snapshot_to else None)
    import fragments
    fragments.emit(o, repo, sys.modules[__name__])
    consts = ('/- GENERATED by tools/py2lean.py from the /repo working tree — do not edit. -/\n'
              'set_option linter.unusedVariables false\nnamespace Deeprob.Gen\n\n' + PY_PRELUDE + '\n\n' + PY3_PRELUDE + '\n\n' + '\n\n'.join(o.consts) + '\n\nend Deeprob.Gen\n')
    formulas = ('/- GENERATED by tools/py2lean.py from the /repo working tree — do not edit. -/\n'
                'import DeeprobModel.Spec.ExpLog\nimport DeeprobModel.Generated.Consts\n'
                'set_option linter.unusedVariables false\n'
                'namespace Deeprob.Gen\nvariable {F : Type} [Field F] [LinearOrder F] (E : ExpLog F)\n\n'
                + '\n\n'.join(o.formulas) + '\n\nend Deeprob.Gen\n')
    # the same terms once more at the computable carrier `Rat`, without any Mathlib import (the driver
    # executable links this file); formulas that mention `E.` and Prop-valued guards stay in Formulas.lean only
    import re
    rat = [re.sub(r'\bF\b', 'Rat', f) for f in o.formulas if 'E.' not in f and ': Prop' not in f]
    formulas_rat = ('/- GENERATED by tools/py2lean.py from the /repo working tree — do not edit.\n'
                    '   Same terms as Formulas.lean, at the carrier `Rat` (no Mathlib). -/\nimport DeeprobModel.Generated.Consts\n'
                    'set_option linter.unusedVariables false\nnamespace Deeprob.GenRat\n\n' + '\n\n'.join(rat) + '\n\nend Deeprob.GenRat\n')
    os.makedirs(outdir, exist_ok=True)
    write_if_changed(os.path.join(outdir, 'Consts.lean'), consts)
    write_if_changed(os.path.join(outdir, 'Formulas.lean'), formulas)
    write_if_changed(os.path.join(outdir, 'FormulasRat.lean'), formulas_rat)
    if snapshot_to:
        if o.errors:
            raise SystemExit(f'refusing to snapshot: untranslatable fragments {o.errors}')
        with open(snapshot_to, 'w') as f:
            json.dump(o.snapshot, f, indent=0, sort_keys=True)
    return o.errors


if __name__ == '__main__':
    snap = '--snapshot' in sys.argv
    if snap:
        sys.argv.remove('--snapshot')
    repo = sys.argv[1] if len(sys.argv) > 1 else '/repo'
    here = os.path.dirname(os.path.abspath(__file__))
    sys.path.insert(0, here)
    sys.path.insert(0, os.path.join(os.path.dirname(here)))
    try:
        from harness.common import write_if_changed, LEAN
    except ImportError:  # stand-alone use outside /verif
        LEAN = None
        def write_if_changed(path, text):
            old = open(path).read() if os.path.exists(path) else None
            if old != text:
                with open(path, 'w') as f:
                    f.write(text)
    lean = sys.argv[2] if len(sys.argv) > 2 else os.environ.get('DEEPROB_LEAN', LEAN)
    if snap:
        errs = generate(repo, os.path.join(lean, 'DeeprobModel', 'Generated'), write_if_changed, snapshot_to=BASELINE)
    else:
        errs = generate(repo, os.path.join(lean, 'DeeprobModel', 'Generated'), write_if_changed)
    print(errs)
