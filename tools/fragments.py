"""The list of source fragments the translator extracts (what, from where) — see DESIGN.md §2.3."""
import ast


def emit(o, repo, T):
    U = T.Untranslatable
    leaf = T.parse_file(repo, 'deeprob/spn/structure/leaf.py')
    inference = T.parse_file(repo, 'deeprob/spn/algorithms/inference.py')
    sampling = T.parse_file(repo, 'deeprob/spn/algorithms/sampling.py')
    moments = T.parse_file(repo, 'deeprob/spn/algorithms/moments.py')

    # ---- C01: out-of-support constants of the histogram leaf, the log floor ------------------
    def iso_lik():
        fn = T.find_func(leaf, 'Isotonic.likelihood')
        v = T.the(T.assignments(fn, 'ls[ood_mask]'), 'Isotonic.likelihood ood assignment')
        return f'/-- `Isotonic.likelihood`: value outside the support -/\ndef isoOodLik : Rat := {T.q_lean(T.const_value(v))}'
    o.const('isoOodLik', iso_lik)

    def iso_loglik():
        fn = T.find_func(leaf, 'Isotonic.log_likelihood')
        v = T.the(T.assignments(fn, 'lls[ood_mask]'), 'Isotonic.log_likelihood ood assignment')
        if not (isinstance(v, ast.Call) and (T.dotted_name(v.func) or '').split('.')[-1] == 'log' and len(v.args) == 1):
            raise U('Isotonic.log_likelihood ood value is not log(<constant>)')
        return ('/-- `Isotonic.log_likelihood`: the out-of-support value is `log` of this constant -/\n'
                f'def isoOodLogLikArg : Rat := {T.q_lean(T.const_value(v.args[0]))}')
    o.const('isoOodLogLikArg', iso_loglik)

    def ll_floor():
        fn = T.find_func(inference, 'node_log_likelihood')
        c = T.the(T.calls(fn, 'maximum'), 'np.maximum in node_log_likelihood')
        return f'/-- `node_log_likelihood`: floor applied to every log-value -/\ndef llFloor : Rat := {T.q_lean(T.const_value(c.args[1]))}'
    o.const('llFloor', ll_floor)

    # ---- C07: noise law of sum_sample -----------------------------------------------------------
    def gumbel():
        fn = T.find_func(sampling, 'sum_sample')
        v = T.the(T.assignments(fn, 'gumbel'), 'gumbel noise in sum_sample')
        nm = T.dotted_name(v.func) if isinstance(v, ast.Call) else None
        if not nm or not nm.endswith('.rvs'):
            raise U('sum_sample noise is not a scipy rvs call')
        law = nm.split('.')[-2]
        args = [T.const_value(a) for a in v.args[:2]]
        return ('/-- `sum_sample`: SciPy law of the additive noise, location, scale -/\n'
                f'def sumSampleNoise : String := "{law}"\n'
                f'def sumSampleNoiseLoc : Rat := {T.q_lean(args[0])}\n'
                f'def sumSampleNoiseScale : Rat := {T.q_lean(args[1])}')
    o.const('sumSampleNoise', gumbel)

    # ---- C19: derived statistics as functions of the raw moments -----------------------------------
    def moment_hook(tr, call):
        nm = T.dotted_name(call.func)
        if nm == 'moment':
            ks = [kw.value for kw in call.keywords if kw.arg == 'order'] or call.args[1:2]
            k = T.const_value(T.the(ks, 'moment order'))
            if k.denominator != 1 or not (1 <= k <= 4):
                raise U('moment order outside 1..4')
            return f'm{k.numerator}'
        if nm in ('expectation',):
            return 'm1'
        if nm in ('variance',):
            return '(variance m1 m2 m3 m4)'
        return None

    for name in ('variance', 'skewness', 'kurtosis'):
        def mk(name=name):
            fn = T.find_func(moments, name)
            tr = T.Tr(call_hook=moment_hook)
            body = tr.run(fn)
            if body is None:
                raise U(f'{name}: no return')
            needsE = 'E.' in body
            sig = '(m1 m2 m3 m4 : F)'
            return (f'/-- `moments.{name}` as a function of the raw moments -/\n'
                    f'def {name} {"" if not needsE else ""}{sig} : F := {body}')
        o.formula('moments.' + name, mk)

    # ---- C19 (driver): numerator and denominator base of the skewness quotient, as coded ----------
    def skew_parts():
        fn = T.find_func(moments, 'skewness')
        tr = T.Tr(call_hook=moment_hook)
        tr.run_stmts([s for s in fn.body if not isinstance(s, ast.Return)])
        r = T.the(T.returns(fn), 'skewness return')
        if not (isinstance(r, ast.BinOp) and isinstance(r.op, ast.Div) and isinstance(r.right, ast.BinOp)
                and isinstance(r.right.op, ast.Pow) and T.const_value(r.right.right) == T.Fraction(3, 2)):
            raise U('skewness is not <num> / <base> ** 1.5')
        return ['/-- `moments.skewness`: numerator of the returned quotient -/\n'
                f'def skewnessNum (m1 m2 m3 m4 : F) : F := {tr.tr(r.left)}',
                '/-- `moments.skewness`: base of the power `** 1.5` in the denominator -/\n'
                f'def skewnessDenBase (m1 m2 m3 m4 : F) : F := {tr.tr(r.right.left)}']
    o.formula('moments.skewness.parts', skew_parts)

    def moment_guard():
        fn = T.find_func(moments, 'moment')
        g = T.raise_guards(fn)
        if len(g) != 1:
            raise U('moment: expected one argument guard')
        return ('/-- `moments.moment`: the argument guard that raises -/\n'
                f'def momentRejects (order : F) : Prop := {T.cmp_guard(g[0], T.Tr(env={"order": "order"}))}')
    o.formula('moments.moment.guard', moment_guard)

    # ---- C14: per-entry EM updates ------------------------------------------------------------------
    node = T.parse_file(repo, 'deeprob/spn/structure/node.py')
    cltree = T.parse_file(repo, 'deeprob/spn/structure/cltree.py')
    em = T.parse_file(repo, 'deeprob/spn/learning/em.py')

    def em_formula(name, tree, qual, syms, outs, doc):
        """run `qual` symbolically under the element-wise reading `syms`; emit one def per (lean name, args, target)"""
        def mk():
            fn = T.find_func(tree, qual)
            tr = T.Tr(syms=syms, name_hook=lambda k: tr.env.get(k + '[i]'))
            tr.run(fn)
            res = []
            for lean_name, args, target in outs:
                body = tr.value_of(target, qual + ' ' + target)
                res.append(f'/-- `{qual}`: {doc} — `{target}` -/\ndef {lean_name} ({args} : F) : F := {body}')
            return res
        o.formula(name, mk)

    em_formula('Sum.em_step', node, 'Sum.em_step',
               {'self.weights': 'w', 'np.sum(stats, axis=1)': 's', 'np.sum(unnorm_weights)': 'Z', 'step_size': 'eta'},
               [('sumEmUnnorm', 'w s', 'unnorm_weights'), ('sumEmNew', 'eta w s Z', 'self.weights')],
               'entry of child i; w = old weight, s = Σ_rows stats[i], Z = Σ_j unnorm_weights[j]')
    em_formula('Bernoulli.em_step', leaf, 'Bernoulli.em_step',
               {'self.p': 'p', 'np.dot(stats, data)': 'S1', 'np.sum(stats)': 'T', 'step_size': 'eta'},
               [('bernEmReest', 'S1 T', 'p'), ('bernEmNew', 'eta p S1 T', 'self.p')],
               'S1 = Σ stats·data, T = Σ stats')
    em_formula('Categorical.em_step', leaf, 'Categorical.em_step',
               {'self.probabilities': 'p', 'np.sum(stats[data == d])': 'Sd', 'np.sum(stats)': 'T',
                'len(self.categories)': 'K', 'step_size': 'eta'},
               [('catEmReest', 'Sd T K', 'probabilities[i]'), ('catEmNew', 'eta p Sd T K', 'self.probabilities')],
               'entry of category d; Sd = Σ_{data = d} stats, T = Σ stats, K = number of categories')
    em_formula('Gaussian.em_step.mean', leaf, 'Gaussian.em_step',
               {'self.mean': 'mu', 'self.stddev': 'sigma', 'np.sum(stats)': 'T', 'np.sum(stats * data)': 'Sx',
                'np.sum(stats * (data - mean) ** 2.0)': 'V', 'step_size': 'eta'},
               [('gaussEmTotal', 'T', 'total_stats'), ('gaussEmMeanReest', 'Sx T', 'mean'),
                ('gaussEmMeanNew', 'eta mu Sx T', 'self.mean')],
               'Sx = Σ stats·data, T = Σ stats')
    em_formula('BinaryCLT.em_step', cltree, 'BinaryCLT.em_step',
               {'np.sum(stats)': 'T', 'priors_stats': 'P', 'conditional_stats': 'C', 'priors[self.tree]': 'Pp',
                'np.sum(weighted_features * data[:, self.tree], axis=0)': 'C1',
                'np.exp(self.params)': 'old', 'np.sum(params, axis=2, keepdims=True)': 'Z', 'step_size': 'eta',
                'np.empty_like(self.params)': 'q'},
               [('cltEmPrior1', 'P T', 'priors[:,1]'), ('cltEmPrior0', 'P T', 'priors[:,0]'),
                ('cltEmCond1', 'C1', 'conditional_stats[:,1]'), ('cltEmCond0', 'P C1', 'conditional_stats[:,0]'),
                ('cltEmCell1', 'C T Pp', 'params[:,:,1]'), ('cltEmCell0', 'C T Pp', 'params[:,:,0]'),
                ('cltEmNew', 'eta old q Z', 'params')],
               'per CPT entry; P = Σ stats·x_i, C1 = Σ stats·x_i·x_pa(i), C = conditional_stats[i,b], '
               'Pp = priors[pa(i)][b], old = exp(self.params) entry, q = re-estimated entry, Z = row sum after mixing')

    # Gaussian standard deviation: whole formula (needs sqrt) and its two sqrt-free halves
    def gauss_std():
        fn = T.find_func(leaf, 'Gaussian.em_step')
        syms = {'self.mean': 'mu', 'self.stddev': 'sigma', 'np.sum(stats)': 'T', 'np.sum(stats * data)': 'Sx',
                'np.sum(stats * (data - mean) ** 2.0)': 'V', 'step_size': 'eta'}
        tr = T.Tr(syms=syms); tr.run(fn)
        whole = tr.value_of('self.stddev')
        sq = T.the(T.calls(fn, 'sqrt'), 'sqrt in Gaussian.em_step')
        arg = None
        # argument of the square root, with the names bound as they are at that statement
        tr3 = T.Tr(syms=syms)
        for s in fn.body:
            if any(c is sq for c in ast.walk(s)):
                arg = tr3.tr(sq.args[0]); break
            tr3.run_stmts([s])
        if arg is None:
            raise U('sqrt statement not found')
        tr4 = T.Tr(syms=dict(syms, **{ast.unparse(sq): 'r'})); tr4.run(fn)
        rest = tr4.value_of('self.stddev')
        return ['/-- `Gaussian.em_step`: new standard deviation; V = Σ stats·(data − mean)², T = Σ stats -/\n'
                f'def gaussEmStdNew (eta sigma V T : F) : F := {whole}',
                '/-- `Gaussian.em_step`: the argument of `np.sqrt` -/\n'
                f'def gaussEmStdArg (V T : F) : F := {arg}',
                '/-- `Gaussian.em_step`: new standard deviation as a function of the square root `r` -/\n'
                f'def gaussEmStdOf (eta sigma r : F) : F := {rest}']
    o.formula('Gaussian.em_step.stddev', gauss_std)

    # ---- C14: argument guards of expectation_maximization ----------------------------------------------
    def em_guards():
        fn = T.find_func(em, 'expectation_maximization')
        g = T.raise_guards(fn)
        tr = T.Tr(env={'num_iter': 'numIter', 'batch_perc': 'batchPerc', 'step_size': 'eta'})
        gs = [T.cmp_guard(x, tr) for x in g]
        if len(gs) != 3:
            raise U('expectation_maximization: expected three argument guards')
        return ('/-- `expectation_maximization`: the call is rejected iff one of these holds -/\n'
                f'def emRejects (numIter batchPerc eta : F) : Prop := {" ∨ ".join(gs)}')
    o.formula('em.guards', em_guards)

    # ---- C13: constructor guards and fit / EM clamps ---------------------------------------------------
    def gauss_ctor():
        fn = T.find_func(leaf, 'Gaussian.__init__')
        g = T.the(T.raise_guards(fn), 'Gaussian.__init__ guard')
        return ('/-- `Gaussian.__init__` raises iff -/\n'
                f'def gaussCtorRejects (stddev : F) : Prop := {T.cmp_guard(g, T.Tr(env={"stddev": "stddev"}))}')
    o.formula('Gaussian.__init__', gauss_ctor)

    def gauss_fit_clamp():
        fn = T.find_func(leaf, 'Gaussian.fit')
        v = T.assignments(fn, 'self.stddev')[-1]
        return ('/-- `Gaussian.fit`: the stored standard deviation as a function of the estimate -/\n'
                f'def gaussFitClamp (s : F) : F := {T.Tr(env={"self.stddev": "s"}).tr(v)}')
    o.formula('Gaussian.fit.clamp', gauss_fit_clamp)

    def gauss_em_clamp():
        fn = T.find_func(leaf, 'Gaussian.em_step')
        v = T.assignments(fn, 'stddev')[-1]
        return ('/-- `Gaussian.em_step`: the clamp applied to the re-estimated standard deviation -/\n'
                f'def gaussEmClamp (s : F) : F := {T.Tr(env={"stddev": "s"}).tr(v)}')
    o.formula('Gaussian.em_step.clamp', gauss_em_clamp)

    def bern_ctor():
        fn = T.find_func(leaf, 'Bernoulli.__init__')
        g = T.the(T.raise_guards(fn), 'Bernoulli.__init__ guard')
        return ('/-- `Bernoulli.__init__` raises iff -/\n'
                f'def bernCtorRejects (p : F) : Prop := {T.cmp_guard(g, T.Tr(env={"p": "p"}))}')
    o.formula('Bernoulli.__init__', bern_ctor)

    def bern_fit():
        fn = T.find_func(leaf, 'Bernoulli.fit')
        v = T.the(T.assignments(fn, 'self.p'), 'Bernoulli.fit p')
        tr = T.Tr(syms={'np.sum(data)': 'n1', 'len(data)': 'n', 'alpha': 'alpha'})
        return ('/-- `Bernoulli.fit`: Laplace-smoothed estimate; n1 = number of ones, n = number of rows -/\n'
                f'def bernFit (n1 n alpha : F) : F := {tr.tr(v)}')
    o.formula('Bernoulli.fit', bern_fit)

    def cat_fit():
        fn = T.find_func(leaf, 'Categorical.fit')
        v = T.the(T.assignments(fn, 'self.probabilities[i]'), 'Categorical.fit probabilities[i]')
        tr = T.Tr(syms={'len(data[data == d])': 'nd', 'len(data)': 'n', 'len(domain)': 'K', 'alpha': 'alpha'})
        return ('/-- `Categorical.fit`: Laplace-smoothed estimate of one category -/\n'
                f'def catFit (nd n K alpha : F) : F := {tr.tr(v)}')
    o.formula('Categorical.fit', cat_fit)

    def sum_guard(name, tree, qual, arg, lean):
        def mk():
            fn = T.find_func(tree, qual)
            gs = [g for g in T.raise_guards(fn) if 'isclose' in ast.unparse(g)]
            g = T.the(gs, qual + ' isclose guard')
            tr = T.Tr(syms={f'np.sum({arg})': 'total'})
            return (f'/-- `{qual}` raises iff (total = Σ {arg}) -/\n'
                    f'def {lean} (total : F) : Prop := {T.cmp_guard(g, tr)}')
        o.formula(name, mk)
    sum_guard('Sum.__init__', node, 'Sum.__init__', 'weights', 'sumCtorRejects')
    sum_guard('Categorical.__init__', leaf, 'Categorical.__init__', 'probabilities', 'catCtorRejects')
    sum_guard('Isotonic.__init__', leaf, 'Isotonic.__init__', 'densities', 'isoCtorRejects')

    # ---- C13: rounding digits of the JSON writer ----------------------------------------------------------
    io = T.parse_file(repo, 'deeprob/spn/structure/io.py')
    def json_digits():
        ds = set()
        for q in ('spn_to_digraph', 'binary_clt_to_digraph'):
            fn = T.find_func(io, q)
            for c in T.calls(fn, 'round') + T.calls(fn, 'around'):
                if len(c.args) == 2:
                    ds.add(T.const_value(c.args[1]))
                else:
                    raise U('rounding call without digits in ' + q)
        d = T.the(sorted(ds), 'rounding digits of the JSON writer')
        return f'/-- `io.spn_to_digraph` / `binary_clt_to_digraph`: decimals kept by every `round` / `np.around` -/\ndef jsonDigits : Nat := {d.numerator}'
    o.const('jsonDigits', json_digits)

    # ---- C05: re-queue discipline of LearnSPN's single-slice branches ----------------------------------
    def requeue():
        learnspn = T.parse_file(repo, 'deeprob/spn/learning/learnspn.py')
        fn = T.find_func(learnspn, 'learn_spn')
        found = []
        for st in T.walk_stmts(fn):
            if isinstance(st, ast.If) and 'len(slices)==1' in ast.unparse(st.test).replace(' ', ''):
                calls = [c for b in st.body for c in ast.walk(b) if isinstance(c, ast.Call) and (T.dotted_name(c.func) or '').startswith('tasks.')]
                names = [T.dotted_name(c.func).split('.')[-1] for c in calls]
                if len(names) != 1 or names[0] not in ('append', 'appendleft'):
                    raise U('single-slice branch does not re-queue with tasks.append / tasks.appendleft')
                found.append(names[0])
        if len(found) != 2:
            raise U(f'expected two single-slice branches in learn_spn, found {len(found)}')
        front = all(n == 'appendleft' for n in found)
        mixed = len(set(found)) > 1
        return ('/-- `learn_spn`: a task whose split returned a single slice is re-queued at the FRONT of the deque '
                '(`appendleft`) in both single-slice branches -/\n'
                f'def learnRequeueFront : Bool := {"true" if front else "false"}\n'
                f'def learnRequeueMixed : Bool := {"true" if mixed else "false"}')
    o.const('learnspn.requeue', requeue)

    # =====================================================================================================
    # Structural choices (second, static tie of the hand-written A-layer models): DESIGN §2.3, Oblig/Struct*.lean
    # =====================================================================================================
    emit_struct(o, repo, T)


def _skip_prologue(T, fn, allowed):
    """top-level statements of `fn` without the docstring and without the statements whose (blank-free) text is listed
    in `allowed` (argument-defaulting prologues); everything else must be translated"""
    allowed = {a.replace(' ', '').replace('\n', '') for a in allowed}
    return [s for s in fn.body
            if not (isinstance(s, ast.Expr) and isinstance(s.value, ast.Constant))
            and ast.unparse(s).replace(' ', '').replace('\n', '') not in allowed]


def emit_struct(o, repo, T):
    U = T.Untranslatable
    NODE_ATTRS = {'id': ('nid', 'item'), 'children': ('children', ('list', 'obj')), 'weights': ('weights', ('list', 'w')),
                  'scope': ('scope', ('list', 'item'))}
    NODE_SIG = '{N W : Type} (nid : N → Nat) (children : N → List N) (weights : N → List W) (scope : N → List Nat)'
    NODES_PROLOGUE = ['if nodes is None: nodes = collect_nodes(root)']

    # ---- (g) C03: validity.py --------------------------------------------------------------------------
    validity = T.parse_file(repo, 'deeprob/spn/utils/validity.py')

    def is_labeled():
        fn = T.find_func(validity, 'is_labeled')
        tr = T.TrZ(env={'nodes': ('nodes', ('list', 'obj'))}, attrs=NODE_ATTRS,
                   syms={'None in ids': ('noneId', 'bool'), 'min(ids)': ('minId', 'int'), 'max(ids)': ('maxId', 'int')})
        body = tr.chain(_skip_prologue(T, fn, NODES_PROLOGUE))
        return ('/-- `validity.is_labeled` as coded: index of the first test that returns a reason (`none` = labelled); '
                '`noneId` = `None in ids`, `minId` = `min(ids)`, `maxId` = `max(ids)` -/\n'
                f'def isLabeledChain {NODE_SIG} (nodes : List N) (noneId : Bool) (minId maxId : Int) : Option Nat :=\n  {body}')
    o.const('validity.is_labeled', is_labeled)

    def per_node(qual, lean, listvar, cls_lean):
        def mk():
            fn = T.find_func(validity, qual)
            # which nodes are visited: `<listvar> = list(filter(lambda n: isinstance(n, K), nodes))`, looped over as `node`
            v = T.the(T.assignments(fn, listvar), f'{qual}: {listvar}')
            key = ast.unparse(v).replace(' ', '')
            pre, post = 'list(filter(lambdan:isinstance(n,', '),nodes))'
            if not (key.startswith(pre) and key.endswith(post)):
                raise U(f'{qual}: {listvar} is not list(filter(lambda n: isinstance(n, K), nodes))')
            cls = key[len(pre):-len(post)]
            loop = T.loop_over(fn, 'node', listvar)
            rest = [s for s in _skip_prologue(T, fn, NODES_PROLOGUE)
                    if s is not loop and not (isinstance(s, (ast.Assign, ast.AnnAssign)) and T.target_key(getattr(s, 'target', None) or s.targets[0]) == listvar)]
            if not (len(rest) == 1 and isinstance(rest[0], ast.Return) and ast.unparse(rest[0]) == 'return None'):
                raise U(f'{qual}: statements besides the filter, the loop and `return None`')
            tr = T.TrZ(env={'node': ('node', 'obj')}, attrs=NODE_ATTRS)
            body = tr.chain(loop.body)
            return (f'/-- `validity.{qual}`: class of the nodes it visits -/\n'
                    f'def {cls_lean} : String := {T.lean_str(cls)}\n'
                    f'/-- `validity.{qual}` as coded, on one visited node: index of the first test that returns a reason -/\n'
                    f'def {lean} {NODE_SIG} (node : N) : Option Nat :=\n  {body}')
        o.const('validity.' + qual, mk)
    per_node('is_smooth', 'isSmoothNode', 'sum_nodes', 'isSmoothClass')
    per_node('is_decomposable', 'isDecomposableNode', 'product_nodes', 'isDecomposableClass')

    def check_spn_order():
        fn = T.find_func(validity, 'check_spn')
        order = []
        for s in fn.body:
            if isinstance(s, ast.If) and isinstance(s.test, ast.Name):
                cs = [T.dotted_name(c.func) for c in ast.walk(s) if isinstance(c, ast.Call) and (T.dotted_name(c.func) or '').startswith('is_')]
                rs = [x for x in ast.walk(s) if isinstance(x, ast.Raise)]
                if len(cs) != 1 or len(rs) != 1:
                    raise U('check_spn: a flag block without exactly one is_* call and one raise')
                order.append((s.test.id, cs[0]))
        items = ', '.join(f'({T.lean_str(a)}, {T.lean_str(b)})' for a, b in order)
        return ('/-- `validity.check_spn`: (flag, test) pairs in the order in which they are applied -/\n'
                f'def checkSpnOrder : List (String × String) := [{items}]')
    o.const('validity.check_spn', check_spn_order)

    # ---- (f) C08: evaluation.py — what the tasks of the two layer-parallel passes store, and under which lock ----
    evaluation = T.parse_file(repo, 'deeprob/spn/algorithms/evaluation.py')
    SHARED = ('masks', 'x', 'ls', 'lls')

    def top_down_stores():
        fn = T.find_func(evaluation, 'eval_top_down')
        task = T.nested_func(fn, 'eval_backward')
        sites = T.store_sites(task)
        # the lock is created once per call, outside the task function, by threading.Lock()
        pm = T.parent_map(fn)
        locks = [(st, v) for st in ast.walk(fn) if isinstance(st, ast.Assign) for t in st.targets
                 if T.target_key(t) == 'masks_lock' for v in [st.value]]
        kinds = [T.dotted_name(v.func) for _, v in locks if isinstance(v, ast.Call) and not any(
            isinstance(a, ast.Name) and a.id == 'masks_lock' for a in v.args)]
        outside = all(next(a for a in T.ancestors(fn, st, pm) + [fn] if isinstance(a, ast.FunctionDef)) is fn for st, _ in locks)
        once = all(not isinstance(a, (ast.For, ast.While)) for st, _ in locks for a in T.ancestors(fn, st, pm))
        kind = T.the(kinds, 'creation of masks_lock')
        items = ',\n   '.join(T.store_site_lean(d, 'n', SHARED) for d in sites)
        return ('/-- `eval_top_down.eval_backward` (the task run for every node of a layer): every store into a subscripted array -/\n'
                f'def topDownStores : List StoreSite :=\n  [{items}]\n'
                '/-- `eval_top_down`: how `masks_lock` is created; created in the body of `eval_top_down` itself (one lock per call, '
                'shared by all tasks), outside every loop -/\n'
                f'def topDownLockKind : String := {T.lean_str(kind)}\n'
                f'def topDownLockShared : Bool := {"true" if outside and once and locks else "false"}')
    o.const('evaluation.eval_top_down', top_down_stores)

    def bottom_up_stores():
        fn = T.find_func(evaluation, 'eval_bottom_up')
        task = T.nested_func(fn, 'eval_forward')
        sites = T.store_sites(task)
        items = ',\n   '.join(T.store_site_lean(d, 'n', SHARED) for d in sites)
        reads = sorted(set(T.load_sites(task, ('ls',))))
        loops = sorted({ast.unparse(g.target) + ' in ' + ast.unparse(g.iter) for c in ast.walk(task) if isinstance(c, (ast.ListComp, ast.GeneratorExp))
                        for g in c.generators if any(isinstance(x, ast.Subscript) and isinstance(x.value, ast.Name) and x.value.id == 'ls' for x in ast.walk(c.elt))})
        return ('/-- `eval_bottom_up.eval_forward` (the task run for every node of a layer): every store into a subscripted array -/\n'
                f'def bottomUpStores : List StoreSite :=\n  [{items}]\n'
                '/-- `eval_forward`: the rows of `ls` it reads, and the comprehension(s) they are read in -/\n'
                f'def bottomUpReads : List (String × String) := [{", ".join(f"({T.lean_str(a)}, {T.lean_str(i)})" for a, i in reads)}]\n'
                f'def bottomUpReadLoops : List String := {T.lean_list([T.lean_str(l) for l in loops])}')
    o.const('evaluation.eval_bottom_up', bottom_up_stores)

    # ---- (d) C16: region.py / layers/ratspn.py — region split, pad, unpad ------------------------------------
    region = T.parse_file(repo, 'deeprob/utils/region.py')
    ratspn_l = T.parse_file(repo, 'deeprob/spn/layers/ratspn.py')

    def region_split():
        fn = T.find_func(region, 'RegionGraph.random_layers')
        loop = T.loop_over(fn, 'r')
        appends = {'regions': [], 'partitions': []}
        lets = []
        for st in loop.body:
            if isinstance(st, ast.Expr) and isinstance(st.value, ast.Call) and isinstance(st.value.func, ast.Attribute) \
                    and st.value.func.attr == 'append' and isinstance(st.value.func.value, ast.Name) \
                    and st.value.func.value.id in appends and len(st.value.args) == 1:
                appends[st.value.func.value.id].append(st.value.args[0])
            else:
                lets.append(st)
        tr = T.TrZ(env={'r': ('r', ('list', 'item'))}, funcs={'sorted': ('sorted', None)}, transparent=('tolist',),
                   syms={'self.random_state.permutation(r)': ('permutation', ('list', 'item'))})
        regs, _ = T.let_block(tr, lets, ast.List(elts=appends['regions'], ctx=ast.Load()))
        part = T.the(appends['partitions'], 'partitions.append in random_layers')
        parts, pty = T.let_block(tr, lets, part)
        if pty != ('list', ('list', 'item')):
            raise U('partitions.append argument is not a tuple of regions')
        sig = '(sorted : List Nat → List Nat) (r permutation : List Nat) : List (List Nat)'
        return ('/-- `RegionGraph.random_layers`, one region `r` (`permutation` = `random_state.permutation(r)`): the regions '
                'appended to `regions`, in order -/\n'
                f'def regionSplitRegions {sig} :=\n  {regs}\n'
                '/-- … and the tuple appended to `partitions` -/\n'
                f'def regionSplitPartition {sig} :=\n  {parts}')
    o.const('region.random_layers', region_split)

    RG_SYMS = {'self.in_features': ('inFeatures', 'int'), 'self.rg_depth': ('rgDepth', 'int'), 'self.pad': ('pad', 'int')}

    def rat_pad():
        fn = T.find_func(ratspn_l, 'RegionGraphLayer.__init__')
        pad = T.the(T.assignments(fn, 'self.pad'), 'self.pad')
        dim = T.the(T.assignments(fn, 'self.dimension'), 'self.dimension')
        inp = T.the(T.assignments(fn, 'in_features_pad'), 'in_features_pad')
        tr = T.TrZ(syms=RG_SYMS)
        p = tr.as_int(tr.tr(pad))
        i = tr.as_int(tr.tr(inp))
        d = tr.child(in_features_pad=(f'({i})', 'int')).tr(dim)
        return ('/-- `RegionGraphLayer.__init__`: `self.pad` -/\n'
                f'def ratPad (inFeatures rgDepth : Int) : Int := {p}\n'
                '/-- `RegionGraphLayer.__init__`: `self.dimension` (with `in_features_pad` substituted) -/\n'
                f'def ratDim (inFeatures rgDepth pad : Int) : Int := {tr.as_int(d)}')
    o.const('ratspn.pad', rat_pad)

    def rat_unpad():
        fn = T.find_func(ratspn_l, 'RegionGraphLayer.unpad_samples')
        ifs = [st for st in fn.body if isinstance(st, ast.If)]
        st = T.the(ifs, 'if in unpad_samples')
        if st.orelse or len(st.body) != 1 or not isinstance(st.body[0], ast.Assign) or T.target_key(st.body[0].targets[0]) != 'samples':
            raise U('unpad_samples: the conditional is not `if <test>: samples = …`')
        r = T.the(T.returns(fn), 'return of unpad_samples')
        if ast.unparse(r) != 'samples':
            raise U('unpad_samples does not return samples')
        tr = T.TrZ(env={'samples': ('samples', ('list', 'val'))}, transparent=('view', 'reshape'),
                   syms=dict(RG_SYMS, **{'self.inv_pad_mask[idx_repetitions]': ('invPadRow', ('list', 'bool'))}))
        c = tr.as_bool(tr.tr(st.test))
        v, ty = tr.tr(st.body[0].value)
        if ty != ('list', 'val'):
            raise U('unpad_samples: selection is not a row of values')
        return ('/-- `RegionGraphLayer.unpad_samples` on one row, after the gather: `samples` = gathered row, `invPadRow` = '
                '`self.inv_pad_mask[idx_repetitions]` of that row -/\n'
                f'def ratUnpadRow {{β : Type}} (pad : Int) (samples : List β) (invPadRow : List Bool) : List β :=\n'
                f'  if {c} then {v} else samples')
    o.const('ratspn.unpad_samples', rat_unpad)

    # ---- (i) C09 / C10: structure.py — single-child collapses of `prune`, argument guards of `marginalize` ------------
    structure = T.parse_file(repo, 'deeprob/spn/algorithms/structure.py')

    def collapse_of(st, listname, what):
        """`if len(<listname>) == 1: nodes_map[node.id] = <listname>[0]` as `Option`-valued Lean text"""
        body = [b for b in st.body if not isinstance(b, ast.Continue)]
        if not (len(body) == 1 and isinstance(body[0], ast.Assign) and T.target_key(body[0].targets[0]) == 'nodes_map[node.id]'):
            raise U(f'{what}: the branch does not just set nodes_map[node.id]')
        tr = T.TrZ(env={listname: (listname, ('list', 'item'))})
        c = tr.as_bool(tr.tr(st.test))
        v, ty = tr.tr(body[0].value)
        if ty != 'item':
            raise U(f'{what}: replacement is not an element of {listname}')
        return f'if {c} then some {v} else none'

    def prune_collapse():
        fn = T.find_func(structure, 'prune')
        loop = T.loop_over(fn, 'node')
        top = [st for st in loop.body if isinstance(st, ast.If) and 'children_nodes' in ast.unparse(st.test)]
        first = T.the(top, 'prune: test on children_nodes')
        # the Sum branch of the elif chain
        branch, cur = None, first
        while cur.orelse and len(cur.orelse) == 1 and isinstance(cur.orelse[0], ast.If):
            cur = cur.orelse[0]
            if ast.unparse(cur.test).replace(' ', '') == 'isinstance(node,Sum)':
                branch = cur
        if branch is None:
            raise U('prune: no `elif isinstance(node, Sum)` branch')
        idx = [k for k, st in enumerate(branch.body) if isinstance(st, ast.Assign)
               and ast.unparse(st).replace(' ', '') == 'children,weights=zip(*children_weights.items())']
        k = T.the(idx, 'prune: children, weights = zip(*children_weights.items())')
        after = branch.body[k + 1:]
        if not (after and isinstance(after[0], ast.If) and not after[0].orelse):
            raise U('prune: no test directly after the merge of the Sum branch')
        test = after[0]
        ends_continue = isinstance(test.body[-1], ast.Continue)
        stores = [ast.unparse(t) for st in after[1:] if isinstance(st, ast.Assign) for t in st.targets]
        before = ends_continue and sorted(stores) == ['nodes_map[node.id].children', 'nodes_map[node.id].weights']
        return ('/-- `prune`, any inner node: the replacement `nodes_map[node.id]` chosen from the retrieved `children_nodes` -/\n'
                f'def pruneSingleChild (children_nodes : List Nat) : Option Nat :=\n  {collapse_of(first, "children_nodes", "prune")}\n'
                '/-- `prune`, Sum branch, directly after `children, weights = zip(*children_weights.items())`: the replacement chosen '
                'from the merged `children` -/\n'
                f'def pruneMergedSingle (children : List Nat) : Option Nat :=\n  {collapse_of(test, "children", "prune (Sum)")}\n'
                '/-- … that branch ends with `continue` and is followed only by the stores of `.weights` and `.children` -/\n'
                f'def pruneMergedSingleSkipsRewrite : Bool := {"true" if before else "false"}')
    o.const('structure.prune', prune_collapse)

    def marg_guards():
        fn = T.find_func(structure, 'marginalize')
        stmts = _skip_prologue(T, fn, [])
        prefix = []
        for st in stmts:
            if (isinstance(st, ast.Assign) and isinstance(st.targets[0], ast.Name)) or \
                    (isinstance(st, ast.If) and len(st.body) == 1 and isinstance(st.body[0], ast.Raise)):
                prefix.append(st)
            else:
                break
        if len(T.raise_guards(fn)) and len([st for st in prefix if isinstance(st, ast.If)]) == 0:
            raise U('marginalize: no leading argument guards')
        tr = T.TrZ(env={'keep_scope': ('keep_scope', ('list', 'item'))}, syms={'root.scope': ('rootScope', ('list', 'item'))})
        return ('/-- `structure.marginalize`: the leading argument guards (index of the first one that raises) -/\n'
                f'def margGuardChain (keep_scope rootScope : List Nat) : Option Nat :=\n  {tr.chain(prefix)}')
    o.const('structure.marginalize.guards', marg_guards)

    # ---- (h) C06: inference.sum_mpe, Bernoulli.mpe, Categorical.mpe ------------------------------------------------
    inference = T.parse_file(repo, 'deeprob/spn/algorithms/inference.py')
    leaf = T.parse_file(repo, 'deeprob/spn/structure/leaf.py')

    def sum_mpe_parts():
        fn = T.find_func(inference, 'sum_mpe')
        r = T.the(T.returns(fn), 'return of sum_mpe')
        f, arg, axis, other = T.reduction_call(r)
        if other:
            raise U('sum_mpe: unexpected keywords ' + str(other))
        # what is reduced: the argument, with the assignments of the body substituted, read per (row, child) entry
        tr = T.Tr(syms={'lls': 'll', 'node.weights': 'w'})
        tr.run_stmts([st for st in fn.body if not isinstance(st, ast.Return)])
        score = tr.tr(ast.parse(arg, mode='eval').body)
        return (f, axis, score)

    def sum_mpe_const():
        f, axis, _ = sum_mpe_parts()
        return ('/-- `inference.sum_mpe`: the reduction that picks the branch and its axis (`lls` has one row per sample, one column per child) -/\n'
                f'def sumMpeSelector : String := {T.lean_str(f)}\n'
                f'def sumMpeAxis : Option Int := {T.lean_opt_int(axis)}')
    o.const('inference.sum_mpe.selector', sum_mpe_const)

    def sum_mpe_formula():
        _, _, score = sum_mpe_parts()
        return ('/-- `inference.sum_mpe`: the entry reduced for one child; ll = log-value of the child, w = its weight -/\n'
                f'def sumMpeScore (ll w : F) : F := {score}')
    o.formula('inference.sum_mpe.score', sum_mpe_formula)

    def bern_mpe():
        fn = T.find_func(leaf, 'Bernoulli.mpe')
        v = T.the(T.assignments(fn, 'x[mask]'), 'Bernoulli.mpe fill value')
        m = T.the(T.assignments(fn, 'mask'), 'Bernoulli.mpe mask')
        if ast.unparse(m).replace(' ', '') != 'np.isnan(x)':
            raise U('Bernoulli.mpe: mask is not np.isnan(x)')
        return ('/-- `Bernoulli.mpe`: the value written into the missing entries -/\n'
                f'def bernMpe (p : F) : F := {T.Tr(env={"self.p": "p"}).tr(v)}')
    o.formula('Bernoulli.mpe', bern_mpe)

    def cat_mpe():
        fn = T.find_func(leaf, 'Categorical.mpe')
        v = T.the(T.assignments(fn, 'x[mask]'), 'Categorical.mpe fill value')
        m = T.the(T.assignments(fn, 'mask'), 'Categorical.mpe mask')
        if ast.unparse(m).replace(' ', '') != 'np.isnan(x)':
            raise U('Categorical.mpe: mask is not np.isnan(x)')
        if not isinstance(v, ast.Subscript):
            raise U('Categorical.mpe: fill value is not <table>[<index>]')
        f, arg, axis, other = T.reduction_call(v.slice)
        if other:
            raise U('Categorical.mpe: unexpected keywords')
        return ('/-- `Categorical.mpe`: the missing entries receive `<catMpeTable>[<catMpeSelector>(<catMpeArg>)]` -/\n'
                f'def catMpeTable : String := {T.lean_str(ast.unparse(v.value))}\n'
                f'def catMpeSelector : String := {T.lean_str(f)}\n'
                f'def catMpeArg : String := {T.lean_str(arg)}\n'
                f'def catMpeAxis : Option Int := {T.lean_opt_int(axis)}')
    o.const('Categorical.mpe', cat_mpe)

    # ---- (j) C02 / C06 / C07 / C12: cltree.py — reductions of message_passing, normalisation in sample, result of to_pc ----
    cltree = T.parse_file(repo, 'deeprob/spn/structure/cltree.py')

    def clt_reductions():
        fn = T.find_func(cltree, 'BinaryCLT.message_passing')
        rows = []
        for d in T.store_sites(fn, ('messages', 'lls')):
            cond = next((t for t in d['tests'] if t.replace(' ', '').startswith('reduce==')), '')
            try:
                f, arg, axis, other = T.reduction_call(d['rhs'])
                if other:
                    raise U('message_passing: reduction with keywords ' + str(other))
            except U:
                f, axis = '', None          # not a reduction: an element-wise sum of log-values
                if not (isinstance(d['rhs'], ast.BinOp) and isinstance(d['rhs'].op, ast.Add)):
                    raise U('message_passing: store that is neither a reduction nor a sum: ' + ast.unparse(d['stmt']))
            rows.append('(%s, %s, %s, %s, %s, %s)' % (T.lean_str(cond), T.lean_str(d['array']), T.lean_str(d['index']),
                                                      T.lean_str(d['op']), T.lean_str(f), T.lean_opt_int(axis)))
        # every value `reduce` is compared with, and what happens otherwise
        return ('/-- `BinaryCLT.message_passing`: every store into `messages` / `lls`: (test on `reduce`, array, index, operator, '
                'reduction applied to the right-hand side ("" = element-wise sum of log-values), its axis) -/\n'
                'def cltMessageStores : List (String × String × String × String × String × Option Int) :=\n  ['
                + ',\n   '.join(rows) + ']')
    o.const('cltree.message_passing', clt_reductions)

    def clt_sample():
        fn = T.find_func(cltree, 'BinaryCLT.sample')
        norms = []
        for v in T.assignments(fn, 'log_probs'):
            if isinstance(v, ast.BinOp) and isinstance(v.op, ast.Sub):
                a, b = v.left, v.right
                if not (isinstance(a, ast.Subscript) and ast.unparse(a.value) == 'log_probs' and isinstance(a.slice, ast.Tuple)
                        and len(a.slice.elts) == 2 and ast.unparse(a.slice.elts[0]) == ':'):
                    raise U('sample: minuend is not log_probs[:, k]')
                k = int(T.const_value(a.slice.elts[1]))
                f, arg, axis, other = T.reduction_call(b)
                if arg != 'log_probs' or other:
                    raise U('sample: subtrahend is not a reduction of log_probs')
                norms.append((k, f, axis))
        srcs = [ast.unparse(v) for v in T.assignments(fn, 'log_probs') if not (isinstance(v, ast.BinOp) and isinstance(v.op, ast.Sub))]
        draws = [d for d in T.store_sites(fn, ('x',))]
        for d in draws:
            if ast.unparse(d['rhs']).replace(' ', '') != 'ss.bernoulli.rvs(np.exp(log_probs))':
                raise U('sample: a store into x is not ss.bernoulli.rvs(np.exp(log_probs))')
        pv = T.the(T.assignments(fn, 'obs_parent_values'), 'obs_parent_values')
        if isinstance(pv, ast.Call) and isinstance(pv.func, ast.Attribute) and pv.func.attr == 'astype':
            pv = pv.func.value
        mp = T.the([c for c in T.calls(fn, 'message_passing')], 'message_passing call in sample')
        kws = {k.arg: ast.unparse(k.value) for k in mp.keywords}
        tr = T.Tr(syms={'log_probs[:, 1]': 'lk', 'log_probs[:, 0]': 'lk', 'logsumexp(log_probs, axis=1)': 'lse'})
        return ('/-- `BinaryCLT.sample`: each `log_probs = log_probs[:, k] - f(log_probs, axis)`: (k, f, axis), in source order (root, then the loop) -/\n'
                f'def cltSampleNorm : List (Int × String × Option Int) := [{", ".join(f"({k}, {T.lean_str(f)}, {T.lean_opt_int(a)})" for k, f, a in norms)}]\n'
                '/-- … the un-normalised `log_probs` they start from -/\n'
                f'def cltSampleLogits : List String := {T.lean_list([T.lean_str(x) for x in srcs])}\n'
                '/-- … where the drawn Bernoulli values are stored, the parent values read, and the `reduce` mode of the messages -/\n'
                f'def cltSampleStores : List String := {T.lean_list([T.lean_str(d["index"]) for d in draws])}\n'
                f'def cltSampleParentValues : String := {T.lean_str(ast.unparse(pv))}\n'
                f'def cltSampleReduce : String := {T.lean_str(kws.get("reduce", ""))}')
    o.const('cltree.sample', clt_sample)

    def clt_sample_formula():
        fn = T.find_func(cltree, 'BinaryCLT.sample')
        vs = [v for v in T.assignments(fn, 'log_probs') if isinstance(v, ast.BinOp) and isinstance(v.op, ast.Sub)]
        tr = T.Tr(syms={'log_probs[:, 1]': 'lk', 'logsumexp(log_probs, axis=1)': 'lse'})
        ts = {tr.tr(v) for v in vs}
        body = T.the(sorted(ts), 'normalisation formula of sample')
        draws = {ast.unparse(d['rhs']) for d in T.store_sites(fn, ('x',))}
        tr2 = T.Tr(syms={'log_probs': 'lp'}, call_hook=lambda t, c: t.tr(c.args[0]) if (T.dotted_name(c.func) or '').endswith('bernoulli.rvs') and len(c.args) == 1 and not c.keywords else None)
        p = T.the(sorted({tr2.tr(ast.parse(x, mode='eval').body) for x in draws}), 'Bernoulli parameter of sample')
        return ['/-- `BinaryCLT.sample`: normalised log-probability; lk = `log_probs[:, 1]`, lse = `logsumexp(log_probs, axis=1)` -/\n'
                f'def cltSampleLogProb (lk lse : F) : F := {body}',
                '/-- `BinaryCLT.sample`: the parameter handed to `ss.bernoulli.rvs`, as a function of the normalised log-probability -/\n'
                f'def cltSampleBernParam (lp : F) : F := {p}']
    o.formula('cltree.sample.formula', clt_sample_formula)

    def clt_to_pc():
        fn = T.find_func(cltree, 'BinaryCLT.to_pc')
        r = T.the(T.returns(fn), 'return of to_pc')
        if not (isinstance(r, ast.Call) and T.dotted_name(r.func) == 'assign_ids' and len(r.args) == 1):
            raise U('to_pc does not return assign_ids(<node>)')
        tr = T.Tr()
        v = r.args[0]
        if isinstance(v, ast.Name):
            v = T.the(T.assignments(fn, v.id), 'to_pc: ' + v.id)
        if not (isinstance(v, ast.Subscript) and isinstance(v.value, ast.Name)):
            raise U('to_pc: returned node is not <buffer>[k]')
        buf, k = v.value.id, int(T.const_value(v.slice))
        rows, prods = [], []
        for c in ast.walk(fn):
            if isinstance(c, ast.Call) and isinstance(c.func, ast.Attribute) and c.func.attr == 'append' and isinstance(c.func.value, ast.Name) \
                    and c.func.value.id.endswith('_buffer'):
                a = T.the(c.args, 'argument of append')
                kw = {x.arg: x.value for x in a.keywords} if isinstance(a, ast.Call) and T.dotted_name(a.func) == 'Sum' else None
                if not kw or set(kw) != {'children', 'weights'} or not isinstance(kw['weights'], ast.Subscript):
                    raise U('to_pc: buffer element is not Sum(children=…, weights=<w>[k])')
                rows.append((c.lineno, c.func.value.id, ast.unparse(kw['children']), ast.unparse(kw['weights'].value), int(T.const_value(kw['weights'].slice))))
        for name in ('neg_prod', 'pos_prod'):
            p = T.the(T.assignments(fn, name), name)
            kw = {x.arg: x.value for x in p.keywords} if isinstance(p, ast.Call) and T.dotted_name(p.func) == 'Product' else None
            ch = kw and kw.get('children')
            if not (isinstance(ch, ast.BinOp) and isinstance(ch.op, ast.Add) and isinstance(ch.left, ast.List) and len(ch.left.elts) == 1
                    and isinstance(ch.left.elts[0], ast.Subscript) and ast.unparse(ch.left.elts[0].value) == 'leaves'
                    and isinstance(ch.right, ast.Subscript) and isinstance(ch.right.value, ast.Name)):
                raise U(f'to_pc: {name} is not Product(children=[leaves[k]] + <buffer>[…])')
            prods.append((name, int(T.const_value(ch.left.elts[0].slice)), ch.right.value.id))
        sc = [ast.unparse(x) for x in T.assignments(fn, 'sum_children')]
        lv = T.the([x for x in T.assignments(fn, 'leaves')], 'leaves')
        ps = [float(T.const_value(kw.value)) for el in lv.elts for kw in el.keywords if kw.arg == 'p'] if isinstance(lv, ast.List) else None
        if ps is None or len(ps) != 2:
            raise U('to_pc: leaves is not a pair of Bernoulli(…, p=<const>)')
        rows.sort()
        return ('/-- `BinaryCLT.to_pc`: the node returned (through `assign_ids`) is `<buffer>[k]` -/\n'
                f'def toPcReturnBuffer : String := {T.lean_str(buf)}\n'
                f'def toPcReturnIndex : Int := {k}\n'
                '/-- … each `<buffer>.append(Sum(children=<children>, weights=<w>[row]))`: (buffer, children, w, row) -/\n'
                'def toPcBufferRows : List (String × String × String × Int) := ['
                + ', '.join(f'({T.lean_str(b)}, {T.lean_str(c)}, {T.lean_str(w)}, {r})' for _, b, c, w, r in rows) + ']\n'
                '/-- … `<prod> = Product(children=[leaves[k]] + <buffer>[…])`: (prod, k, buffer); `sum_children` alternatives; `p` of `leaves[0]`, `leaves[1]` -/\n'
                'def toPcProducts : List (String × Int × String) := ['
                + ', '.join(f'({T.lean_str(a)}, {b}, {T.lean_str(c)})' for a, b, c in prods) + ']\n'
                f'def toPcSumChildren : List String := {T.lean_list([T.lean_str(x) for x in sc])}\n'
                f'def toPcLeafP : List Int := [{int(ps[0])}, {int(ps[1])}]')
    o.const('cltree.to_pc', clt_to_pc)

    # ---- (k) C11: statistics.estimate_priors_joints — smoothing formulas ------------------------------------------------
    statistics = T.parse_file(repo, 'deeprob/utils/statistics.py')

    def priors_joints():
        fn = T.find_func(statistics, 'estimate_priors_joints')
        syms = {'counts_features': 'c', 'n_samples': 'n', 'alpha': 'alpha', 'counts_cols': 'cj', 'counts_rows': 'ci',
                'counts_ones': 'cij'}
        tr = T.Tr(syms=syms)
        tr.run_stmts([st for st in fn.body if not isinstance(st, ast.Return)])
        res = []
        for lean, tgt, doc in (('priorOne', 'priors[:,1]', 'P(X_i = 1)'), ('priorZero', 'priors[:,0]', 'P(X_i = 0)')):
            res.append(f'/-- `estimate_priors_joints`: `{tgt}` — {doc}; c = `counts_features[i]`, n = `n_samples` -/\n'
                       f'def {lean} (c n alpha : F) : F := {tr.value_of(tgt)}')
        for a in (0, 1):
            for b in (0, 1):
                res.append(f'/-- `estimate_priors_joints`: `joints[:, :, {a}, {b}]` before smoothing; cj = `counts_cols[i, j]`, '
                           f'ci = `counts_rows[i, j]`, cij = `counts_ones[i, j]` -/\n'
                           f'def jointCell{a}{b} (n cj ci cij : F) : F := {tr.value_of(f"joints[:,:,{a},{b}]")}')
        sm = []
        for v in T.assignments(fn, 'joints'):
            try:
                sm.append(T.Tr(syms=syms, env={'joints': 'cell'}).tr(v))
            except U:
                pass
        res.append('/-- `estimate_priors_joints`: `joints = (joints + alpha) / (n_samples + 4 * alpha)` on one cell -/\n'
                   f'def jointSmooth (cell n alpha : F) : F := {T.the(sm, "smoothing of joints")}')
        tr2 = T.Tr(syms=dict(syms, **{'priors[:, 0]': 'p0', 'priors[:, 1]': 'p1'}))
        for a in (0, 1):
            for b in (0, 1):
                v = T.the(T.assignments(fn, f'joints[idx_features,idx_features,{a},{b}]'), f'diagonal correction {a}{b}')
                res.append(f'/-- `estimate_priors_joints`: `joints[i, i, {a}, {b}]` after the diagonal correction; p0, p1 = `priors[i]` -/\n'
                           f'def jointDiag{a}{b} (p0 p1 : F) : F := {tr2.tr(v)}')
        idx = T.the(T.assignments(fn, 'idx_features'), 'idx_features')
        if ast.unparse(idx).replace(' ', '') != 'np.arange(n_features)':
            raise U('idx_features is not np.arange(n_features)')
        g = T.the(T.raise_guards(fn), 'estimate_priors_joints guard')
        res.append('/-- `estimate_priors_joints` raises iff -/\n'
                   f'def priorsJointsRejects (alpha : F) : Prop := {T.cmp_guard(g, T.Tr(env={"alpha": "alpha"}))}')
        return res
    o.formula('statistics.estimate_priors_joints', priors_joints)

    # ---- (a) C15: autoregressive.py — MADE masks and sequential degrees -----------------------------------------------
    autoreg = T.parse_file(repo, 'deeprob/flows/layers/autoregressive.py')

    def made_masks():
        fn = T.find_func(autoreg, 'AutoregressiveLayer.build_masks')
        apps = [c for c in ast.walk(fn) if isinstance(c, ast.Call) and isinstance(c.func, ast.Attribute) and c.func.attr == 'append'
                and ast.unparse(c.func.value) == 'masks']
        apps.sort(key=lambda c: c.lineno)
        if len(apps) != 2:
            raise U(f'build_masks: expected two masks.append, found {len(apps)}')
        loop = T.the([st for st in fn.body if isinstance(st, ast.For)], 'loop of build_masks')
        if not any(apps[0] is c for c in ast.walk(loop)) or any(apps[1] is c for c in ast.walk(loop)):
            raise U('build_masks: the first append is not in the loop / the second one is')
        it = loop.iter
        if not (isinstance(it, ast.Call) and T.dotted_name(it.func) == 'zip' and len(it.args) == 2
                and isinstance(loop.target, ast.Tuple) and len(loop.target.elts) == 2):
            raise U('build_masks: loop is not `for (a, b) in zip(x, y)`')
        loopsrc = {loop.target.elts[k].id: ast.unparse(it.args[k]) for k in (0, 1)}

        def operand(stmts, name, src0):
            """the last `name = np.expand_dims(<src>, axis=k)` of `stmts` -> (source, k)"""
            vs = [st.value for st in stmts if isinstance(st, ast.Assign) and T.target_key(st.targets[0]) == name]
            if not vs:
                raise U(f'build_masks: {name} is not expanded')
            v = vs[-1]
            if not (isinstance(v, ast.Call) and (T.dotted_name(v.func) or '').split('.')[-1] in ('expand_dims', 'unsqueeze') and v.args):
                raise U(f'build_masks: {name} is not an expand_dims')
            ax = [kw.value for kw in v.keywords if kw.arg in ('axis', 'dim')] or list(v.args[1:2])
            src = ast.unparse(v.args[0])
            return src0.get(src, src), int(T.const_value(T.the(ax, 'axis of expand_dims')))

        out = []
        for call, stmts, src0, lean in ((apps[0], loop.body, loopsrc, 'Hidden'), (apps[1], [st for st in fn.body if st is not loop], {}, 'Output')):
            cmpc = T.the(call.args, 'argument of masks.append')
            if isinstance(cmpc, ast.Call) and len(cmpc.args) == 2 and all(isinstance(a, ast.Name) for a in cmpc.args):
                names = list(cmpc.args)
            elif isinstance(cmpc, ast.Compare) and len(cmpc.ops) == 1 and isinstance(cmpc.left, ast.Name) and isinstance(cmpc.comparators[0], ast.Name):
                names = [cmpc.left, cmpc.comparators[0]]
            else:
                raise U('build_masks: appended value is not a comparison of two names')
            ops = [operand(stmts, a.id, src0) for a in names]
            if sorted(k for _, k in ops) != [0, 1]:
                raise U('build_masks: operands are not expanded along axes 0 and 1')
            env = {a.id: ('a' if k == 0 else 'b', 'int') for a, (_, k) in zip(names, ops)}
            body = T.TrZ(env=env).as_bool(T.TrZ(env=env).tr(cmpc))
            by_axis = dict((k, srcx) for srcx, k in ops)
            out.append(f'/-- `build_masks`, {lean.lower()} mask: entry `[o][i]`; a = entry `i` of the operand expanded along axis 0 (`{by_axis[0]}`), '
                       f'b = entry `o` of the operand expanded along axis 1 (`{by_axis[1]}`) -/\n'
                       f'def made{lean}Entry (a b : Int) : Bool := {body}\n'
                       f'def made{lean}Operands : String × String := ({T.lean_str(by_axis[0])}, {T.lean_str(by_axis[1])})')
        return '\n'.join(out)
    o.const('autoregressive.build_masks', made_masks)

    def made_degrees():
        fn = T.find_func(autoreg, 'AutoregressiveLayer.build_degrees_sequential')
        tr = T.TrZ(syms={'self.in_features': ('inFeatures', 'int')}, env={'units': ('units', 'int')})
        apps = [(c, [a for a in T.ancestors(fn, c)]) for c in ast.walk(fn) if isinstance(c, ast.Call) and isinstance(c.func, ast.Attribute)
                and c.func.attr == 'append' and ast.unparse(c.func.value) == 'degrees']
        apps.sort(key=lambda p: p[0].lineno)
        if len(apps) != 3:
            raise U('build_degrees_sequential: expected three degrees.append')
        iff = T.the([st for st in fn.body if isinstance(st, ast.If)], 'if of build_degrees_sequential')
        if ast.unparse(iff.test) != 'reverse':
            raise U('build_degrees_sequential: the test is not `reverse`')
        rev = T.the([c for c, _ in apps if any(c is x for st in iff.body for x in ast.walk(st))], 'append under reverse')
        fwd = T.the([c for c, _ in apps if any(c is x for st in iff.orelse for x in ast.walk(st))], 'append under not reverse')
        hid, anc = T.the([(c, a) for c, a in apps if c is not rev and c is not fwd], 'hidden append')
        loop = T.the([a for a in anc if isinstance(a, ast.For)], 'loop of the hidden append')
        if ast.unparse(loop.iter).replace(' ', '') != 'range(depth)':
            raise U('build_degrees_sequential: hidden degrees are not appended `depth` times')
        h = hid.args[0]
        if not (isinstance(h, ast.BinOp) and isinstance(h.left, ast.Call)):
            raise U('build_degrees_sequential: hidden degrees are not <arange> op <expr>')
        ha = T.arange_args(h.left, tr)
        helem = T.TrZ(syms=dict(tr.syms_src(), **{ast.unparse(h.left): ('k', 'int')})).tr(h)
        def trip(c):
            a = T.arange_args(c.args[0], tr)
            return f'({a[0]}, {a[1]}, {a[2]})'
        return ('/-- `build_degrees_sequential`: bounds `(start, stop, step)` of the `np.arange` giving `degrees[0]`, for `reverse` / not `reverse` -/\n'
                f'def madeInputArangeRev (inFeatures : Int) : Int × Int × Int := {trip(rev)}\n'
                f'def madeInputArangeFwd (inFeatures : Int) : Int × Int × Int := {trip(fwd)}\n'
                '/-- … bounds of the `np.arange` the hidden degrees are computed from, and the hidden degree of its entry `k` (appended `depth` times) -/\n'
                f'def madeHiddenArange (units : Int) : Int × Int × Int := ({ha[0]}, {ha[1]}, {ha[2]})\n'
                f'def madeHiddenDegree (k inFeatures : Int) : Int := {tr.as_int(helem)}')
    o.const('autoregressive.build_degrees_sequential', made_degrees)

    # ---- (b) C15: flows/utils.py — squeeze / unsqueeze as reshape, permute, reshape ------------------------------------
    futils = T.parse_file(repo, 'deeprob/flows/utils.py')

    def depth2d(qual, lean):
        def mk():
            fn = T.find_func(futils, qual)
            sz = T.the([st for st in fn.body if isinstance(st, ast.Assign) and isinstance(st.targets[0], ast.Tuple)], f'{qual}: size unpacking')
            names = [e.id for e in sz.targets[0].elts]
            if ast.unparse(sz.value).replace(' ', '') not in ('x.size()', 'x.shape') or len(names) != 4:
                raise U(f'{qual}: sizes are not `n, c, h, w = x.size()`')
            steps = T.assignments(fn, 'x')
            if [ast.unparse(r) for r in T.returns(fn)] != ['x']:
                raise U(f'{qual}: does not return x')
            kinds = [(v.func.attr if isinstance(v, ast.Call) and isinstance(v.func, ast.Attribute) and ast.unparse(v.func.value) == 'x' else None) for v in steps]
            if [('reshape' if k == 'view' else k) for k in kinds] != ['reshape', 'permute', 'reshape']:
                raise U(f'{qual}: steps are not x.reshape, x.permute, x.reshape but {kinds}')
            tr = T.TrZ(env={nm: (nm, 'int') for nm in names})
            def shape(call):
                args = call.args[0].elts if len(call.args) == 1 and isinstance(call.args[0], (ast.Tuple, ast.List)) else call.args
                return T.lean_list([tr.as_int(tr.tr(a)) for a in args])
            perm = steps[1].args[0].elts if len(steps[1].args) == 1 and isinstance(steps[1].args[0], (ast.Tuple, ast.List)) else steps[1].args
            perm = [int(T.const_value(a)) for a in perm]
            sig = '(' + ' '.join(names) + ' : Int) : List Int'
            return (f'/-- `flows.utils.{qual}`: `x.reshape({lean}Shape).permute({lean}Perm).reshape({lean}OutShape)` with `{", ".join(names)} = x.size()` -/\n'
                    f'def {lean}Shape {sig} := {shape(steps[0])}\n'
                    f'def {lean}Perm : List Nat := {T.lean_list([str(k) for k in perm])}\n'
                    f'def {lean}OutShape {sig} := {shape(steps[2])}')
        o.const('flows.utils.' + qual, mk)
    depth2d('squeeze_depth2d', 'squeeze')
    depth2d('unsqueeze_depth2d', 'unsqueeze')

    # ---- (c) C15: RealNVP2d.build_permutation_matrix --------------------------------------------------------------------
    realnvp = T.parse_file(repo, 'deeprob/flows/models/realnvp.py')

    def perm_matrix():
        fns = [n for n in ast.walk(realnvp) if isinstance(n, ast.FunctionDef) and n.name == 'build_permutation_matrix']
        fn = T.the(fns, 'build_permutation_matrix')
        def nested(e):
            if isinstance(e, ast.List):
                return [nested(x) for x in e.elts]
            v = T.const_value(e)
            if v.denominator != 1:
                raise U('ordering entry is not an integer')
            return int(v)
        def lean_nested(v):
            return T.lean_list([lean_nested(x) for x in v]) if isinstance(v, list) else str(v)
        ordv = T.the(T.assignments(fn, 'ordering'), 'ordering')
        if not (isinstance(ordv, ast.Call) and (T.dotted_name(ordv.func) or '').split('.')[-1] in ('array', 'tensor') and ordv.args):
            raise U('ordering is not an array literal')
        ordering = nested(ordv.args[0])
        w0 = T.the(T.assignments(fn, 'weights'), 'weights')
        if not (isinstance(w0, ast.Call) and (T.dotted_name(w0.func) or '').split('.')[-1] == 'zeros'):
            raise U('weights does not start from zeros')
        tr = T.TrZ(env={'channels': ('channels', 'int'), 'i': ('i', 'int')})
        wshape = T.lean_list([tr.as_int(tr.tr(a)) for a in w0.args[0].elts])
        st = T.the(T.store_sites(fn, ('weights',)), 'store into weights')
        if st['op'] != '=' or ast.unparse(st['rhs']) != 'ordering' or st['loops'] != ['i in range(channels)']:
            raise U('weights block store is not `for i in range(channels): weights[…] = ordering`')
        sl = st['stmt'].targets[0].slice
        if not (isinstance(sl, ast.Tuple) and len(sl.elts) == 2 and all(isinstance(x, ast.Slice) and x.step is None and x.lower is not None and x.upper is not None for x in sl.elts)):
            raise U('weights block is not weights[a:b, c:d]')
        rows, cols = [(tr.as_int(tr.tr(x.lower)), tr.as_int(tr.tr(x.upper))) for x in sl.elts]
        pv = T.the(T.assignments(fn, 'permutation'), 'permutation')
        if isinstance(pv, ast.Call) and (T.dotted_name(pv.func) or '').split('.')[-1] in ('array', 'tensor') and len(pv.args) == 1:
            pv = pv.args[0]
        ptxt, pty = T.TrZ(env={'channels': ('channels', 'int')}).tr(pv)
        if pty != ('list', 'int'):
            raise U('permutation is not a list of integers')
        r = T.the(T.returns(fn), 'return of build_permutation_matrix')
        idx = [x for x in ast.walk(r) if isinstance(x, ast.Subscript)]
        ret = ast.unparse(T.the(idx, 'indexing in the returned value'))
        return ('/-- `RealNVP2d.build_permutation_matrix`: the `ordering` literal `[q][0][a][b]`, the shape of `weights` -/\n'
                f'def rnvpOrdering : List (List (List (List Int))) := {lean_nested(ordering)}\n'
                f'def rnvpWeightsShape (channels : Int) : List Int := {wshape}\n'
                '/-- … `weights[r0:r1, c0:c1] = ordering` for `i in range(channels)`: the row and column bounds -/\n'
                f'def rnvpBlockRows (i : Int) : Int × Int := ({rows[0]}, {rows[1]})\n'
                f'def rnvpBlockCols (i : Int) : Int × Int := ({cols[0]}, {cols[1]})\n'
                '/-- … the channel permutation, and what is returned -/\n'
                f'def rnvpPermutation (channels : Int) : List Int := {ptxt}\n'
                f'def rnvpReturned : String := {T.lean_str(ret)}')
    o.const('realnvp.build_permutation_matrix', perm_matrix)

    # ---- (e) C17: models/dgcspn.py layer schedule, layers/dgcspn.py padding amounts ------------------------------------
    dgc_m = T.parse_file(repo, 'deeprob/spn/models/dgcspn.py')
    dgc_l = T.parse_file(repo, 'deeprob/spn/layers/dgcspn.py')

    def dgc_schedule():
        fn = T.find_func(dgc_m, 'DgcSpn.__init__')
        loop = T.loop_over(fn, 'i')
        tr = T.TrZ(env={'i': ('i', 'int'), 'depth': ('depth', 'int')}, syms={'self.n_pooling': ('nPooling', 'int')})
        rng = T.arange_args(ast.Call(func=ast.Name(id='arange', ctx=ast.Load()), args=loop.iter.args, keywords=[]), tr) \
            if isinstance(loop.iter, ast.Call) and T.dotted_name(loop.iter.func) == 'range' else None
        if rng is None:
            raise U('DgcSpn.__init__: the layer loop is not over a range')
        first = loop.body[0]
        if not isinstance(first, ast.If):
            raise U('DgcSpn.__init__: the loop does not start with the pooling test')
        ctor = T.the([c for c in ast.walk(loop) if isinstance(c, ast.Call) and T.dotted_name(c.func) == 'SpatialProductLayer'], 'SpatialProductLayer call')
        kw = {k.arg: k.value for k in ctor.keywords}
        for name in ('padding', 'stride', 'dilation'):
            if ast.unparse(kw.get(name, ast.Constant(value=None))) != name:
                raise U(f'SpatialProductLayer is not called with {name}={name}')
        vals = {name: T.branch_value(tr, first, name) for name in ('padding', 'stride', 'dilation')}
        if vals['padding'][1] != 'str' or vals['stride'][1] != ('list', 'int') or vals['dilation'][1] != ('list', 'int'):
            raise U('DgcSpn.__init__: unexpected types of padding / stride / dilation')
        kernel = tr.tr(kw['kernel_size'])
        sums = [st for st in loop.body if isinstance(st, ast.If) and any(isinstance(c, ast.Call) and T.dotted_name(c.func) == 'SpatialSumLayer' for c in ast.walk(st))]
        sumif = T.the(sums, 'conditional SpatialSumLayer')
        order = [T.dotted_name(c.func) for st in loop.body for c in ast.walk(st) if isinstance(c, ast.Call) and T.dotted_name(c.func) in ('SpatialProductLayer', 'SpatialSumLayer')]
        sig = '(i nPooling depth : Int)'
        return ('/-- `DgcSpn.__init__`, loop over the inner layers: bounds of the `range`, then per level `i` the arguments of its '
                '`SpatialProductLayer` -/\n'
                f'def dgcLevels (depth : Int) : Int × Int × Int := ({rng[0]}, {rng[1]}, {rng[2]})\n'
                f'def dgcPadding {sig} : String := {vals["padding"][0]}\n'
                f'def dgcStride {sig} : List Int := {vals["stride"][0]}\n'
                f'def dgcDilation {sig} : List Int := {vals["dilation"][0]}\n'
                f'def dgcKernel : List Int := {kernel[0]}\n'
                f'def dgcDepthwiseArg : String := {T.lean_str(ast.unparse(kw["depthwise"]))}\n'
                '/-- … whether a `SpatialSumLayer` follows the product layer of level `i`, and the order of the two constructors -/\n'
                f'def dgcSumFollows (i depth : Int) : Bool := {tr.as_bool(tr.tr(sumif.test))}\n'
                f'def dgcLayerOrder : List String := {T.lean_list([T.lean_str(x) for x in order])}')
    o.const('dgcspn.schedule', dgc_schedule)

    def dgc_pads():
        fn = T.find_func(dgc_l, 'SpatialProductLayer.__init__')
        syms = {'self.dilation[0]': ('dilH', 'int'), 'self.dilation[1]': ('dilW', 'int'), 'self.in_height': ('inH', 'int'),
                'self.in_width': ('inW', 'int'), 'self.in_channels': ('inC', 'int'), 'self.stride[0]': ('strideH', 'int'),
                'self.stride[1]': ('strideW', 'int')}
        tr = T.TrZ(env={'kh': ('kh', 'int'), 'kw': ('kw', 'int')}, syms=syms)
        keh = tr.as_int(tr.tr(T.the(T.assignments(fn, 'keh'), 'keh')))
        kew = tr.as_int(tr.tr(T.the(T.assignments(fn, 'kew'), 'kew')))
        chain = T.the([st for st in fn.body if isinstance(st, ast.If) and ast.unparse(st.test).replace(' ', '').startswith('padding==')], 'padding cases')
        tr2 = T.TrZ(env={'padding': ('padding', 'str'), 'keh': ('keh', 'int'), 'kew': ('kew', 'int')}, syms=syms)
        pad, pty = T.cases_value(tr2, chain, 'self.pad')
        if pty != ('list', 'int'):
            raise U('self.pad is not a list of integers')
        tr3 = T.TrZ(env={'keh': ('keh', 'int'), 'kew': ('kew', 'int'), 'depthwise': ('depthwise', 'bool'), 'kh': ('kh', 'int'), 'kw': ('kw', 'int')},
                    syms=dict(syms, **{'self.pad': ('pad', ('list', 'int'))}))
        oh = T.assignments(fn, 'out_h'); ow = T.assignments(fn, 'out_w')
        if len(oh) != 2 or len(ow) != 2:
            raise U('out_h / out_w are not assigned twice')
        oh1 = tr3.as_int(tr3.child(out_h=(f'({tr3.as_int(tr3.tr(oh[0]))})', 'int')).tr(oh[1]))
        ow1 = tr3.as_int(tr3.child(out_w=(f'({tr3.as_int(tr3.tr(ow[0]))})', 'int')).tr(ow[1]))
        kd = tr3.as_int(tr3.tr(T.the(T.assignments(fn, 'kernel_dim'), 'kernel_dim')))
        oc = tr3.as_int(tr3.child(kernel_dim=(kd, 'int')).tr(T.the(T.assignments(fn, 'out_c'), 'out_c')))
        return ('/-- `SpatialProductLayer.__init__`: effective kernel sizes -/\n'
                f'def dgcKeh (kh dilH : Int) : Int := {keh}\n'
                f'def dgcKew (kw dilW : Int) : Int := {kew}\n'
                '/-- … `self.pad` (`F.pad` order: left, right, top, bottom); `none` = the constructor raises -/\n'
                f'def dgcPad (padding : String) (keh kew inH inW : Int) : Option (List Int) :=\n  {pad}\n'
                '/-- … output height / width / channels -/\n'
                f'def dgcOutH (pad : List Int) (inH keh strideH : Int) : Int := {oh1}\n'
                f'def dgcOutW (pad : List Int) (inW kew strideW : Int) : Int := {ow1}\n'
                f'def dgcOutC (depthwise : Bool) (inC kh kw : Int) : Int := {oc}')
    o.const('dgcspn.SpatialProductLayer', dgc_pads)
