"""The list of source fragments the translator extracts (what, from where) — see DESIGN.md §2.3."""
import ast


def emit(o, repo, T):
    U = T.Untranslatable
    leaf = T.parse_file(repo, 'deeprob/spn/structure/leaf.py')
    inference = T.parse_file(repo, 'deeprob/spn/algorithms/inference.py')
    sampling = T.parse_file(repo, 'deeprob/spn/algorithms/sampling.py')
    moments = T.parse_file(repo, 'deeprob/spn/algorithms/moments.py')

    # ---- C01: out-of-support constants of the histogram leaf, the log floor ------------------
    def iso_lik():
        fn = T.find_func(leaf, 'Isotonic.likelihood')
        v = T.the(T.assignments(fn, 'ls[ood_mask]'), 'Isotonic.likelihood ood assignment')
        return f'/-- `Isotonic.likelihood`: value outside the support -/\ndef isoOodLik : Rat := {T.q_lean(T.const_value(v))}'
    o.const('isoOodLik', iso_lik)

    def iso_loglik():
        fn = T.find_func(leaf, 'Isotonic.log_likelihood')
        v = T.the(T.assignments(fn, 'lls[ood_mask]'), 'Isotonic.log_likelihood ood assignment')
        if not (isinstance(v, ast.Call) and (T.dotted_name(v.func) or '').split('.')[-1] == 'log' and len(v.args) == 1):
            raise U('Isotonic.log_likelihood ood value is not log(<constant>)')
        return ('/-- `Isotonic.log_likelihood`: the out-of-support value is `log` of this constant -/\n'
                f'def isoOodLogLikArg : Rat := {T.q_lean(T.const_value(v.args[0]))}')
    o.const('isoOodLogLikArg', iso_loglik)

    def ll_floor():
        fn = T.find_func(inference, 'node_log_likelihood')
        c = T.the(T.calls(fn, 'maximum'), 'np.maximum in node_log_likelihood')
        return f'/-- `node_log_likelihood`: floor applied to every log-value -/\ndef llFloor : Rat := {T.q_lean(T.const_value(c.args[1]))}'
    o.const('llFloor', ll_floor)

    # ---- C07: noise law of sum_sample -----------------------------------------------------------
    def gumbel():
        fn = T.find_func(sampling, 'sum_sample')
        v = T.the(T.assignments(fn, 'gumbel'), 'gumbel noise in sum_sample')
        nm = T.dotted_name(v.func) if isinstance(v, ast.Call) else None
        if not nm or not nm.endswith('.rvs'):
            raise U('sum_sample noise is not a scipy rvs call')
        law = nm.split('.')[-2]
        args = [T.const_value(a) for a in v.args[:2]]
        return ('/-- `sum_sample`: SciPy law of the additive noise, location, scale -/\n'
                f'def sumSampleNoise : String := "{law}"\n'
                f'def sumSampleNoiseLoc : Rat := {T.q_lean(args[0])}\n'
                f'def sumSampleNoiseScale : Rat := {T.q_lean(args[1])}')
    o.const('sumSampleNoise', gumbel)

    # ---- C19: derived statistics as functions of the raw moments -----------------------------------
    def moment_hook(tr, call):
        nm = T.dotted_name(call.func)
        if nm == 'moment':
            ks = [kw.value for kw in call.keywords if kw.arg == 'order'] or call.args[1:2]
            k = T.const_value(T.the(ks, 'moment order'))
            if k.denominator != 1 or not (1 <= k <= 4):
                raise U('moment order outside 1..4')
            return f'm{k.numerator}'
        if nm in ('expectation',):
            return 'm1'
        if nm in ('variance',):
            return '(variance m1 m2 m3 m4)'
        return None

    for name in ('variance', 'skewness', 'kurtosis'):
        def mk(name=name):
            fn = T.find_func(moments, name)
            tr = T.Tr(call_hook=moment_hook)
            body = tr.run(fn)
            if body is None:
                raise U(f'{name}: no return')
            needsE = 'E.' in body
            sig = '(m1 m2 m3 m4 : F)'
            return (f'/-- `moments.{name}` as a function of the raw moments -/\n'
                    f'def {name} {"" if not needsE else ""}{sig} : F := {body}')
        o.formula('moments.' + name, mk)

    # ---- C19 (driver): numerator and denominator base of the skewness quotient, as coded ----------
    def skew_parts():
        fn = T.find_func(moments, 'skewness')
        tr = T.Tr(call_hook=moment_hook)
        tr.run_stmts([s for s in fn.body if not isinstance(s, ast.Return)])
        r = T.the(T.returns(fn), 'skewness return')
        if not (isinstance(r, ast.BinOp) and isinstance(r.op, ast.Div) and isinstance(r.right, ast.BinOp)
                and isinstance(r.right.op, ast.Pow) and T.const_value(r.right.right) == T.Fraction(3, 2)):
            raise U('skewness is not <num> / <base> ** 1.5')
        return ['/-- `moments.skewness`: numerator of the returned quotient -/\n'
                f'def skewnessNum (m1 m2 m3 m4 : F) : F := {tr.tr(r.left)}',
                '/-- `moments.skewness`: base of the power `** 1.5` in the denominator -/\n'
                f'def skewnessDenBase (m1 m2 m3 m4 : F) : F := {tr.tr(r.right.left)}']
    o.formula('moments.skewness.parts', skew_parts)

    def moment_guard():
        fn = T.find_func(moments, 'moment')
        g = T.raise_guards(fn)
        if len(g) != 1:
            raise U('moment: expected one argument guard')
        return ('/-- `moments.moment`: the argument guard that raises -/\n'
                f'def momentRejects (order : F) : Prop := {T.cmp_guard(g[0], T.Tr(env={"order": "order"}))}')
    o.formula('moments.moment.guard', moment_guard)

    # ---- C14: per-entry EM updates ------------------------------------------------------------------
    node = T.parse_file(repo, 'deeprob/spn/structure/node.py')
    cltree = T.parse_file(repo, 'deeprob/spn/structure/cltree.py')
    em = T.parse_file(repo, 'deeprob/spn/learning/em.py')

    def em_formula(name, tree, qual, syms, outs, doc):
        """run `qual` symbolically under the element-wise reading `syms`; emit one def per (lean name, args, target)"""
        def mk():
            fn = T.find_func(tree, qual)
            tr = T.Tr(syms=syms, name_hook=lambda k: tr.env.get(k + '[i]'))
            tr.run(fn)
            res = []
            for lean_name, args, target in outs:
                body = tr.value_of(target, qual + ' ' + target)
                res.append(f'/-- `{qual}`: {doc} — `{target}` -/\ndef {lean_name} ({args} : F) : F := {body}')
            return res
        o.formula(name, mk)

    em_formula('Sum.em_step', node, 'Sum.em_step',
               {'self.weights': 'w', 'np.sum(stats, axis=1)': 's', 'np.sum(unnorm_weights)': 'Z', 'step_size': 'eta'},
               [('sumEmUnnorm', 'w s', 'unnorm_weights'), ('sumEmNew', 'eta w s Z', 'self.weights')],
               'entry of child i; w = old weight, s = Σ_rows stats[i], Z = Σ_j unnorm_weights[j]')
    em_formula('Bernoulli.em_step', leaf, 'Bernoulli.em_step',
               {'self.p': 'p', 'np.dot(stats, data)': 'S1', 'np.sum(stats)': 'T', 'step_size': 'eta'},
               [('bernEmReest', 'S1 T', 'p'), ('bernEmNew', 'eta p S1 T', 'self.p')],
               'S1 = Σ stats·data, T = Σ stats')
    em_formula('Categorical.em_step', leaf, 'Categorical.em_step',
               {'self.probabilities': 'p', 'np.sum(stats[data == d])': 'Sd', 'np.sum(stats)': 'T',
                'len(self.categories)': 'K', 'step_size': 'eta'},
               [('catEmReest', 'Sd T K', 'probabilities[i]'), ('catEmNew', 'eta p Sd T K', 'self.probabilities')],
               'entry of category d; Sd = Σ_{data = d} stats, T = Σ stats, K = number of categories')
    em_formula('Gaussian.em_step.mean', leaf, 'Gaussian.em_step',
               {'self.mean': 'mu', 'self.stddev': 'sigma', 'np.sum(stats)': 'T', 'np.sum(stats * data)': 'Sx',
                'np.sum(stats * (data - mean) ** 2.0)': 'V', 'step_size': 'eta'},
               [('gaussEmTotal', 'T', 'total_stats'), ('gaussEmMeanReest', 'Sx T', 'mean'),
                ('gaussEmMeanNew', 'eta mu Sx T', 'self.mean')],
               'Sx = Σ stats·data, T = Σ stats')
    em_formula('BinaryCLT.em_step', cltree, 'BinaryCLT.em_step',
               {'np.sum(stats)': 'T', 'priors_stats': 'P', 'conditional_stats': 'C', 'priors[self.tree]': 'Pp',
                'np.sum(weighted_features * data[:, self.tree], axis=0)': 'C1',
                'np.exp(self.params)': 'old', 'np.sum(params, axis=2, keepdims=True)': 'Z', 'step_size': 'eta',
                'np.empty_like(self.params)': 'q'},
               [('cltEmPrior1', 'P T', 'priors[:,1]'), ('cltEmPrior0', 'P T', 'priors[:,0]'),
                ('cltEmCond1', 'C1', 'conditional_stats[:,1]'), ('cltEmCond0', 'P C1', 'conditional_stats[:,0]'),
                ('cltEmCell1', 'C T Pp', 'params[:,:,1]'), ('cltEmCell0', 'C T Pp', 'params[:,:,0]'),
                ('cltEmNew', 'eta old q Z', 'params')],
               'per CPT entry; P = Σ stats·x_i, C1 = Σ stats·x_i·x_pa(i), C = conditional_stats[i,b], '
               'Pp = priors[pa(i)][b], old = exp(self.params) entry, q = re-estimated entry, Z = row sum after mixing')

    # Gaussian standard deviation: whole formula (needs sqrt) and its two sqrt-free halves
    def gauss_std():
        fn = T.find_func(leaf, 'Gaussian.em_step')
        syms = {'self.mean': 'mu', 'self.stddev': 'sigma', 'np.sum(stats)': 'T', 'np.sum(stats * data)': 'Sx',
                'np.sum(stats * (data - mean) ** 2.0)': 'V', 'step_size': 'eta'}
        tr = T.Tr(syms=syms); tr.run(fn)
        whole = tr.value_of('self.stddev')
        sq = T.the(T.calls(fn, 'sqrt'), 'sqrt in Gaussian.em_step')
        arg = None
        # argument of the square root, with the names bound as they are at that statement
        tr3 = T.Tr(syms=syms)
        for s in fn.body:
            if any(c is sq for c in ast.walk(s)):
                arg = tr3.tr(sq.args[0]); break
            tr3.run_stmts([s])
        if arg is None:
            raise U('sqrt statement not found')
        tr4 = T.Tr(syms=dict(syms, **{ast.unparse(sq): 'r'})); tr4.run(fn)
        rest = tr4.value_of('self.stddev')
        return ['/-- `Gaussian.em_step`: new standard deviation; V = Σ stats·(data − mean)², T = Σ stats -/\n'
                f'def gaussEmStdNew (eta sigma V T : F) : F := {whole}',
                '/-- `Gaussian.em_step`: the argument of `np.sqrt` -/\n'
                f'def gaussEmStdArg (V T : F) : F := {arg}',
                '/-- `Gaussian.em_step`: new standard deviation as a function of the square root `r` -/\n'
                f'def gaussEmStdOf (eta sigma r : F) : F := {rest}']
    o.formula('Gaussian.em_step.stddev', gauss_std)

    # ---- C14: argument guards of expectation_maximization ----------------------------------------------
    def em_guards():
        fn = T.find_func(em, 'expectation_maximization')
        g = T.raise_guards(fn)
        tr = T.Tr(env={'num_iter': 'numIter', 'batch_perc': 'batchPerc', 'step_size': 'eta'})
        gs = [T.cmp_guard(x, tr) for x in g]
        if len(gs) != 3:
            raise U('expectation_maximization: expected three argument guards')
        return ('/-- `expectation_maximization`: the call is rejected iff one of these holds -/\n'
                f'def emRejects (numIter batchPerc eta : F) : Prop := {" ∨ ".join(gs)}')
    o.formula('em.guards', em_guards)

    # ---- C13: constructor guards and fit / EM clamps ---------------------------------------------------
    def gauss_ctor():
        fn = T.find_func(leaf, 'Gaussian.__init__')
        g = T.the(T.raise_guards(fn), 'Gaussian.__init__ guard')
        return ('/-- `Gaussian.__init__` raises iff -/\n'
                f'def gaussCtorRejects (stddev : F) : Prop := {T.cmp_guard(g, T.Tr(env={"stddev": "stddev"}))}')
    o.formula('Gaussian.__init__', gauss_ctor)

    def gauss_fit_clamp():
        fn = T.find_func(leaf, 'Gaussian.fit')
        v = T.assignments(fn, 'self.stddev')[-1]
        return ('/-- `Gaussian.fit`: the stored standard deviation as a function of the estimate -/\n'
                f'def gaussFitClamp (s : F) : F := {T.Tr(env={"self.stddev": "s"}).tr(v)}')
    o.formula('Gaussian.fit.clamp', gauss_fit_clamp)

    def gauss_em_clamp():
        fn = T.find_func(leaf, 'Gaussian.em_step')
        v = T.assignments(fn, 'stddev')[-1]
        return ('/-- `Gaussian.em_step`: the clamp applied to the re-estimated standard deviation -/\n'
                f'def gaussEmClamp (s : F) : F := {T.Tr(env={"stddev": "s"}).tr(v)}')
    o.formula('Gaussian.em_step.clamp', gauss_em_clamp)

    def bern_ctor():
        fn = T.find_func(leaf, 'Bernoulli.__init__')
        g = T.the(T.raise_guards(fn), 'Bernoulli.__init__ guard')
        return ('/-- `Bernoulli.__init__` raises iff -/\n'
                f'def bernCtorRejects (p : F) : Prop := {T.cmp_guard(g, T.Tr(env={"p": "p"}))}')
    o.formula('Bernoulli.__init__', bern_ctor)

    def bern_fit():
        fn = T.find_func(leaf, 'Bernoulli.fit')
        v = T.the(T.assignments(fn, 'self.p'), 'Bernoulli.fit p')
        tr = T.Tr(syms={'np.sum(data)': 'n1', 'len(data)': 'n', 'alpha': 'alpha'})
        return ('/-- `Bernoulli.fit`: Laplace-smoothed estimate; n1 = number of ones, n = number of rows -/\n'
                f'def bernFit (n1 n alpha : F) : F := {tr.tr(v)}')
    o.formula('Bernoulli.fit', bern_fit)

    def cat_fit():
        fn = T.find_func(leaf, 'Categorical.fit')
        v = T.the(T.assignments(fn, 'self.probabilities[i]'), 'Categorical.fit probabilities[i]')
        tr = T.Tr(syms={'len(data[data == d])': 'nd', 'len(data)': 'n', 'len(domain)': 'K', 'alpha': 'alpha'})
        return ('/-- `Categorical.fit`: Laplace-smoothed estimate of one category -/\n'
                f'def catFit (nd n K alpha : F) : F := {tr.tr(v)}')
    o.formula('Categorical.fit', cat_fit)

    def sum_guard(name, tree, qual, arg, lean):
        def mk():
            fn = T.find_func(tree, qual)
            gs = [g for g in T.raise_guards(fn) if 'isclose' in ast.unparse(g)]
            g = T.the(gs, qual + ' isclose guard')
            tr = T.Tr(syms={f'np.sum({arg})': 'total'})
            return (f'/-- `{qual}` raises iff (total = Σ {arg}) -/\n'
                    f'def {lean} (total : F) : Prop := {T.cmp_guard(g, tr)}')
        o.formula(name, mk)
    sum_guard('Sum.__init__', node, 'Sum.__init__', 'weights', 'sumCtorRejects')
    sum_guard('Categorical.__init__', leaf, 'Categorical.__init__', 'probabilities', 'catCtorRejects')
    sum_guard('Isotonic.__init__', leaf, 'Isotonic.__init__', 'densities', 'isoCtorRejects')

    # ---- C13: rounding digits of the JSON writer ----------------------------------------------------------
    io = T.parse_file(repo, 'deeprob/spn/structure/io.py')
    def json_digits():
        ds = set()
        for q in ('spn_to_digraph', 'binary_clt_to_digraph'):
            fn = T.find_func(io, q)
            for c in T.calls(fn, 'round') + T.calls(fn, 'around'):
                if len(c.args) == 2:
                    ds.add(T.const_value(c.args[1]))
                else:
                    raise U('rounding call without digits in ' + q)
        d = T.the(sorted(ds), 'rounding digits of the JSON writer')
        return f'/-- `io.spn_to_digraph` / `binary_clt_to_digraph`: decimals kept by every `round` / `np.around` -/\ndef jsonDigits : Nat := {d.numerator}'
    o.const('jsonDigits', json_digits)

    # ---- C05: re-queue discipline of LearnSPN's single-slice branches ----------------------------------
    def requeue():
        learnspn = T.parse_file(repo, 'deeprob/spn/learning/learnspn.py')
        fn = T.find_func(learnspn, 'learn_spn')
        found = []
        for st in T.walk_stmts(fn):
            if isinstance(st, ast.If) and 'len(slices)==1' in ast.unparse(st.test).replace(' ', ''):
                calls = [c for b in st.body for c in ast.walk(b) if isinstance(c, ast.Call) and (T.dotted_name(c.func) or '').startswith('tasks.')]
                names = [T.dotted_name(c.func).split('.')[-1] for c in calls]
                if len(names) != 1 or names[0] not in ('append', 'appendleft'):
                    raise U('single-slice branch does not re-queue with tasks.append / tasks.appendleft')
                found.append(names[0])
        if len(found) != 2:
            raise U(f'expected two single-slice branches in learn_spn, found {len(found)}')
        front = all(n == 'appendleft' for n in found)
        mixed = len(set(found)) > 1
        return ('/-- `learn_spn`: a task whose split returned a single slice is re-queued at the FRONT of the deque '
                '(`appendleft`) in both single-slice branches -/\n'
                f'def learnRequeueFront : Bool := {"true" if front else "false"}\n'
                f'def learnRequeueMixed : Bool := {"true" if mixed else "false"}')
    o.const('learnspn.requeue', requeue)

    # =====================================================================================================
    # Structural choices (second, static tie of the hand-written A-layer models): DESIGN §2.3, Oblig/Struct*.lean
    # =====================================================================================================
    emit_struct(o, repo, T)
    emit_struct3(o, repo, T)
    emit_struct4(o, repo, T)
    emit_struct5(o, repo, T)
    emit_struct5grad(o, repo, T)
    emit_struct5k(o, repo, T)
    emit_struct5k_rewrite(o, repo, T)
    emit_struct5eval(o, repo, T)          # block J


def _skip_prologue(T, fn, allowed):
    """top-level statements of `fn` without the docstring and without the statements whose (blank-free) text is listed
    in `allowed` (argument-defaulting prologues); everything else must be translated"""
    allowed = {a.replace(' ', '').replace('\n', '') for a in allowed}
    return [s for s in fn.body
            if not (isinstance(s, ast.Expr) and isinstance(s.value, ast.Constant))
            and ast.unparse(s).replace(' ', '').replace('\n', '') not in allowed]


def emit_struct(o, repo, T):
    U = T.Untranslatable
    NODE_ATTRS = {'id': ('nid', 'item'), 'children': ('children', ('list', 'obj')), 'weights': ('weights', ('list', 'w')),
                  'scope': ('scope', ('list', 'item'))}
    NODE_SIG = '{N W : Type} (nid : N → Nat) (children : N → List N) (weights : N → List W) (scope : N → List Nat)'
    NODES_PROLOGUE = ['if nodes is None: nodes = collect_nodes(root)']

    # ---- (g) C03: validity.py --------------------------------------------------------------------------
    validity = T.parse_file(repo, 'deeprob/spn/utils/validity.py')

    def is_labeled():
        fn = T.find_func(validity, 'is_labeled')
        tr = T.TrZ(env={'nodes': ('nodes', ('list', 'obj'))}, attrs=NODE_ATTRS,
                   syms={'None in ids': ('noneId', 'bool'), 'min(ids)': ('minId', 'int'), 'max(ids)': ('maxId', 'int')})
        body = tr.chain(_skip_prologue(T, fn, NODES_PROLOGUE))
        return ('/-- `validity.is_labeled` as coded: index of the first test that returns a reason (`none` = labelled); '
                '`noneId` = `None in ids`, `minId` = `min(ids)`, `maxId` = `max(ids)` -/\n'
                f'def isLabeledChain {NODE_SIG} (nodes : List N) (noneId : Bool) (minId maxId : Int) : Option Nat :=\n  {body}')
    o.const('validity.is_labeled', is_labeled)

    def per_node(qual, lean, listvar, cls_lean):
        def mk():
            fn = T.find_func(validity, qual)
            # which nodes are visited: `<listvar> = list(filter(lambda n: isinstance(n, K), nodes))`, looped over as `node`
            v = T.the(T.assignments(fn, listvar), f'{qual}: {listvar}')
            key = ast.unparse(v).replace(' ', '')
            pre, post = 'list(filter(lambdan:isinstance(n,', '),nodes))'
            if not (key.startswith(pre) and key.endswith(post)):
                raise U(f'{qual}: {listvar} is not list(filter(lambda n: isinstance(n, K), nodes))')
            cls = key[len(pre):-len(post)]
            loop = T.loop_over(fn, 'node', listvar)
            rest = [s for s in _skip_prologue(T, fn, NODES_PROLOGUE)
                    if s is not loop and not (isinstance(s, (ast.Assign, ast.AnnAssign)) and T.target_key(getattr(s, 'target', None) or s.targets[0]) == listvar)]
            if not (len(rest) == 1 and isinstance(rest[0], ast.Return) and ast.unparse(rest[0]) == 'return None'):
                raise U(f'{qual}: statements besides the filter, the loop and `return None`')
            tr = T.TrZ(env={'node': ('node', 'obj')}, attrs=NODE_ATTRS)
            body = tr.chain(loop.body)
            return (f'/-- `validity.{qual}`: class of the nodes it visits -/\n'
                    f'def {cls_lean} : String := {T.lean_str(cls)}\n'
                    f'/-- `validity.{qual}` as coded, on one visited node: index of the first test that returns a reason -/\n'
                    f'def {lean} {NODE_SIG} (node : N) : Option Nat :=\n  {body}')
        o.const('validity.' + qual, mk)
    per_node('is_smooth', 'isSmoothNode', 'sum_nodes', 'isSmoothClass')
    per_node('is_decomposable', 'isDecomposableNode', 'product_nodes', 'isDecomposableClass')

    def check_spn_order():
        fn = T.find_func(validity, 'check_spn')
        order = []
        for s in fn.body:
            if isinstance(s, ast.If) and isinstance(s.test, ast.Name):
                cs = [T.dotted_name(c.func) for c in ast.walk(s) if isinstance(c, ast.Call) and (T.dotted_name(c.func) or '').startswith('is_')]
                rs = [x for x in ast.walk(s) if isinstance(x, ast.Raise)]
                if len(cs) != 1 or len(rs) != 1:
                    raise U('check_spn: a flag block without exactly one is_* call and one raise')
                order.append((s.test.id, cs[0]))
        items = ', '.join(f'({T.lean_str(a)}, {T.lean_str(b)})' for a, b in order)
        return ('/-- `validity.check_spn`: (flag, test) pairs in the order in which they are applied -/\n'
                f'def checkSpnOrder : List (String × String) := [{items}]')
    o.const('validity.check_spn', check_spn_order)

    # ---- (f) C08: evaluation.py — what the tasks of the two layer-parallel passes store, and under which lock ----
    evaluation = T.parse_file(repo, 'deeprob/spn/algorithms/evaluation.py')
    SHARED = ('masks', 'x', 'ls', 'lls')

    def top_down_stores():
        fn = T.find_func(evaluation, 'eval_top_down')
        task = T.nested_func(fn, 'eval_backward')
        sites = T.store_sites(task)
        # the lock is created once per call, outside the task function, by threading.Lock()
        pm = T.parent_map(fn)
        locks = [(st, v) for st in ast.walk(fn) if isinstance(st, ast.Assign) for t in st.targets
                 if T.target_key(t) == 'masks_lock' for v in [st.value]]
        kinds = [T.dotted_name(v.func) for _, v in locks if isinstance(v, ast.Call) and not any(
            isinstance(a, ast.Name) and a.id == 'masks_lock' for a in v.args)]
        outside = all(next(a for a in T.ancestors(fn, st, pm) + [fn] if isinstance(a, ast.FunctionDef)) is fn for st, _ in locks)
        once = all(not isinstance(a, (ast.For, ast.While)) for st, _ in locks for a in T.ancestors(fn, st, pm))
        kind = T.the(kinds, 'creation of masks_lock')
        items = ',\n   '.join(T.store_site_lean(d, 'n', SHARED) for d in sites)
        return ('/-- `eval_top_down.eval_backward` (the task run for every node of a layer): every store into a subscripted array -/\n'
                f'def topDownStores : List StoreSite :=\n  [{items}]\n'
                '/-- `eval_top_down`: how `masks_lock` is created; created in the body of `eval_top_down` itself (one lock per call, '
                'shared by all tasks), outside every loop -/\n'
                f'def topDownLockKind : String := {T.lean_str(kind)}\n'
                f'def topDownLockShared : Bool := {"true" if outside and once and locks else "false"}')
    o.const('evaluation.eval_top_down', top_down_stores)

    def bottom_up_stores():
        fn = T.find_func(evaluation, 'eval_bottom_up')
        task = T.nested_func(fn, 'eval_forward')
        sites = T.store_sites(task)
        items = ',\n   '.join(T.store_site_lean(d, 'n', SHARED) for d in sites)
        reads = sorted(set(T.load_sites(task, ('ls',))))
        loops = sorted({ast.unparse(g.target) + ' in ' + ast.unparse(g.iter) for c in ast.walk(task) if isinstance(c, (ast.ListComp, ast.GeneratorExp))
                        for g in c.generators if any(isinstance(x, ast.Subscript) and isinstance(x.value, ast.Name) and x.value.id == 'ls' for x in ast.walk(c.elt))})
        return ('/-- `eval_bottom_up.eval_forward` (the task run for every node of a layer): every store into a subscripted array -/\n'
                f'def bottomUpStores : List StoreSite :=\n  [{items}]\n'
                '/-- `eval_forward`: the rows of `ls` it reads, and the comprehension(s) they are read in -/\n'
                f'def bottomUpReads : List (String × String) := [{", ".join(f"({T.lean_str(a)}, {T.lean_str(i)})" for a, i in reads)}]\n'
                f'def bottomUpReadLoops : List String := {T.lean_list([T.lean_str(l) for l in loops])}')
    o.const('evaluation.eval_bottom_up', bottom_up_stores)

    # ---- (d) C16: region.py / layers/ratspn.py — region split, pad, unpad ------------------------------------
    region = T.parse_file(repo, 'deeprob/utils/region.py')
    ratspn_l = T.parse_file(repo, 'deeprob/spn/layers/ratspn.py')

    def region_split():
        fn = T.find_func(region, 'RegionGraph.random_layers')
        loop = T.loop_over(fn, 'r')
        appends = {'regions': [], 'partitions': []}
        lets = []
        for st in loop.body:
            if isinstance(st, ast.Expr) and isinstance(st.value, ast.Call) and isinstance(st.value.func, ast.Attribute) \
                    and st.value.func.attr == 'append' and isinstance(st.value.func.value, ast.Name) \
                    and st.value.func.value.id in appends and len(st.value.args) == 1:
                appends[st.value.func.value.id].append(st.value.args[0])
            else:
                lets.append(st)
        tr = T.TrZ(env={'r': ('r', ('list', 'item'))}, funcs={'sorted': ('sorted', None)}, transparent=('tolist',),
                   syms={'self.random_state.permutation(r)': ('permutation', ('list', 'item'))})
        regs, _ = T.let_block(tr, lets, ast.List(elts=appends['regions'], ctx=ast.Load()))
        part = T.the(appends['partitions'], 'partitions.append in random_layers')
        parts, pty = T.let_block(tr, lets, part)
        if pty != ('list', ('list', 'item')):
            raise U('partitions.append argument is not a tuple of regions')
        sig = '(sorted : List Nat → List Nat) (r permutation : List Nat) : List (List Nat)'
        return ('/-- `RegionGraph.random_layers`, one region `r` (`permutation` = `random_state.permutation(r)`): the regions '
                'appended to `regions`, in order -/\n'
                f'def regionSplitRegions {sig} :=\n  {regs}\n'
                '/-- … and the tuple appended to `partitions` -/\n'
                f'def regionSplitPartition {sig} :=\n  {parts}')
    o.const('region.random_layers', region_split)

    RG_SYMS = {'self.in_features': ('inFeatures', 'int'), 'self.rg_depth': ('rgDepth', 'int'), 'self.pad': ('pad', 'int')}

    def rat_pad():
        fn = T.find_func(ratspn_l, 'RegionGraphLayer.__init__')
        pad = T.the(T.assignments(fn, 'self.pad'), 'self.pad')
        dim = T.the(T.assignments(fn, 'self.dimension'), 'self.dimension')
        inp = T.the(T.assignments(fn, 'in_features_pad'), 'in_features_pad')
        tr = T.TrZ(syms=RG_SYMS)
        p = tr.as_int(tr.tr(pad))
        i = tr.as_int(tr.tr(inp))
        d = tr.child(in_features_pad=(f'({i})', 'int')).tr(dim)
        return ('/-- `RegionGraphLayer.__init__`: `self.pad` -/\n'
                f'def ratPad (inFeatures rgDepth : Int) : Int := {p}\n'
                '/-- `RegionGraphLayer.__init__`: `self.dimension` (with `in_features_pad` substituted) -/\n'
                f'def ratDim (inFeatures rgDepth pad : Int) : Int := {tr.as_int(d)}')
    o.const('ratspn.pad', rat_pad)

    def rat_unpad():
        fn = T.find_func(ratspn_l, 'RegionGraphLayer.unpad_samples')
        ifs = [st for st in fn.body if isinstance(st, ast.If)]
        st = T.the(ifs, 'if in unpad_samples')
        if st.orelse or len(st.body) != 1 or not isinstance(st.body[0], ast.Assign) or T.target_key(st.body[0].targets[0]) != 'samples':
            raise U('unpad_samples: the conditional is not `if <test>: samples = …`')
        r = T.the(T.returns(fn), 'return of unpad_samples')
        if ast.unparse(r) != 'samples':
            raise U('unpad_samples does not return samples')
        tr = T.TrZ(env={'samples': ('samples', ('list', 'val'))}, transparent=('view', 'reshape'),
                   syms=dict(RG_SYMS, **{'self.inv_pad_mask[idx_repetitions]': ('invPadRow', ('list', 'bool'))}))
        c = tr.as_bool(tr.tr(st.test))
        v, ty = tr.tr(st.body[0].value)
        if ty != ('list', 'val'):
            raise U('unpad_samples: selection is not a row of values')
        return ('/-- `RegionGraphLayer.unpad_samples` on one row, after the gather: `samples` = gathered row, `invPadRow` = '
                '`self.inv_pad_mask[idx_repetitions]` of that row -/\n'
                f'def ratUnpadRow {{β : Type}} (pad : Int) (samples : List β) (invPadRow : List Bool) : List β :=\n'
                f'  if {c} then {v} else samples')
    o.const('ratspn.unpad_samples', rat_unpad)

    # ---- (i) C09 / C10: structure.py — single-child collapses of `prune`, argument guards of `marginalize` ------------
    structure = T.parse_file(repo, 'deeprob/spn/algorithms/structure.py')

    def collapse_of(st, listname, what):
        """`if len(<listname>) == 1: nodes_map[node.id] = <listname>[0]` as `Option`-valued Lean text"""
        body = [b for b in st.body if not isinstance(b, ast.Continue)]
        if not (len(body) == 1 and isinstance(body[0], ast.Assign) and T.target_key(body[0].targets[0]) == 'nodes_map[node.id]'):
            raise U(f'{what}: the branch does not just set nodes_map[node.id]')
        tr = T.TrZ(env={listname: (listname, ('list', 'item'))})
        c = tr.as_bool(tr.tr(st.test))
        v, ty = tr.tr(body[0].value)
        if ty != 'item':
            raise U(f'{what}: replacement is not an element of {listname}')
        return f'if {c} then some {v} else none'

    def prune_collapse():
        fn = T.find_func(structure, 'prune')
        loop = T.loop_over(fn, 'node')
        top = [st for st in loop.body if isinstance(st, ast.If) and 'children_nodes' in ast.unparse(st.test)]
        first = T.the(top, 'prune: test on children_nodes')
        # the Sum branch of the elif chain
        branch, cur = None, first
        while cur.orelse and len(cur.orelse) == 1 and isinstance(cur.orelse[0], ast.If):
            cur = cur.orelse[0]
            if ast.unparse(cur.test).replace(' ', '') == 'isinstance(node,Sum)':
                branch = cur
        if branch is None:
            raise U('prune: no `elif isinstance(node, Sum)` branch')
        idx = [k for k, st in enumerate(branch.body) if isinstance(st, ast.Assign)
               and ast.unparse(st).replace(' ', '') == 'children,weights=zip(*children_weights.items())']
        k = T.the(idx, 'prune: children, weights = zip(*children_weights.items())')
        after = branch.body[k + 1:]
        if not (after and isinstance(after[0], ast.If) and not after[0].orelse):
            raise U('prune: no test directly after the merge of the Sum branch')
        test = after[0]
        ends_continue = isinstance(test.body[-1], ast.Continue)
        stores = [ast.unparse(t) for st in after[1:] if isinstance(st, ast.Assign) for t in st.targets]
        before = ends_continue and sorted(stores) == ['nodes_map[node.id].children', 'nodes_map[node.id].weights']
        return ('/-- `prune`, any inner node: the replacement `nodes_map[node.id]` chosen from the retrieved `children_nodes` -/\n'
                f'def pruneSingleChild (children_nodes : List Nat) : Option Nat :=\n  {collapse_of(first, "children_nodes", "prune")}\n'
                '/-- `prune`, Sum branch, directly after `children, weights = zip(*children_weights.items())`: the replacement chosen '
                'from the merged `children` -/\n'
                f'def pruneMergedSingle (children : List Nat) : Option Nat :=\n  {collapse_of(test, "children", "prune (Sum)")}\n'
                '/-- … that branch ends with `continue` and is followed only by the stores of `.weights` and `.children` -/\n'
                f'def pruneMergedSingleSkipsRewrite : Bool := {"true" if before else "false"}')
    o.const('structure.prune', prune_collapse)

    def marg_guards():
        fn = T.find_func(structure, 'marginalize')
        stmts = _skip_prologue(T, fn, [])
        prefix = []
        for st in stmts:
            if (isinstance(st, ast.Assign) and isinstance(st.targets[0], ast.Name)) or \
                    (isinstance(st, ast.If) and len(st.body) == 1 and isinstance(st.body[0], ast.Raise)):
                prefix.append(st)
            else:
                break
        if len(T.raise_guards(fn)) and len([st for st in prefix if isinstance(st, ast.If)]) == 0:
            raise U('marginalize: no leading argument guards')
        tr = T.TrZ(env={'keep_scope': ('keep_scope', ('list', 'item'))}, syms={'root.scope': ('rootScope', ('list', 'item'))})
        return ('/-- `structure.marginalize`: the leading argument guards (index of the first one that raises) -/\n'
                f'def margGuardChain (keep_scope rootScope : List Nat) : Option Nat :=\n  {tr.chain(prefix)}')
    o.const('structure.marginalize.guards', marg_guards)

    # ---- (h) C06: inference.sum_mpe, Bernoulli.mpe, Categorical.mpe ------------------------------------------------
    inference = T.parse_file(repo, 'deeprob/spn/algorithms/inference.py')
    leaf = T.parse_file(repo, 'deeprob/spn/structure/leaf.py')

    def sum_mpe_parts():
        fn = T.find_func(inference, 'sum_mpe')
        r = T.the(T.returns(fn), 'return of sum_mpe')
        f, arg, axis, other = T.reduction_call(r)
        if other:
            raise U('sum_mpe: unexpected keywords ' + str(other))
        # what is reduced: the argument, with the assignments of the body substituted, read per (row, child) entry
        tr = T.Tr(syms={'lls': 'll', 'node.weights': 'w'})
        tr.run_stmts([st for st in fn.body if not isinstance(st, ast.Return)])
        score = tr.tr(ast.parse(arg, mode='eval').body)
        return (f, axis, score)

    def sum_mpe_const():
        f, axis, _ = sum_mpe_parts()
        return ('/-- `inference.sum_mpe`: the reduction that picks the branch and its axis (`lls` has one row per sample, one column per child) -/\n'
                f'def sumMpeSelector : String := {T.lean_str(f)}\n'
                f'def sumMpeAxis : Option Int := {T.lean_opt_int(axis)}')
    o.const('inference.sum_mpe.selector', sum_mpe_const)

    def sum_mpe_formula():
        _, _, score = sum_mpe_parts()
        return ('/-- `inference.sum_mpe`: the entry reduced for one child; ll = log-value of the child, w = its weight -/\n'
                f'def sumMpeScore (ll w : F) : F := {score}')
    o.formula('inference.sum_mpe.score', sum_mpe_formula)

    def bern_mpe():
        fn = T.find_func(leaf, 'Bernoulli.mpe')
        v = T.the(T.assignments(fn, 'x[mask]'), 'Bernoulli.mpe fill value')
        m = T.the(T.assignments(fn, 'mask'), 'Bernoulli.mpe mask')
        if ast.unparse(m).replace(' ', '') != 'np.isnan(x)':
            raise U('Bernoulli.mpe: mask is not np.isnan(x)')
        return ('/-- `Bernoulli.mpe`: the value written into the missing entries -/\n'
                f'def bernMpe (p : F) : F := {T.Tr(env={"self.p": "p"}).tr(v)}')
    o.formula('Bernoulli.mpe', bern_mpe)

    def cat_mpe():
        fn = T.find_func(leaf, 'Categorical.mpe')
        v = T.the(T.assignments(fn, 'x[mask]'), 'Categorical.mpe fill value')
        m = T.the(T.assignments(fn, 'mask'), 'Categorical.mpe mask')
        if ast.unparse(m).replace(' ', '') != 'np.isnan(x)':
            raise U('Categorical.mpe: mask is not np.isnan(x)')
        if not isinstance(v, ast.Subscript):
            raise U('Categorical.mpe: fill value is not <table>[<index>]')
        f, arg, axis, other = T.reduction_call(v.slice)
        if other:
            raise U('Categorical.mpe: unexpected keywords')
        return ('/-- `Categorical.mpe`: the missing entries receive `<catMpeTable>[<catMpeSelector>(<catMpeArg>)]` -/\n'
                f'def catMpeTable : String := {T.lean_str(ast.unparse(v.value))}\n'
                f'def catMpeSelector : String := {T.lean_str(f)}\n'
                f'def catMpeArg : String := {T.lean_str(arg)}\n'
                f'def catMpeAxis : Option Int := {T.lean_opt_int(axis)}')
    o.const('Categorical.mpe', cat_mpe)

    # ---- (j) C02 / C06 / C07 / C12: cltree.py — reductions of message_passing, normalisation in sample, result of to_pc ----
    cltree = T.parse_file(repo, 'deeprob/spn/structure/cltree.py')

    def clt_reductions():
        fn = T.find_func(cltree, 'BinaryCLT.message_passing')
        rows = []
        for d in T.store_sites(fn, ('messages', 'lls')):
            cond = next((t for t in d['tests'] if t.replace(' ', '').startswith('reduce==')), '')
            try:
                f, arg, axis, other = T.reduction_call(d['rhs'])
                if other:
                    raise U('message_passing: reduction with keywords ' + str(other))
            except U:
                f, axis = '', None          # not a reduction: an element-wise sum of log-values
                if not (isinstance(d['rhs'], ast.BinOp) and isinstance(d['rhs'].op, ast.Add)):
                    raise U('message_passing: store that is neither a reduction nor a sum: ' + ast.unparse(d['stmt']))
            rows.append('(%s, %s, %s, %s, %s, %s)' % (T.lean_str(cond), T.lean_str(d['array']), T.lean_str(d['index']),
                                                      T.lean_str(d['op']), T.lean_str(f), T.lean_opt_int(axis)))
        # every value `reduce` is compared with, and what happens otherwise
        return ('/-- `BinaryCLT.message_passing`: every store into `messages` / `lls`: (test on `reduce`, array, index, operator, '
                'reduction applied to the right-hand side ("" = element-wise sum of log-values), its axis) -/\n'
                'def cltMessageStores : List (String × String × String × String × String × Option Int) :=\n  ['
                + ',\n   '.join(rows) + ']')
    o.const('cltree.message_passing', clt_reductions)

    def clt_sample():
        fn = T.find_func(cltree, 'BinaryCLT.sample')
        norms = []
        for v in T.assignments(fn, 'log_probs'):
            if isinstance(v, ast.BinOp) and isinstance(v.op, ast.Sub):
                a, b = v.left, v.right
                if not (isinstance(a, ast.Subscript) and ast.unparse(a.value) == 'log_probs' and isinstance(a.slice, ast.Tuple)
                        and len(a.slice.elts) == 2 and ast.unparse(a.slice.elts[0]) == ':'):
                    raise U('sample: minuend is not log_probs[:, k]')
                k = int(T.const_value(a.slice.elts[1]))
                f, arg, axis, other = T.reduction_call(b)
                if arg != 'log_probs' or other:
                    raise U('sample: subtrahend is not a reduction of log_probs')
                norms.append((k, f, axis))
        srcs = [ast.unparse(v) for v in T.assignments(fn, 'log_probs') if not (isinstance(v, ast.BinOp) and isinstance(v.op, ast.Sub))]
        draws = [d for d in T.store_sites(fn, ('x',))]
        for d in draws:
            if ast.unparse(d['rhs']).replace(' ', '') != 'ss.bernoulli.rvs(np.exp(log_probs))':
                raise U('sample: a store into x is not ss.bernoulli.rvs(np.exp(log_probs))')
        pv = T.the(T.assignments(fn, 'obs_parent_values'), 'obs_parent_values')
        if isinstance(pv, ast.Call) and isinstance(pv.func, ast.Attribute) and pv.func.attr == 'astype':
            pv = pv.func.value
        mp = T.the([c for c in T.calls(fn, 'message_passing')], 'message_passing call in sample')
        kws = {k.arg: ast.unparse(k.value) for k in mp.keywords}
        tr = T.Tr(syms={'log_probs[:, 1]': 'lk', 'log_probs[:, 0]': 'lk', 'logsumexp(log_probs, axis=1)': 'lse'})
        return ('/-- `BinaryCLT.sample`: each `log_probs = log_probs[:, k] - f(log_probs, axis)`: (k, f, axis), in source order (root, then the loop) -/\n'
                f'def cltSampleNorm : List (Int × String × Option Int) := [{", ".join(f"({k}, {T.lean_str(f)}, {T.lean_opt_int(a)})" for k, f, a in norms)}]\n'
                '/-- … the un-normalised `log_probs` they start from -/\n'
                f'def cltSampleLogits : List String := {T.lean_list([T.lean_str(x) for x in srcs])}\n'
                '/-- … where the drawn Bernoulli values are stored, the parent values read, and the `reduce` mode of the messages -/\n'
                f'def cltSampleStores : List String := {T.lean_list([T.lean_str(d["index"]) for d in draws])}\n'
                f'def cltSampleParentValues : String := {T.lean_str(ast.unparse(pv))}\n'
                f'def cltSampleReduce : String := {T.lean_str(kws.get("reduce", ""))}')
    o.const('cltree.sample', clt_sample)

    def clt_sample_formula():
        fn = T.find_func(cltree, 'BinaryCLT.sample')
        vs = [v for v in T.assignments(fn, 'log_probs') if isinstance(v, ast.BinOp) and isinstance(v.op, ast.Sub)]
        tr = T.Tr(syms={'log_probs[:, 1]': 'lk', 'logsumexp(log_probs, axis=1)': 'lse'})
        ts = {tr.tr(v) for v in vs}
        body = T.the(sorted(ts), 'normalisation formula of sample')
        draws = {ast.unparse(d['rhs']) for d in T.store_sites(fn, ('x',))}
        tr2 = T.Tr(syms={'log_probs': 'lp'}, call_hook=lambda t, c: t.tr(c.args[0]) if (T.dotted_name(c.func) or '').endswith('bernoulli.rvs') and len(c.args) == 1 and not c.keywords else None)
        p = T.the(sorted({tr2.tr(ast.parse(x, mode='eval').body) for x in draws}), 'Bernoulli parameter of sample')
        return ['/-- `BinaryCLT.sample`: normalised log-probability; lk = `log_probs[:, 1]`, lse = `logsumexp(log_probs, axis=1)` -/\n'
                f'def cltSampleLogProb (lk lse : F) : F := {body}',
                '/-- `BinaryCLT.sample`: the parameter handed to `ss.bernoulli.rvs`, as a function of the normalised log-probability -/\n'
                f'def cltSampleBernParam (lp : F) : F := {p}']
    o.formula('cltree.sample.formula', clt_sample_formula)

    def clt_to_pc():
        fn = T.find_func(cltree, 'BinaryCLT.to_pc')
        r = T.the(T.returns(fn), 'return of to_pc')
        if not (isinstance(r, ast.Call) and T.dotted_name(r.func) == 'assign_ids' and len(r.args) == 1):
            raise U('to_pc does not return assign_ids(<node>)')
        tr = T.Tr()
        v = r.args[0]
        if isinstance(v, ast.Name):
            v = T.the(T.assignments(fn, v.id), 'to_pc: ' + v.id)
        if not (isinstance(v, ast.Subscript) and isinstance(v.value, ast.Name)):
            raise U('to_pc: returned node is not <buffer>[k]')
        buf, k = v.value.id, int(T.const_value(v.slice))
        rows, prods = [], []
        for c in ast.walk(fn):
            if isinstance(c, ast.Call) and isinstance(c.func, ast.Attribute) and c.func.attr == 'append' and isinstance(c.func.value, ast.Name) \
                    and c.func.value.id.endswith('_buffer'):
                a = T.the(c.args, 'argument of append')
                kw = {x.arg: x.value for x in a.keywords} if isinstance(a, ast.Call) and T.dotted_name(a.func) == 'Sum' else None
                if not kw or set(kw) != {'children', 'weights'} or not isinstance(kw['weights'], ast.Subscript):
                    raise U('to_pc: buffer element is not Sum(children=…, weights=<w>[k])')
                rows.append((c.lineno, c.func.value.id, ast.unparse(kw['children']), ast.unparse(kw['weights'].value), int(T.const_value(kw['weights'].slice))))
        # the two products, by role (first / second entry of the two-element `sum_children` list), whatever they are called
        pair = [v for v in T.assignments(fn, 'sum_children') if isinstance(v, ast.List) and len(v.elts) == 2 and all(isinstance(x, ast.Name) for x in v.elts)]
        prod_names = [x.id for x in T.the(pair, 'sum_children = [<neg product>, <pos product>]').elts]
        for name, role in zip(prod_names, ('neg_prod', 'pos_prod')):
            p = T.the(T.assignments(fn, name), name)
            kw = {x.arg: x.value for x in p.keywords} if isinstance(p, ast.Call) and T.dotted_name(p.func) == 'Product' else None
            ch = kw and kw.get('children')
            if not (isinstance(ch, ast.BinOp) and isinstance(ch.op, ast.Add) and isinstance(ch.left, ast.List) and len(ch.left.elts) == 1
                    and isinstance(ch.left.elts[0], ast.Subscript) and ast.unparse(ch.left.elts[0].value) == 'leaves'
                    and isinstance(ch.right, ast.Subscript) and isinstance(ch.right.value, ast.Name)):
                raise U(f'to_pc: {name} is not Product(children=[leaves[k]] + <buffer>[…])')
            prods.append((role, int(T.const_value(ch.left.elts[0].slice)), ch.right.value.id))
        sc = [ast.unparse(x) for x in T.assignments(fn, 'sum_children')]
        for a_, b_ in zip(prod_names, ('neg_prod', 'pos_prod')):
            sc = [__import__('re').sub(rf'\b{a_}\b', b_, x) for x in sc]
        lv = T.the([x for x in T.assignments(fn, 'leaves')], 'leaves')
        ps = [float(T.const_value(kw.value)) for el in lv.elts for kw in el.keywords if kw.arg == 'p'] if isinstance(lv, ast.List) else None
        if ps is None or len(ps) != 2:
            raise U('to_pc: leaves is not a pair of Bernoulli(…, p=<const>)')
        rows.sort()
        return ('/-- `BinaryCLT.to_pc`: the node returned (through `assign_ids`) is `<buffer>[k]` -/\n'
                f'def toPcReturnBuffer : String := {T.lean_str(buf)}\n'
                f'def toPcReturnIndex : Int := {k}\n'
                '/-- … each `<buffer>.append(Sum(children=<children>, weights=<w>[row]))`: (buffer, children, w, row) -/\n'
                'def toPcBufferRows : List (String × String × String × Int) := ['
                + ', '.join(f'({T.lean_str(b)}, {T.lean_str(c)}, {T.lean_str(w)}, {r})' for _, b, c, w, r in rows) + ']\n'
                '/-- … `<prod> = Product(children=[leaves[k]] + <buffer>[…])`: (prod, k, buffer); `sum_children` alternatives; `p` of `leaves[0]`, `leaves[1]` -/\n'
                'def toPcProducts : List (String × Int × String) := ['
                + ', '.join(f'({T.lean_str(a)}, {b}, {T.lean_str(c)})' for a, b, c in prods) + ']\n'
                f'def toPcSumChildren : List String := {T.lean_list([T.lean_str(x) for x in sc])}\n'
                f'def toPcLeafP : List Int := [{int(ps[0])}, {int(ps[1])}]')
    o.const('cltree.to_pc', clt_to_pc)

    # ---- (k) C11: statistics.estimate_priors_joints — smoothing formulas ------------------------------------------------
    statistics = T.parse_file(repo, 'deeprob/utils/statistics.py')

    def priors_joints():
        fn = T.find_func(statistics, 'estimate_priors_joints')
        syms = {'counts_features': 'c', 'n_samples': 'n', 'alpha': 'alpha', 'counts_cols': 'cj', 'counts_rows': 'ci',
                'counts_ones': 'cij'}
        tr = T.Tr(syms=syms)
        tr.run_stmts([st for st in fn.body if not isinstance(st, ast.Return)])
        res = []
        for lean, tgt, doc in (('priorOne', 'priors[:,1]', 'P(X_i = 1)'), ('priorZero', 'priors[:,0]', 'P(X_i = 0)')):
            res.append(f'/-- `estimate_priors_joints`: `{tgt}` — {doc}; c = `counts_features[i]`, n = `n_samples` -/\n'
                       f'def {lean} (c n alpha : F) : F := {tr.value_of(tgt)}')
        for a in (0, 1):
            for b in (0, 1):
                res.append(f'/-- `estimate_priors_joints`: `joints[:, :, {a}, {b}]` before smoothing; cj = `counts_cols[i, j]`, '
                           f'ci = `counts_rows[i, j]`, cij = `counts_ones[i, j]` -/\n'
                           f'def jointCell{a}{b} (n cj ci cij : F) : F := {tr.value_of(f"joints[:,:,{a},{b}]")}')
        sm = []
        for v in T.assignments(fn, 'joints'):
            try:
                sm.append(T.Tr(syms=syms, env={'joints': 'cell'}).tr(v))
            except U:
                pass
        res.append('/-- `estimate_priors_joints`: `joints = (joints + alpha) / (n_samples + 4 * alpha)` on one cell -/\n'
                   f'def jointSmooth (cell n alpha : F) : F := {T.the(sm, "smoothing of joints")}')
        tr2 = T.Tr(syms=dict(syms, **{'priors[:, 0]': 'p0', 'priors[:, 1]': 'p1'}))
        for a in (0, 1):
            for b in (0, 1):
                v = T.the(T.assignments(fn, f'joints[idx_features,idx_features,{a},{b}]'), f'diagonal correction {a}{b}')
                res.append(f'/-- `estimate_priors_joints`: `joints[i, i, {a}, {b}]` after the diagonal correction; p0, p1 = `priors[i]` -/\n'
                           f'def jointDiag{a}{b} (p0 p1 : F) : F := {tr2.tr(v)}')
        idx = T.the(T.assignments(fn, 'idx_features'), 'idx_features')
        if ast.unparse(idx).replace(' ', '') != 'np.arange(n_features)':
            raise U('idx_features is not np.arange(n_features)')
        g = T.the(T.raise_guards(fn), 'estimate_priors_joints guard')
        res.append('/-- `estimate_priors_joints` raises iff -/\n'
                   f'def priorsJointsRejects (alpha : F) : Prop := {T.cmp_guard(g, T.Tr(env={"alpha": "alpha"}))}')
        return res
    o.formula('statistics.estimate_priors_joints', priors_joints)

    # ---- (a) C15: autoregressive.py — MADE masks and sequential degrees -----------------------------------------------
    autoreg = T.parse_file(repo, 'deeprob/flows/layers/autoregressive.py')

    def made_masks():
        fn = T.find_func(autoreg, 'AutoregressiveLayer.build_masks')
        apps = [c for c in ast.walk(fn) if isinstance(c, ast.Call) and isinstance(c.func, ast.Attribute) and c.func.attr == 'append'
                and ast.unparse(c.func.value) == 'masks']
        apps.sort(key=lambda c: c.lineno)
        if len(apps) != 2:
            raise U(f'build_masks: expected two masks.append, found {len(apps)}')
        loop = T.the([st for st in fn.body if isinstance(st, ast.For)], 'loop of build_masks')
        if not any(apps[0] is c for c in ast.walk(loop)) or any(apps[1] is c for c in ast.walk(loop)):
            raise U('build_masks: the first append is not in the loop / the second one is')
        it = loop.iter
        if not (isinstance(it, ast.Call) and T.dotted_name(it.func) == 'zip' and len(it.args) == 2
                and isinstance(loop.target, ast.Tuple) and len(loop.target.elts) == 2):
            raise U('build_masks: loop is not `for (a, b) in zip(x, y)`')
        loopsrc = {loop.target.elts[k].id: ast.unparse(it.args[k]) for k in (0, 1)}

        def operand(stmts, name, src0):
            """the last `name = np.expand_dims(<src>, axis=k)` of `stmts` -> (source, k)"""
            vs = [st.value for st in stmts if isinstance(st, ast.Assign) and T.target_key(st.targets[0]) == name]
            if not vs:
                raise U(f'build_masks: {name} is not expanded')
            v = vs[-1]
            if not (isinstance(v, ast.Call) and (T.dotted_name(v.func) or '').split('.')[-1] in ('expand_dims', 'unsqueeze') and v.args):
                raise U(f'build_masks: {name} is not an expand_dims')
            ax = [kw.value for kw in v.keywords if kw.arg in ('axis', 'dim')] or list(v.args[1:2])
            src = ast.unparse(v.args[0])
            return src0.get(src, src), int(T.const_value(T.the(ax, 'axis of expand_dims')))

        out = []
        for call, stmts, src0, lean in ((apps[0], loop.body, loopsrc, 'Hidden'), (apps[1], [st for st in fn.body if st is not loop], {}, 'Output')):
            cmpc = T.the(call.args, 'argument of masks.append')
            if isinstance(cmpc, ast.Call) and len(cmpc.args) == 2 and all(isinstance(a, ast.Name) for a in cmpc.args):
                names = list(cmpc.args)
            elif isinstance(cmpc, ast.Compare) and len(cmpc.ops) == 1 and isinstance(cmpc.left, ast.Name) and isinstance(cmpc.comparators[0], ast.Name):
                names = [cmpc.left, cmpc.comparators[0]]
            else:
                raise U('build_masks: appended value is not a comparison of two names')
            ops = [operand(stmts, a.id, src0) for a in names]
            if sorted(k for _, k in ops) != [0, 1]:
                raise U('build_masks: operands are not expanded along axes 0 and 1')
            env = {a.id: ('a' if k == 0 else 'b', 'int') for a, (_, k) in zip(names, ops)}
            body = T.TrZ(env=env).as_bool(T.TrZ(env=env).tr(cmpc))
            by_axis = dict((k, srcx) for srcx, k in ops)
            out.append(f'/-- `build_masks`, {lean.lower()} mask: entry `[o][i]`; a = entry `i` of the operand expanded along axis 0 (`{by_axis[0]}`), '
                       f'b = entry `o` of the operand expanded along axis 1 (`{by_axis[1]}`) -/\n'
                       f'def made{lean}Entry (a b : Int) : Bool := {body}\n'
                       f'def made{lean}Operands : String × String := ({T.lean_str(by_axis[0])}, {T.lean_str(by_axis[1])})')
        return '\n'.join(out)
    o.const('autoregressive.build_masks', made_masks)

    def made_degrees():
        fn = T.find_func(autoreg, 'AutoregressiveLayer.build_degrees_sequential')
        tr = T.TrZ(syms={'self.in_features': ('inFeatures', 'int')}, env={'units': ('units', 'int')})
        apps = [(c, [a for a in T.ancestors(fn, c)]) for c in ast.walk(fn) if isinstance(c, ast.Call) and isinstance(c.func, ast.Attribute)
                and c.func.attr == 'append' and ast.unparse(c.func.value) == 'degrees']
        apps.sort(key=lambda p: p[0].lineno)
        if len(apps) != 3:
            raise U('build_degrees_sequential: expected three degrees.append')
        iff = T.the([st for st in fn.body if isinstance(st, ast.If)], 'if of build_degrees_sequential')
        if ast.unparse(iff.test) != 'reverse':
            raise U('build_degrees_sequential: the test is not `reverse`')
        rev = T.the([c for c, _ in apps if any(c is x for st in iff.body for x in ast.walk(st))], 'append under reverse')
        fwd = T.the([c for c, _ in apps if any(c is x for st in iff.orelse for x in ast.walk(st))], 'append under not reverse')
        hid, anc = T.the([(c, a) for c, a in apps if c is not rev and c is not fwd], 'hidden append')
        loop = T.the([a for a in anc if isinstance(a, ast.For)], 'loop of the hidden append')
        if ast.unparse(loop.iter).replace(' ', '') != 'range(depth)':
            raise U('build_degrees_sequential: hidden degrees are not appended `depth` times')
        h = hid.args[0]
        if not (isinstance(h, ast.BinOp) and isinstance(h.left, ast.Call)):
            raise U('build_degrees_sequential: hidden degrees are not <arange> op <expr>')
        ha = T.arange_args(h.left, tr)
        helem = T.TrZ(syms=dict(tr.syms_src(), **{ast.unparse(h.left): ('k', 'int')})).tr(h)
        def trip(c):
            a = T.arange_args(c.args[0], tr)
            return f'({a[0]}, {a[1]}, {a[2]})'
        return ('/-- `build_degrees_sequential`: bounds `(start, stop, step)` of the `np.arange` giving `degrees[0]`, for `reverse` / not `reverse` -/\n'
                f'def madeInputArangeRev (inFeatures : Int) : Int × Int × Int := {trip(rev)}\n'
                f'def madeInputArangeFwd (inFeatures : Int) : Int × Int × Int := {trip(fwd)}\n'
                '/-- … bounds of the `np.arange` the hidden degrees are computed from, and the hidden degree of its entry `k` (appended `depth` times) -/\n'
                f'def madeHiddenArange (units : Int) : Int × Int × Int := ({ha[0]}, {ha[1]}, {ha[2]})\n'
                f'def madeHiddenDegree (k inFeatures : Int) : Int := {tr.as_int(helem)}')
    o.const('autoregressive.build_degrees_sequential', made_degrees)

    # ---- (b) C15: flows/utils.py — squeeze / unsqueeze as reshape, permute, reshape ------------------------------------
    futils = T.parse_file(repo, 'deeprob/flows/utils.py')

    def depth2d(qual, lean):
        def mk():
            fn = T.find_func(futils, qual)
            sz = T.the([st for st in fn.body if isinstance(st, ast.Assign) and isinstance(st.targets[0], ast.Tuple)], f'{qual}: size unpacking')
            names = [e.id for e in sz.targets[0].elts]
            if ast.unparse(sz.value).replace(' ', '') not in ('x.size()', 'x.shape') or len(names) != 4:
                raise U(f'{qual}: sizes are not `n, c, h, w = x.size()`')
            steps = T.assignments(fn, 'x')
            if [ast.unparse(r) for r in T.returns(fn)] != ['x']:
                raise U(f'{qual}: does not return x')
            kinds = [(v.func.attr if isinstance(v, ast.Call) and isinstance(v.func, ast.Attribute) and ast.unparse(v.func.value) == 'x' else None) for v in steps]
            if [('reshape' if k == 'view' else k) for k in kinds] != ['reshape', 'permute', 'reshape']:
                raise U(f'{qual}: steps are not x.reshape, x.permute, x.reshape but {kinds}')
            tr = T.TrZ(env={nm: (nm, 'int') for nm in names})
            def shape(call):
                args = call.args[0].elts if len(call.args) == 1 and isinstance(call.args[0], (ast.Tuple, ast.List)) else call.args
                return T.lean_list([tr.as_int(tr.tr(a)) for a in args])
            perm = steps[1].args[0].elts if len(steps[1].args) == 1 and isinstance(steps[1].args[0], (ast.Tuple, ast.List)) else steps[1].args
            perm = [int(T.const_value(a)) for a in perm]
            sig = '(' + ' '.join(names) + ' : Int) : List Int'
            return (f'/-- `flows.utils.{qual}`: `x.reshape({lean}Shape).permute({lean}Perm).reshape({lean}OutShape)` with `{", ".join(names)} = x.size()` -/\n'
                    f'def {lean}Shape {sig} := {shape(steps[0])}\n'
                    f'def {lean}Perm : List Nat := {T.lean_list([str(k) for k in perm])}\n'
                    f'def {lean}OutShape {sig} := {shape(steps[2])}')
        o.const('flows.utils.' + qual, mk)
    depth2d('squeeze_depth2d', 'squeeze')
    depth2d('unsqueeze_depth2d', 'unsqueeze')

    # ---- (c) C15: RealNVP2d.build_permutation_matrix --------------------------------------------------------------------
    realnvp = T.parse_file(repo, 'deeprob/flows/models/realnvp.py')

    def perm_matrix():
        fns = [n for n in ast.walk(realnvp) if isinstance(n, ast.FunctionDef) and n.name == 'build_permutation_matrix']
        fn = T.the(fns, 'build_permutation_matrix')
        def nested(e):
            if isinstance(e, ast.List):
                return [nested(x) for x in e.elts]
            v = T.const_value(e)
            if v.denominator != 1:
                raise U('ordering entry is not an integer')
            return int(v)
        def lean_nested(v):
            return T.lean_list([lean_nested(x) for x in v]) if isinstance(v, list) else str(v)
        ordv = T.the(T.assignments(fn, 'ordering'), 'ordering')
        if not (isinstance(ordv, ast.Call) and (T.dotted_name(ordv.func) or '').split('.')[-1] in ('array', 'tensor') and ordv.args):
            raise U('ordering is not an array literal')
        ordering = nested(ordv.args[0])
        w0 = T.the(T.assignments(fn, 'weights'), 'weights')
        if not (isinstance(w0, ast.Call) and (T.dotted_name(w0.func) or '').split('.')[-1] == 'zeros'):
            raise U('weights does not start from zeros')
        tr = T.TrZ(env={'channels': ('channels', 'int'), 'i': ('i', 'int')})
        wshape = T.lean_list([tr.as_int(tr.tr(a)) for a in w0.args[0].elts])
        st = T.the(T.store_sites(fn, ('weights',)), 'store into weights')
        if st['op'] != '=' or ast.unparse(st['rhs']) != 'ordering' or st['loops'] != ['i in range(channels)']:
            raise U('weights block store is not `for i in range(channels): weights[…] = ordering`')
        sl = st['stmt'].targets[0].slice
        if not (isinstance(sl, ast.Tuple) and len(sl.elts) == 2 and all(isinstance(x, ast.Slice) and x.step is None and x.lower is not None and x.upper is not None for x in sl.elts)):
            raise U('weights block is not weights[a:b, c:d]')
        rows, cols = [(tr.as_int(tr.tr(x.lower)), tr.as_int(tr.tr(x.upper))) for x in sl.elts]
        pv = T.the(T.assignments(fn, 'permutation'), 'permutation')
        if isinstance(pv, ast.Call) and (T.dotted_name(pv.func) or '').split('.')[-1] in ('array', 'tensor') and len(pv.args) == 1:
            pv = pv.args[0]
        ptxt, pty = T.TrZ(env={'channels': ('channels', 'int')}).tr(pv)
        if pty != ('list', 'int'):
            raise U('permutation is not a list of integers')
        r = T.the(T.returns(fn), 'return of build_permutation_matrix')
        idx = [x for x in ast.walk(r) if isinstance(x, ast.Subscript)]
        ret = ast.unparse(T.the(idx, 'indexing in the returned value'))
        return ('/-- `RealNVP2d.build_permutation_matrix`: the `ordering` literal `[q][0][a][b]`, the shape of `weights` -/\n'
                f'def rnvpOrdering : List (List (List (List Int))) := {lean_nested(ordering)}\n'
                f'def rnvpWeightsShape (channels : Int) : List Int := {wshape}\n'
                '/-- … `weights[r0:r1, c0:c1] = ordering` for `i in range(channels)`: the row and column bounds -/\n'
                f'def rnvpBlockRows (i : Int) : Int × Int := ({rows[0]}, {rows[1]})\n'
                f'def rnvpBlockCols (i : Int) : Int × Int := ({cols[0]}, {cols[1]})\n'
                '/-- … the channel permutation, and what is returned -/\n'
                f'def rnvpPermutation (channels : Int) : List Int := {ptxt}\n'
                f'def rnvpReturned : String := {T.lean_str(ret)}')
    o.const('realnvp.build_permutation_matrix', perm_matrix)

    # ---- (e) C17: models/dgcspn.py layer schedule, layers/dgcspn.py padding amounts ------------------------------------
    dgc_m = T.parse_file(repo, 'deeprob/spn/models/dgcspn.py')
    dgc_l = T.parse_file(repo, 'deeprob/spn/layers/dgcspn.py')

    def dgc_schedule():
        fn = T.find_func(dgc_m, 'DgcSpn.__init__')
        loop = T.loop_over(fn, 'i')
        tr = T.TrZ(env={'i': ('i', 'int'), 'depth': ('depth', 'int')}, syms={'self.n_pooling': ('nPooling', 'int')})
        rng = T.arange_args(ast.Call(func=ast.Name(id='arange', ctx=ast.Load()), args=loop.iter.args, keywords=[]), tr) \
            if isinstance(loop.iter, ast.Call) and T.dotted_name(loop.iter.func) == 'range' else None
        if rng is None:
            raise U('DgcSpn.__init__: the layer loop is not over a range')
        first = loop.body[0]
        if not isinstance(first, ast.If):
            raise U('DgcSpn.__init__: the loop does not start with the pooling test')
        ctor = T.the([c for c in ast.walk(loop) if isinstance(c, ast.Call) and T.dotted_name(c.func) == 'SpatialProductLayer'], 'SpatialProductLayer call')
        kw = {k.arg: k.value for k in ctor.keywords}
        for name in ('padding', 'stride', 'dilation'):
            if ast.unparse(kw.get(name, ast.Constant(value=None))) != name:
                raise U(f'SpatialProductLayer is not called with {name}={name}')
        vals = {name: T.branch_value(tr, first, name) for name in ('padding', 'stride', 'dilation')}
        if vals['padding'][1] != 'str' or vals['stride'][1] != ('list', 'int') or vals['dilation'][1] != ('list', 'int'):
            raise U('DgcSpn.__init__: unexpected types of padding / stride / dilation')
        kernel = tr.tr(kw['kernel_size'])
        sums = [st for st in loop.body if isinstance(st, ast.If) and any(isinstance(c, ast.Call) and T.dotted_name(c.func) == 'SpatialSumLayer' for c in ast.walk(st))]
        sumif = T.the(sums, 'conditional SpatialSumLayer')
        order = [T.dotted_name(c.func) for st in loop.body for c in ast.walk(st) if isinstance(c, ast.Call) and T.dotted_name(c.func) in ('SpatialProductLayer', 'SpatialSumLayer')]
        sig = '(i nPooling depth : Int)'
        return ('/-- `DgcSpn.__init__`, loop over the inner layers: bounds of the `range`, then per level `i` the arguments of its '
                '`SpatialProductLayer` -/\n'
                f'def dgcLevels (depth : Int) : Int × Int × Int := ({rng[0]}, {rng[1]}, {rng[2]})\n'
                f'def dgcPadding {sig} : String := {vals["padding"][0]}\n'
                f'def dgcStride {sig} : List Int := {vals["stride"][0]}\n'
                f'def dgcDilation {sig} : List Int := {vals["dilation"][0]}\n'
                f'def dgcKernel : List Int := {kernel[0]}\n'
                f'def dgcDepthwiseArg : String := {T.lean_str(ast.unparse(kw["depthwise"]))}\n'
                '/-- … whether a `SpatialSumLayer` follows the product layer of level `i`, and the order of the two constructors -/\n'
                f'def dgcSumFollows (i depth : Int) : Bool := {tr.as_bool(tr.tr(sumif.test))}\n'
                f'def dgcLayerOrder : List String := {T.lean_list([T.lean_str(x) for x in order])}')
    o.const('dgcspn.schedule', dgc_schedule)

    def dgc_pads():
        fn = T.find_func(dgc_l, 'SpatialProductLayer.__init__')
        syms = {'self.dilation[0]': ('dilH', 'int'), 'self.dilation[1]': ('dilW', 'int'), 'self.in_height': ('inH', 'int'),
                'self.in_width': ('inW', 'int'), 'self.in_channels': ('inC', 'int'), 'self.stride[0]': ('strideH', 'int'),
                'self.stride[1]': ('strideW', 'int')}
        tr = T.TrZ(env={'kh': ('kh', 'int'), 'kw': ('kw', 'int')}, syms=syms)
        keh = tr.as_int(tr.tr(T.the(T.assignments(fn, 'keh'), 'keh')))
        kew = tr.as_int(tr.tr(T.the(T.assignments(fn, 'kew'), 'kew')))
        chain = T.the([st for st in fn.body if isinstance(st, ast.If) and ast.unparse(st.test).replace(' ', '').startswith('padding==')], 'padding cases')
        tr2 = T.TrZ(env={'padding': ('padding', 'str'), 'keh': ('keh', 'int'), 'kew': ('kew', 'int')}, syms=syms)
        pad, pty = T.cases_value(tr2, chain, 'self.pad')
        if pty != ('list', 'int'):
            raise U('self.pad is not a list of integers')
        tr3 = T.TrZ(env={'keh': ('keh', 'int'), 'kew': ('kew', 'int'), 'depthwise': ('depthwise', 'bool'), 'kh': ('kh', 'int'), 'kw': ('kw', 'int')},
                    syms=dict(syms, **{'self.pad': ('pad', ('list', 'int'))}))
        oh = T.assignments(fn, 'out_h'); ow = T.assignments(fn, 'out_w')
        if len(oh) != 2 or len(ow) != 2:
            raise U('out_h / out_w are not assigned twice')
        oh1 = tr3.as_int(tr3.child(out_h=(f'({tr3.as_int(tr3.tr(oh[0]))})', 'int')).tr(oh[1]))
        ow1 = tr3.as_int(tr3.child(out_w=(f'({tr3.as_int(tr3.tr(ow[0]))})', 'int')).tr(ow[1]))
        kd = tr3.as_int(tr3.tr(T.the(T.assignments(fn, 'kernel_dim'), 'kernel_dim')))
        oc = tr3.as_int(tr3.child(kernel_dim=(kd, 'int')).tr(T.the(T.assignments(fn, 'out_c'), 'out_c')))
        return ('/-- `SpatialProductLayer.__init__`: effective kernel sizes -/\n'
                f'def dgcKeh (kh dilH : Int) : Int := {keh}\n'
                f'def dgcKew (kw dilW : Int) : Int := {kew}\n'
                '/-- … `self.pad` (`F.pad` order: left, right, top, bottom); `none` = the constructor raises -/\n'
                f'def dgcPad (padding : String) (keh kew inH inW : Int) : Option (List Int) :=\n  {pad}\n'
                '/-- … output height / width / channels -/\n'
                f'def dgcOutH (pad : List Int) (inH keh strideH : Int) : Int := {oh1}\n'
                f'def dgcOutW (pad : List Int) (inW kew strideW : Int) : Int := {ow1}\n'
                f'def dgcOutC (depthwise : Bool) (inC kh kw : Int) : Int := {oc}')
    o.const('dgcspn.SpatialProductLayer', dgc_pads)


# =========================================================================================================
# Third wave (Oblig/Struct3*.lean): code that is modelled by hand and had no extracted fragment yet.
# Every definition is emitted under a fresh name `S3…`; nothing above is changed.
# =========================================================================================================
def emit_struct3(o, repo, T):
    U = T.Untranslatable
    node = T.parse_file(repo, 'deeprob/spn/structure/node.py')
    leaf = T.parse_file(repo, 'deeprob/spn/structure/leaf.py')
    inference = T.parse_file(repo, 'deeprob/spn/algorithms/inference.py')
    evaluation = T.parse_file(repo, 'deeprob/spn/algorithms/evaluation.py')

    def args_of(fn, expected, what):
        names = [a.arg for a in fn.args.args]
        if len(names) != len(expected) or fn.args.vararg or fn.args.kwarg or fn.args.kwonlyargs:
            raise U(f'{what}: expected {len(expected)} positional parameters, found {names}')
        return names

    # ---- (a) C01 / C02: Sum / Product likelihoods, node_likelihood, node_log_likelihood, eval_forward ------------
    def inner_lik(name, qual, lean, params, env_of, doc):
        def mk():
            fn = T.find_func(node, qual)
            a = args_of(fn, ('self', 'x'), qual)
            tr = T.TrA(env=env_of(a))
            body, _ = tr.body_value(fn, want=('num', 'RC'))
            return (f'/-- `{qual}` on one row (the `(n, 1)` result is read as its single entry): {doc} -/\n'
                    f'def {lean} {params} : F :=\n  {body}')
        o.formula(name, mk)

    inner_lik('node.Sum.likelihood', 'Sum.likelihood', 'S3sumLikelihood', '(w x : List F)',
              lambda a: {a[1]: ('x', 'num', 'RV'), a[0] + '.weights': ('w', 'num', 'P1')},
              'x = values of the children, w = `self.weights`')
    inner_lik('node.Product.likelihood', 'Product.likelihood', 'S3productLikelihood', '(x : List F)',
              lambda a: {a[1]: ('x', 'num', 'RV')}, 'x = values of the children')
    inner_lik('node.Sum.log_likelihood', 'Sum.log_likelihood', 'S3sumLogLikelihood', '(w x : List F)',
              lambda a: {a[1]: ('x', 'num', 'RV'), a[0] + '.weights': ('w', 'num', 'P1')},
              'x = log-values of the children, w = `self.weights`')
    inner_lik('node.Product.log_likelihood', 'Product.log_likelihood', 'S3productLogLikelihood', '(x : List F)',
              lambda a: {a[1]: ('x', 'num', 'RV')}, 'x = log-values of the children')

    def node_func(name, qual, method, lean):
        def mk():
            fn = T.find_func(inference, qual)
            a = args_of(fn, ('node', 'x'), qual)
            def meth(tr, call):
                if len(call.args) != 1 or call.keywords:
                    raise U(f'{qual}: {method} is not called with the single argument x')
                v = tr.tr(call.args[0])
                if v != ('x', 'num', 'RV'):
                    raise U(f'{qual}: {method} is not applied to the children values x')
                return '(nodeMethod x)', 'num', 'RC'
            tr = T.TrA(env={a[1]: ('x', 'num', 'RV')}, funcs={f'{a[0]}.{method}': meth})
            body, _ = tr.body_value(fn, want=('num', 'R'))
            if 'nodeMethod' not in body:
                raise U(f'{qual}: does not call {a[0]}.{method}')
            return (f'/-- `inference.{qual}` on one row: `nodeMethod` = `node.{method}` (row-wise), x = values of the children -/\n'
                    f'def {lean} (nodeMethod : List F → F) (x : List F) : F :=\n  {body}')
        o.formula(name, mk)
    node_func('inference.node_likelihood', 'node_likelihood', 'likelihood', 'S3nodeLikelihood')
    node_func('inference.node_log_likelihood', 'node_log_likelihood', 'log_likelihood', 'S3nodeLogLikelihood')

    def eval_forward():
        fn = T.find_func(evaluation, 'eval_bottom_up')
        task = T.nested_func(fn, 'eval_forward')
        n = T.the([a.arg for a in task.args.args], 'parameter of eval_forward')
        ifs = [s for s in task.body if isinstance(s, ast.If) and 'isinstance' in ast.unparse(s.test)]
        br = T.the(ifs, 'isinstance test of eval_forward')
        if ast.unparse(br.test).replace(' ', '') != f'isinstance({n},Leaf)':
            raise U('eval_forward: the test is not isinstance(n, Leaf)')
        # leaf branch: ls[n.id] = leaf_func(n, x[:, n.scope], **kw)
        lf = T.the(br.body, 'statement of the leaf branch')
        if ast.unparse(lf).replace(' ', '') != f'ls[{n}.id]=leaf_func({n},x[:,{n}.scope],**leaf_func_kwargs)':
            raise U('eval_forward: leaf branch is not ls[n.id] = leaf_func(n, x[:, n.scope], **leaf_func_kwargs)')
        # inner branch: children_ls = np.stack([ls[c.id] for c in n.children], axis=1); ls[n.id] = node_func(n, children_ls, **kw)
        if len(br.orelse) != 2 or not all(isinstance(s, ast.Assign) for s in br.orelse):
            raise U('eval_forward: inner branch is not two assignments')
        st, call = br.orelse
        stack = st.value
        if not (isinstance(stack, ast.Call) and (T.dotted_name(stack.func) or '').split('.')[-1] == 'stack' and len(stack.args) == 1):
            raise U('eval_forward: children values are not np.stack([...], axis=1)')
        ax = [k.value for k in stack.keywords if k.arg == 'axis'] or stack.args[1:2]
        if int(T.const_value(T.the(ax, 'axis of np.stack'))) != 1:
            raise U('eval_forward: np.stack is not along axis 1')
        tz = T.TrZ(env={n: ('n', 'obj')}, attrs={'id': ('nid', 'item'), 'children': ('children', ('list', 'obj'))},
                   funcs={})
        comp = stack.args[0]
        if not (isinstance(comp, ast.ListComp) and len(comp.generators) == 1 and not comp.generators[0].ifs
                and isinstance(comp.elt, ast.Subscript) and ast.unparse(comp.elt.value) == 'ls'):
            raise U('eval_forward: stacked values are not [ls[<id>] for c in <children>]')
        g = comp.generators[0]
        xs, elty = tz.seq(tz.tr(g.iter))
        sub = tz.child(**{g.target.id: (T.lid(g.target.id), elty)})
        idx, ity = sub.tr(comp.elt.slice)
        if ity != 'item':
            raise U('eval_forward: index of ls is not a node id')
        cname = T.target_key(st.targets[0])
        if ast.unparse(call).replace(' ', '') != f'ls[{n}.id]=node_func({n},{cname},**node_func_kwargs)':
            raise U('eval_forward: inner branch does not store node_func(n, <stacked values>, **node_func_kwargs) into ls[n.id]')
        return ('/-- `eval_bottom_up.eval_forward`, inner-node branch, one row: the value stored into `ls[n.id]`; `ls` = the row of '
                'values stored so far (by node id), `node_func n` = the inner-node function applied to the stacked children values -/\n'
                'def S3evalForwardInner {N : Type} (nid : N → Nat) (children : N → List N) (node_func : N → List F → F) (ls : Nat → F) (n : N) : F :=\n'
                f'  node_func n ({xs}.map (fun {T.lid(g.target.id)} => ls {idx}))')
    o.formula('evaluation.eval_forward', eval_forward)

    # ---- (a) C01 / C02: Bernoulli / Categorical likelihoods with the missing-value mask -------------------------------
    def cat_distribution():
        """every assignment of `self.distribution` in class Categorical is None or ss.rv_discrete(values=(self.categories, self.probabilities))"""
        cls = T.the([c for c in leaf.body if isinstance(c, ast.ClassDef) and c.name == 'Categorical'], 'class Categorical')
        n = 0
        for fn in [f for f in cls.body if isinstance(f, ast.FunctionDef)]:
            for v in T.assignments(fn, 'self.distribution'):
                t = ast.unparse(v).replace(' ', '')
                if t == 'None':
                    continue
                if t not in ('ss.rv_discrete(values=(self.categories,self.probabilities))', 'scipy.stats.rv_discrete(values=(self.categories,self.probabilities))'):
                    raise U(f'Categorical.{fn.name}: self.distribution = {ast.unparse(v)} is not rv_discrete(values=(self.categories, self.probabilities))')
                n += 1
        if n == 0:
            raise U('Categorical: self.distribution is never built')

    def leaf_lik(name, qual, lean, params, syms, funcs_of, doc, pre=None):
        def mk():
            if pre:
                pre()
            fn = T.find_func(leaf, qual)
            a = args_of(fn, ('self', 'x'), qual)
            tr = T.TrA(env={a[1]: ('x', 'opt', 'RC')}, syms=syms(a[0]), funcs=funcs_of(a[0]))
            body, _ = tr.body_value(fn, want=('num', 'RC'))
            return (f'/-- `{qual}` on one row: x = the data entry of the leaf\'s variable (`none` = NaN); {doc} -/\n'
                    f'def {lean} {params} (x : Option Nat) : F :=\n  {body}')
        o.formula(name, mk)

    def pmf2(lean_fn, log):
        def h(tr, call):
            if len(call.args) != 2 or call.keywords:
                raise U('pmf call: expected (values, p)')
            k, p = tr.tr(call.args[0]), tr.tr(call.args[1])
            if k[1] != 'nat' or p != ('p', 'num', 'P0'):
                raise U('pmf call: arguments are not (observed values, self.p)')
            t = f'(Gen.Py3.{lean_fn} {k[0]} p)'
            return (f'(E.log {t})' if log else t), 'num', k[2]
        return h

    def pmf1(log):
        def h(tr, call):
            if len(call.args) != 1 or call.keywords:
                raise U('pmf call: expected (values)')
            k = tr.tr(call.args[0])
            if k[1] != 'nat':
                raise U('pmf call: argument is not the observed values')
            t = f'(Gen.Py3.rvDiscretePmf categories probabilities {k[0]})'
            return (f'(E.log {t})' if log else t), 'num', k[2]
        return h

    bern_syms = lambda s: {s + '.p': ('p', 'num', 'P0')}
    leaf_lik('leaf.Bernoulli.likelihood', 'Bernoulli.likelihood', 'S3bernoulliLikelihood', '(p : F)', bern_syms,
             lambda s: {'ss.bernoulli.pmf': pmf2('bernoulliPmf', False)}, 'p = `self.p`')
    leaf_lik('leaf.Bernoulli.log_likelihood', 'Bernoulli.log_likelihood', 'S3bernoulliLogLikelihood', '(p : F)', bern_syms,
             lambda s: {'ss.bernoulli.logpmf': pmf2('bernoulliPmf', True)}, 'p = `self.p`; `logpmf` = `log ∘ pmf`')
    leaf_lik('leaf.Categorical.likelihood', 'Categorical.likelihood', 'S3categoricalLikelihood',
             '(categories : List Nat) (probabilities : List F)', lambda s: {},
             lambda s: {s + '.distribution.pmf': pmf1(False)},
             '`self.distribution` = `rv_discrete(values=(self.categories, self.probabilities))` at every assignment', pre=cat_distribution)
    leaf_lik('leaf.Categorical.log_likelihood', 'Categorical.log_likelihood', 'S3categoricalLogLikelihood',
             '(categories : List Nat) (probabilities : List F)', lambda s: {},
             lambda s: {s + '.distribution.logpmf': pmf1(True)},
             '`self.distribution` = `rv_discrete(values=(self.categories, self.probabilities))`; `logpmf` = `log ∘ pmf`', pre=cat_distribution)

    # ---- (b) C05 / C04: split_rows_clusters, split_cols_clusters -------------------------------------------------------
    rows_py = T.parse_file(repo, 'deeprob/spn/learning/splitting/rows.py')
    cols_py = T.parse_file(repo, 'deeprob/spn/learning/splitting/cols.py')
    learnspn = T.parse_file(repo, 'deeprob/spn/learning/learnspn.py')

    def split_clusters(name, tree, qual, params, env, want, leans, sig, doc):
        def mk():
            fn = T.find_func(tree, qual)
            a = args_of(fn, params, qual)
            stmts = _skip_prologue(T, fn, [])
            loop = T.the([s for s in stmts if isinstance(s, ast.For)], f'{qual}: for loop')
            k = stmts.index(loop)
            ret = stmts[k + 1:]
            if not (len(ret) == 1 and isinstance(ret[0], ast.Return) and isinstance(ret[0].value, ast.Tuple)
                    and all(isinstance(x, ast.Name) for x in ret[0].value.elts) and len(ret[0].value.elts) == 2):
                raise U(f'{qual}: the loop is not followed by `return <list>, <list>`')
            accs = [x.id for x in ret[0].value.elts]
            pre = []
            for st in stmts[:k]:
                if isinstance(st, ast.Assign) and isinstance(st.targets[0], ast.Name) and st.targets[0].id in accs:
                    if ast.unparse(st.value).replace(' ', '') not in ('list()', '[]'):
                        raise U(f'{qual}: {st.targets[0].id} does not start empty')
                else:
                    pre.append(st)
            if sorted(st.targets[0].id for st in stmts[:k] if isinstance(st, ast.Assign) and isinstance(st.targets[0], ast.Name) and st.targets[0].id in accs) != sorted(accs):
                raise U(f'{qual}: the returned lists are not both initialised before the loop')
            tr = T.TrZ3(env={a[i]: v for i, v in env.items()}, funcs={'np.unique': ('Py3.unique', None)}, transparent=('tolist',))
            got = T.accumulate_loop(tr, pre, loop, accs)
            out = []
            for acc, w, (lean, ty, d) in zip(accs, want, leans):
                term, t = got[acc]
                if t != ('list', w):
                    raise U(f'{qual}: returned list `{acc}` holds {t[1]}, expected {w} (order of the returned pair changed?)')
                out.append(f'/-- `{qual}`: {d} — {doc} -/\ndef {lean} {sig} : {ty} :=\n  {term}')
            return '\n'.join(out)
        o.const(name, mk)

    split_clusters('rows.split_rows_clusters', rows_py, 'split_rows_clusters', ('data', 'clusters'),
                   {0: ('data', ('list', 'row')), 1: ('clusters', ('list', 'int'))}, [('list', 'row'), 'ratio'],
                   [('S3splitRowsSlices', 'List (List β)', 'first component of the returned pair (the slices)'),
                    ('S3splitRowsWeights', 'List (Int × Int)', 'second component (the weights, each as the exact pair (numerator, denominator) of the quotient)')],
                   '{β : Type} (data : List β) (clusters : List Int)', 'data = the rows, clusters = one label per row')
    split_clusters('cols.split_cols_clusters', cols_py, 'split_cols_clusters', ('data', 'clusters', 'scope'),
                   {0: ('data', ('clist', 'col')), 1: ('clusters', ('list', 'int')), 2: ('scope', ('list', 'item'))},
                   [('clist', 'col'), ('list', 'item')],
                   [('S3splitColsSlices', 'List (List β)', 'first component of the returned pair (the column slices)'),
                    ('S3splitColsScopes', 'List (List Nat)', 'second component (the scopes)')],
                   '{β : Type} (data : List β) (clusters : List Int) (scope : List Nat)',
                   'data = the columns, clusters = one label per column')

    # ---- (b) C05 / C04: learn_spn — Task records, re-queue, sub-tasks, child attachment of every operation ------------------
    TASK_TYPES = {'Node': ('N', 'node'), 'np.ndarray': ('D', 'data'), 'List[int]': ('S', 'scope'), 'bool': ('Bool', 'bool')}

    def task_fields():
        cls = T.the([c for c in learnspn.body if isinstance(c, ast.ClassDef) and c.name == 'Task'], 'class Task')
        if [ast.unparse(b) for b in cls.bases] != ['NamedTuple']:
            raise U('class Task is not a NamedTuple')
        fields = []
        for st in cls.body:
            if isinstance(st, ast.Expr) and isinstance(st.value, ast.Constant):
                continue
            if not (isinstance(st, ast.AnnAssign) and isinstance(st.target, ast.Name)):
                raise U('class Task: statement that is not a field declaration')
            ann = ast.unparse(st.annotation)
            if ann not in TASK_TYPES:
                raise U(f'class Task: field {st.target.id} of unknown type {ann}')
            dflt = None
            if st.value is not None:
                if not (isinstance(st.value, ast.Constant) and isinstance(st.value.value, bool)):
                    raise U(f'class Task: default of {st.target.id} is not a Boolean literal')
                dflt = st.value.value
            fields.append((st.target.id, TASK_TYPES[ann], dflt))
        return fields

    def task_struct():
        fs = task_fields()
        lines = [f'  {n} : {lt}' + ('' if d is None else f' := {"true" if d else "false"}') for n, (lt, _), d in fs]
        return ('/-- `learnspn.Task` (NamedTuple): fields in positional order with their defaults; N = nodes, D = data slices, S = scopes -/\n'
                'structure S3Task (N D S : Type) where\n' + '\n'.join(lines))
    o.const('learnspn.Task', task_struct)

    def task_tr(extra_env=None, syms=None):
        fs = task_fields()
        attrs = {n: (f'S3Task.{n}', ty) for n, (_, ty), _ in fs}
        env = {'task': ('task', 'obj')}
        env.update(extra_env or {})
        return T.TrZ3(env=env, attrs=attrs, syms=syms or {}), fs

    def task_literal(tr, fs, call):
        if not (isinstance(call, ast.Call) and T.dotted_name(call.func) == 'Task'):
            raise U('not a Task(...) construction: ' + ast.unparse(call))
        if len(call.args) > len(fs):
            raise U('Task(...): too many positional arguments')
        given = {}
        for (n, _, _), a in zip(fs, call.args):
            given[n] = a
        for k in call.keywords:
            if k.arg is None or k.arg in given or k.arg not in [n for n, _, _ in fs]:
                raise U('Task(...): bad keyword ' + str(k.arg))
            given[k.arg] = k.value
        parts = []
        for n, (_, ty), d in fs:
            if n in given:
                t, tty = tr.tr(given[n])
                if tty != ty:
                    raise U(f'Task(...): field {n} receives a value of kind {tty}, expected {ty}: ' + ast.unparse(given[n]))
            elif d is None:
                raise U(f'Task(...): field {n} is not given')
            else:
                t = 'true' if d else 'false'
            parts.append(f'{n} := {t}')
        return '{ ' + ', '.join(parts) + ' }'

    def learn_branches():
        fn = T.find_func(learnspn, 'learn_spn')
        loop = T.the([s for s in fn.body if isinstance(s, ast.While)], 'while loop of learn_spn')
        if ast.unparse(loop.test) != 'tasks':
            raise U('learn_spn: the loop is not `while tasks:`')
        chain = T.the([s for s in loop.body if isinstance(s, ast.If) and ast.unparse(s.test).replace(' ', '').startswith('op==OperationKind.')],
                      'learn_spn: if-chain on the operation')
        br, cur = {}, chain
        while True:
            br[ast.unparse(cur.test).replace(' ', '')[len('op==OperationKind.'):]] = cur.body
            if len(cur.orelse) == 1 and isinstance(cur.orelse[0], ast.If):
                cur = cur.orelse[0]
            else:
                if not (len(cur.orelse) == 1 and isinstance(cur.orelse[0], ast.Raise)):
                    raise U('learn_spn: the chain of operations does not end with a raise')
                break
        # the mask of the uninformative features
        zs = [t for st in loop.body if isinstance(st, ast.Assign) for t in st.targets
              if ast.unparse(st.value).replace(' ', '') == 'np.isclose(np.var(task.data,axis=0),0.0)']
        z = ast.unparse(T.the(zs, 'learn_spn: zero-variance mask'))
        pops = [st for st in loop.body if isinstance(st, ast.Assign) and ast.unparse(st.targets[0]) == 'task']
        pop = ast.unparse(T.the(pops, 'learn_spn: task = …').value).replace(' ', '')
        if not loop.body or pops[0] is not loop.body[0]:
            raise U('learn_spn: the loop does not start by taking the next task')
        return br, z, pop

    def is_call_stmt(st, text_prefix):
        return isinstance(st, ast.Expr) and isinstance(st.value, ast.Call) and ast.unparse(st.value.func).replace(' ', '') == text_prefix

    def interp(body, kind, z):
        """events of one operation branch, in source order"""
        ev = []
        bound = {}      # local name -> role
        for st in body:
            txt = ast.unparse(st).replace(' ', '')
            if isinstance(st, ast.Assign) and isinstance(st.targets[0], ast.Tuple) and [ast.unparse(x) for x in st.targets[0].elts] == ['dists', 'doms'] \
                    and not any(isinstance(c, ast.Call) for c in ast.walk(st.value)):
                continue                                   # distributions / domains of the scope: not modelled (leaf learning is abstract)
            if isinstance(st, ast.Assign) and isinstance(st.value, ast.Call):
                f = T.dotted_name(st.value.func) or ''
                tg = st.targets[0]
                if f in ('split_rows_func', 'split_cols_func') and isinstance(tg, ast.Name):
                    if not st.value.args or ast.unparse(st.value.args[0]) != 'task.data':
                        raise U(f'{kind}: the splitter is not consulted on task.data')
                    bound[tg.id] = 'clusters'
                    ev.append(('oracle', f))
                    continue
                if f in ('split_rows_clusters', 'split_cols_clusters') and isinstance(tg, ast.Tuple) and len(tg.elts) == 2:
                    args = [ast.unparse(a) for a in st.value.args]
                    want = ['task.data', '<clusters>'] + (['task.scope'] if f == 'split_cols_clusters' else [])
                    got = [('<clusters>' if bound.get(a) == 'clusters' else a) for a in args]
                    if got != want or st.value.keywords:
                        raise U(f'{kind}: {f} is not called with {want}')
                    bound[tg.elts[0].id] = 'slices'
                    bound[tg.elts[1].id] = 'weights' if f == 'split_rows_clusters' else 'scopes'
                    ev.append(('split', f))
                    continue
                if f in ('Sum', 'Product') and isinstance(tg, ast.Name):
                    bound[tg.id] = 'node'
                    ev.append(('node', f, st.value, tg.id))
                    continue
                if f in ('learn_leaf_func', 'learn_naive_factorization') and isinstance(tg, ast.Name):
                    bound[tg.id] = 'learned'
                    ev.append(('learned', f, st.value, tg.id))
                    continue
            if isinstance(st, ast.Assign) and isinstance(st.targets[0], ast.Name) and isinstance(st.value, ast.ListComp):
                sel = ast.unparse(st.value).replace(' ', '')
                for neg, role in (('', 'rem_scope'), ('~', 'oth_scope')):
                    if sel == f'[task.scope[i]fori,innp.argwhere({neg}{z})]':
                        bound[st.targets[0].id] = role
                        break
                else:
                    raise U(f'{kind}: unknown selection ' + ast.unparse(st))
                continue
            if isinstance(st, ast.Assign) and isinstance(st.targets[0], ast.Name) and st.targets[0].id == 'is_first':
                ev.append(('is_first', st.value))
                bound['is_first'] = 'is_first'
                continue
            if isinstance(st, ast.If) and not st.orelse and len(st.body) == 2 and isinstance(st.body[1], ast.Continue) \
                    and isinstance(st.body[0], ast.Expr) and isinstance(st.body[0].value, ast.Call):
                c = st.body[0].value
                f = ast.unparse(c.func).replace(' ', '')
                if f not in ('tasks.appendleft', 'tasks.append') or len(c.args) != 1:
                    raise U(f'{kind}: the single-slice branch does not re-queue through tasks.append(left)')
                ev.append(('requeue', st.test, f.split('.')[1], c.args[0]))
                continue
            if isinstance(st, ast.For) and len(st.body) == 1 and is_call_stmt(st.body[0], 'tasks.append') and not st.orelse:
                ev.append(('subtasks', st, st.body[0].value.args[0]))
                continue
            if is_call_stmt(st, 'tasks.append') and len(st.value.args) == 1:
                ev.append(('subtask1', st.value.args[0]))
                continue
            if isinstance(st, ast.Expr) and isinstance(st.value, ast.Call) and isinstance(st.value.func, ast.Attribute) \
                    and st.value.func.attr == 'append' and ast.unparse(st.value.func.value).endswith('.children') and len(st.value.args) == 1:
                par = ast.unparse(st.value.func.value)[:-len('.children')]
                ch = ast.unparse(st.value.args[0])
                ev.append(('attach', bound.get(par, par), bound.get(ch, ch)))
                continue
            raise U(f'learn_spn, {kind}: statement not understood: ' + ast.unparse(st).splitlines()[0])
        return ev, bound

    SIG = '{N D S : Type}'

    def learn_split(kind, lean, second, node_cls):
        def mk():
            br, z, pop = learn_branches()
            if kind not in br:
                raise U(f'learn_spn: no branch for {kind}')
            ev, bound = interp(br[kind], kind, z)
            order = [e[0] for e in ev]
            if order != ['oracle', 'split', 'requeue', 'node', 'subtasks', 'attach']:
                raise U(f'learn_spn, {kind}: statements are not (splitter, split_*_clusters, single-slice re-queue, node, sub-tasks, attach) but {order}')
            inv = {v: k for k, v in bound.items()}
            sl, snd = inv['slices'], inv[second]
            tr, fs = task_tr({sl: ('slices', ('list', 'data'))})
            _, test, where, tcall = ev[2]
            single = tr.as_bool(tr.tr(test))
            req = task_literal(tr, fs, tcall)
            _, cls, ctor, nname = ev[3]
            if cls != node_cls:
                raise U(f'learn_spn, {kind}: the node created is a {cls}, expected {node_cls}')
            cargs = [ast.unparse(a) for a in ctor.args] + [f'{k.arg}={ast.unparse(k.value)}' for k in ctor.keywords]
            want_args = ['task.scope'] + ([f'weights={snd}'] if second == 'weights' else [])
            if cargs != want_args:
                raise U(f'learn_spn, {kind}: the node is not built as {cls}({", ".join(want_args)})')
            _, loop, tcall2 = ev[4]
            env2 = {sl: ('slices', ('list', 'data')), nname: ('node', 'node')}
            if second == 'scopes':
                env2[snd] = ('scopes', ('list', 'scope'))
            tr2, _ = task_tr(env2)
            it = ast.unparse(loop.iter).replace(' ', '')
            if it == sl and isinstance(loop.target, ast.Name):
                sub = tr2.child(**{loop.target.id: (T.lid(loop.target.id), 'data')})
                subt = f'(slices.map (fun {T.lid(loop.target.id)} => ({task_literal(sub, fs, tcall2)} : S3Task N D S)))'
            elif it == f'enumerate({sl})' and isinstance(loop.target, ast.Tuple) and len(loop.target.elts) == 2:
                i, d = [x.id for x in loop.target.elts]
                sub = tr2.child(**{d: (T.lid(d), 'data'), i: (T.lid(i), 'int')})
                subt = (f'(slices.zipIdx.map (fun p => let {T.lid(d)} := p.1; let {T.lid(i)} := ((p.2 : Nat) : Int);\n'
                        f'    ({task_literal(sub, fs, tcall2)} : S3Task N D S)))')
            else:
                raise U(f'learn_spn, {kind}: the sub-task loop is not over the slices')
            _, par, ch = ev[5]
            if (par, ch) != ('task.parent', 'node'):
                raise U(f'learn_spn, {kind}: the new node is not appended to task.parent.children but {ch} to {par}.children')
            inh = ' [Inhabited S]' if second == 'scopes' else ''
            extra = ' (scopes : List S)' if second == 'scopes' else ''
            return (f'/-- `learn_spn`, {kind}: the test of the single-slice branch on the slices returned by `{ev[1][1]}` -/\n'
                    f'def {lean}Single {{D : Type}} (slices : List D) : Bool := {single}\n'
                    f'/-- … the task re-queued by that branch (followed by `continue`), and the deque method used -/\n'
                    f'def {lean}Requeue {SIG} (task : S3Task N D S) : S3Task N D S :=\n  {req}\n'
                    f'def {lean}RequeueAt : String := {T.lean_str(where)}\n'
                    f'/-- … otherwise: the class of the node created from `task.scope`' + (' and the weights' if second == 'weights' else '') +
                    ', the sub-tasks pushed with `tasks.append` (one per slice, in order), and the node is appended to `task.parent.children` -/\n'
                    f'def {lean}NodeClass : String := {T.lean_str(cls)}\n'
                    f'def {lean}Subtasks {SIG}{inh} (task : S3Task N D S) (node : N) (slices : List D){extra} : List (S3Task N D S) :=\n  {subt}')
        o.const('learnspn.' + kind, mk)
    learn_split('SPLIT_ROWS', 'S3learnRows', 'weights', 'Sum')
    learn_split('SPLIT_COLS', 'S3learnCols', 'scopes', 'Product')

    def learn_simple(kind, lean, func):
        def mk():
            br, z, pop = learn_branches()
            if kind not in br:
                raise U(f'learn_spn: no branch for {kind}')
            ev, bound = interp(br[kind], kind, z)
            if [e[0] for e in ev] != ['learned', 'attach']:
                raise U(f'learn_spn, {kind}: statements are not (learn, attach) but {[e[0] for e in ev]}')
            _, f, call, nm = ev[0]
            args = [ast.unparse(a) for a in call.args]
            if f != func or args != ['task.data', 'dists', 'doms', 'task.scope']:
                raise U(f'learn_spn, {kind}: the node is not {func}(task.data, dists, doms, task.scope, …)')
            if (ev[1][1], ev[1][2]) != ('task.parent', 'learned'):
                raise U(f'learn_spn, {kind}: the learned node is not appended to task.parent.children')
            return (f'/-- `learn_spn`, {kind}: `{func}(task.data, dists, doms, task.scope, …)` is appended to `task.parent.children`; no task is pushed: '
                    f'(function, data, scope, parent) -/\n'
                    f'def {lean} : String × String × String × String := ({T.lean_str(func)}, "task.data", "task.scope", "task.parent")')
        o.const('learnspn.' + kind, mk)
    learn_simple('CREATE_LEAF', 'S3learnLeaf', 'learn_leaf_func')
    learn_simple('SPLIT_NAIVE', 'S3learnNaive', 'learn_naive_factorization')

    def learn_rem():
        kind = 'REM_FEATURES'
        br, z, pop = learn_branches()
        if kind not in br:
            raise U(f'learn_spn: no branch for {kind}')
        ev, bound = interp(br[kind], kind, z)
        order = [e[0] for e in ev]
        if order != ['node', 'learned', 'attach', 'is_first', 'subtask1', 'attach']:
            raise U(f'learn_spn, {kind}: statements are not (node, naive, attach naive, is_first, sub-task, attach) but {order}')
        _, cls, ctor, nname = ev[0]
        if cls != 'Product' or [ast.unparse(a) for a in ctor.args] != ['task.scope'] or ctor.keywords:
            raise U(f'learn_spn, {kind}: the node is not Product(task.scope)')
        _, f, call, lname = ev[1]
        inv = {v: k for k, v in bound.items()}
        if f != 'learn_naive_factorization' or [ast.unparse(a) for a in call.args] != [f'task.data[:, {z}]', 'dists', 'doms', inv.get('rem_scope', '?')]:
            raise U(f'learn_spn, {kind}: the removed features are not modelled by learn_naive_factorization(task.data[:, {z}], dists, doms, rem_scope, …)')
        if (ev[2][1], ev[2][2]) != ('node', 'learned') or (ev[5][1], ev[5][2]) != ('task.parent', 'node'):
            raise U(f'learn_spn, {kind}: attachments are not (naive under node, node under task.parent)')
        tr, fs = task_tr({'tasks': ('tasks', ('list', 'task')), nname: ('node', 'node'), inv.get('oth_scope', '?'): ('othScope', 'scope')},
                         syms={f'task.data[:, ~{z}]': ('othData', 'data')})
        isf = tr.as_bool(tr.tr(ev[3][1]))
        tr2 = tr.child(is_first=('is_first', 'bool'))
        lit = task_literal(tr2, fs, ev[4][1])
        return (f'/-- `learn_spn`, {kind}: `node = Product(task.scope)`, the naive factorisation of the removed features is its first child, then the '
                'single sub-task pushed with `tasks.append` (othData = `task.data[:, ~mask]`, othScope = the scope entries where the mask is false, '
                '`tasks` = the deque after the pop), then `node` is appended to `task.parent.children` -/\n'
                f'def S3learnRemSubtask {SIG} (task : S3Task N D S) (tasks : List (S3Task N D S)) (node : N) (othData : D) (othScope : S) : S3Task N D S :=\n'
                f'  let is_first := {isf};\n  {lit}')
    o.const('learnspn.REM_FEATURES', learn_rem)

    def learn_loop():
        br, z, pop = learn_branches()
        if pop != 'tasks.popleft()':
            raise U('learn_spn: the next task is not taken with tasks.popleft()')
        fn = T.find_func(learnspn, 'learn_spn')
        r = T.the(T.returns(fn), 'return of learn_spn')
        first = [c for c in ast.walk(fn) if isinstance(c, ast.Call) and ast.unparse(c.func) == 'tasks.append' and not any(
            isinstance(a, ast.While) for a in T.ancestors(fn, c))]
        init = T.the(T.the(first, 'initial tasks.append').args, 'initial task')
        # the temporary parent: `<tmp> = Product(<scope>)` with `<scope> = list(range(n_features))`, both outside the loop
        tmps = [(st.targets[0].id, ast.unparse(st.value.args[0])) for st in fn.body if isinstance(st, ast.Assign) and isinstance(st.targets[0], ast.Name)
                and isinstance(st.value, ast.Call) and T.dotted_name(st.value.func) == 'Product' and len(st.value.args) == 1 and not st.value.keywords]
        tmp, sc = T.the(tmps, 'temporary Product node of learn_spn')
        if ast.unparse(T.the(T.assignments(fn, sc), sc)).replace(' ', '') != 'list(range(n_features))':
            raise U('learn_spn: the initial scope is not list(range(n_features))')
        tr, fs = task_tr({tmp: ('tmpNode', 'node'), 'data': ('data', 'data'), sc: ('initialScope', 'scope')})
        lit = task_literal(tr, fs, init)
        if not (isinstance(r, ast.Call) and T.dotted_name(r.func) == 'assign_ids' and len(r.args) == 1 and isinstance(r.args[0], ast.Name)):
            raise U('learn_spn: does not return assign_ids(<name>)')
        root = ast.unparse(T.the(T.assignments(fn, r.args[0].id), 'returned node')).replace(' ', '')
        if root != f'{tmp}.children[0]':
            raise U(f'learn_spn: the returned node is {root}, not the first child of the temporary node')
        return ('/-- `learn_spn`: the next task is taken from the LEFT end of the deque; the operations in the order of the `if … elif` chain; '
                'the initial task; the result is the first child of the temporary node -/\n'
                f'def S3learnPop : String := {T.lean_str(pop)}\n'
                f'def S3learnOps : List String := {T.lean_list([T.lean_str(k) for k in br])}\n'
                f'def S3learnInitial {SIG} (tmpNode : N) (data : D) (initialScope : S) : S3Task N D S :=\n  {lit}\n'
                'def S3learnResult : String := "tmpNode.children[0]"')
    o.const('learnspn.loop', learn_loop)

    # ---- (c) C18: BinaryCNet.log_likelihood — the routing loop ---------------------------------------------------------------
    cnet = T.parse_file(repo, 'deeprob/spn/structure/cnet.py')

    def cnet_loop():
        q = 'BinaryCNet.log_likelihood'
        fn = T.find_func(cnet, q)
        a = args_of(fn, ('self', 'x'), q)
        stmts = _skip_prologue(T, fn, [])
        loop = T.the([s for s in stmts if isinstance(s, ast.While)], f'{q}: while loop')
        k = stmts.index(loop)
        pre = {T.target_key(s.targets[0]): ast.unparse(s.value).replace(' ', '') for s in stmts[:k] if isinstance(s, ast.Assign)}
        if len(pre) != k:
            raise U(f'{q}: statements before the loop are not all assignments')
        stack = ast.unparse(loop.test)
        acc = T.the([n for n, v in pre.items() if v.startswith('np.zeros(')], f'{q}: accumulator')
        rootn = T.the([n for n, v in pre.items() if v in (f'copy.copy({a[0]})', f'copy({a[0]})')], f'{q}: root copy')
        want = {f'(n_samples,n_features)': f'{a[1]}.shape', f'({rootn}.row_indices,{rootn}.col_indices)': '(np.arange(n_samples),np.arange(n_features))',
                stack: f'[{rootn}]', acc: 'np.zeros(n_samples)', rootn: pre[rootn]}
        if pre != want:
            raise U(f'{q}: initialisation is not (rows = arange(n_samples), cols = arange(n_features), stack = [root], zeros(n_samples)) but {pre}')
        if not (len(stmts) == k + 2 and isinstance(stmts[-1], ast.Return) and ast.unparse(stmts[-1].value) == acc):
            raise U(f'{q}: the loop is not followed by `return {acc}`')
        body = list(loop.body)
        # node = stack.pop(0)
        s0 = body.pop(0)
        if not (isinstance(s0, ast.Assign) and isinstance(s0.targets[0], ast.Name) and ast.unparse(s0.value).replace(' ', '') == f'{stack}.pop(0)'):
            raise U(f'{q}: the loop does not start with `<node> = {stack}.pop(0)`')
        nd = s0.targets[0].id
        s1 = body.pop(0)
        if not (isinstance(s1, ast.Assign) and isinstance(s1.targets[0], ast.Name)
                and ast.unparse(s1.value).replace(' ', '') == f'{a[1]}[{nd}.row_indices][:,{nd}.col_indices]'):
            raise U(f'{q}: the partition is not x[node.row_indices][:, node.col_indices]')
        part = s1.targets[0].id
        s2 = body.pop(0)
        leaf_txt = f'{acc}[{nd}.row_indices]+={nd}.clt.log_likelihood({part}).squeeze()'
        if not (isinstance(s2, ast.If) and not s2.orelse and len(s2.body) == 2 and isinstance(s2.body[1], ast.Continue)
                and ast.unparse(s2.test).replace(' ', '') in (f'{nd}.__is_leaf()', f'{nd}._BinaryCNet__is_leaf()')
                and ast.unparse(s2.body[0]).replace(' ', '') == leaf_txt):
            raise U(f'{q}: the leaf branch is not `if node.__is_leaf(): {leaf_txt}; continue`')
        # symbolic execution of the OR-node part
        tr = T.TrZ3(env={nd: ('node', 'obj')},
                    attrs={'row_indices': ('rowIdx', ('list', 'item')), 'col_indices': ('colIdx', ('list', 'item'))},
                    funcs={})
        tr.syms[f'{nd}.row_indices'] = ('rowIdx', ('list', 'item'))
        tr.syms[f'{nd}.col_indices'] = ('colIdx', ('list', 'item'))
        lets, kids, pushes, adds = [], {}, [], []
        idxname = None
        for st in body:
            txt = ast.unparse(st).replace(' ', '')
            if isinstance(st, ast.Assign) and isinstance(st.targets[0], ast.Name):
                nm, v = st.targets[0].id, st.value
                if txt == f'{nm}={nd}.scope.index({nd}.or_id)':
                    idxname = nm
                    tr.env[nm] = ('nodeIdx', 'item')
                    tr.syms[f'{part}[:,{nm}]'] = ('cutcol', ('list', 'int'))
                    continue
                for pat in (f'copy.copy({nd}.children[', f'copy({nd}.children['):
                    if ast.unparse(v).replace(' ', '').startswith(pat) and isinstance(v.args[0], ast.Subscript):
                        kids[nm] = int(T.const_value(v.args[0].slice))
                        break
                else:
                    raise U(f'{q}: assignment not understood: ' + ast.unparse(st))
                continue
            if isinstance(st, ast.Assign) and isinstance(st.targets[0], ast.Attribute) and isinstance(st.targets[0].value, ast.Name) \
                    and st.targets[0].value.id in kids and st.targets[0].attr in ('row_indices', 'col_indices'):
                v = st.value
                if isinstance(v, ast.Call) and (T.dotted_name(v.func) or '') == 'np.delete' and len(v.args) == 1 \
                        and [kw.arg for kw in v.keywords] == ['obj']:
                    arr, ty = tr.tr(v.args[0])
                    ob, oty = tr.tr(v.keywords[0].value)
                    if ty != ('list', 'item') or oty != 'item':
                        raise U(f'{q}: np.delete is not applied to (indices, position)')
                    term, ty = f'(Py3.delete {arr} {ob})', ('list', 'item')
                else:
                    term, ty = tr.tr(v)
                if ty != ('list', 'item'):
                    raise U(f'{q}: {ast.unparse(st.targets[0])} does not receive a list of indices')
                lname = f'{st.targets[0].value.id}_{st.targets[0].attr}'
                lets.append(f'let {lname} := {term};')
                tr.syms[ast.unparse(st.targets[0]).replace(' ', '')] = (lname, ('list', 'item'))
                continue
            if isinstance(st, ast.AugAssign) and isinstance(st.op, ast.Add) and isinstance(st.target, ast.Subscript) and ast.unparse(st.target.value) == acc:
                rows, rty = tr.tr(st.target.slice)
                v = st.value
                if not (rty == ('list', 'item') and isinstance(v, ast.Call) and (T.dotted_name(v.func) or '') == 'np.log' and len(v.args) == 1
                        and isinstance(v.args[0], ast.Subscript) and ast.unparse(v.args[0].value) == f'{nd}.weights'):
                    raise U(f'{q}: update of {acc} that is not `{acc}[<rows>] += np.log(node.weights[k])`')
                adds.append((rows, int(T.const_value(v.args[0].slice))))
                continue
            if is_call_stmt(st, f'{stack}.append') and len(st.value.args) == 1 and isinstance(st.value.args[0], ast.Name) and st.value.args[0].id in kids:
                c = st.value.args[0].id
                if f'{c}.row_indices' not in tr.syms or f'{c}.col_indices' not in tr.syms:
                    raise U(f'{q}: {c} is pushed before its row / column indices are set')
                pushes.append((kids[c], tr.syms[f'{c}.row_indices'][0], tr.syms[f'{c}.col_indices'][0]))
                continue
            raise U(f'{q}: statement of the loop not understood: ' + ast.unparse(st).splitlines()[0])
        if idxname is None or not pushes or not adds:
            raise U(f'{q}: the OR-node part does not route, weigh and push')
        body_l = '\n  '.join(lets)
        pl = ', '.join(f'({k}, {r}, {c})' for k, r, c in pushes)
        al = ', '.join(f'({r}, {k})' for r, k in adds)
        return ('/-- `BinaryCNet.log_likelihood`, one iteration at an OR node (`node = node_stack.pop(0)`, not a leaf): rowIdx / colIdx = '
                '`node.row_indices` / `node.col_indices`, nodeIdx = `node.scope.index(node.or_id)`, cutcol = `partition[:, node_idx]` (one value per '
                'entry of rowIdx).  Result: the children pushed with `node_stack.append`, in order, as (k of `node.children[k]`, row indices, column '
                'indices); and the updates `log_likes[rows] += np.log(node.weights[k])`, in order, as (rows, k) -/\n'
                'def S3cnetOrStep (rowIdx colIdx : List Nat) (nodeIdx : Nat) (cutcol : List Int) :\n'
                '    List (Nat × List Nat × List Nat) × List (List Nat × Nat) :=\n'
                f'  {body_l}\n  ([{pl}], [{al}])\n'
                '/-- … `node_idx` -/\n'
                'def S3cnetNodeIdx (scope : List Nat) (orId : Nat) : Nat := scope.idxOf orId\n'
                '/-- … the leaf branch `log_likes[node.row_indices] += node.clt.log_likelihood(partition).squeeze(); continue` (present, first in the '
                'loop body after the partition), the pop side of the work list, the start: rows = `arange(n_samples)`, columns = '
                '`arange(n_features)`, `log_likes = zeros(n_samples)`, work list `[root]` -/\n'
                'def S3cnetLeafAdds : String × String := ("node.row_indices", "node.clt.log_likelihood(partition).squeeze()")\n'
                'def S3cnetPop : String := "pop(0)"\n'
                'def S3cnetInit (nSamples nFeatures : Nat) : List Nat × List Nat := (List.range nSamples, List.range nFeatures)')
    o.const('cnet.log_likelihood', cnet_loop)

    # ---- (d) C19: moments.moment / leaf_moment — the recursion reuses the evaluation recursion ------------------------------------
    moments_py = T.parse_file(repo, 'deeprob/spn/algorithms/moments.py')

    def moment_api():
        fn = T.find_func(moments_py, 'moment')
        a = args_of(fn, ('root', 'order'), 'moment')
        imps = [al.name for st in moments_py.body if isinstance(st, ast.ImportFrom) and st.module == 'deeprob.spn.algorithms.inference' for al in st.names]
        defs = [n.name for n in moments_py.body if isinstance(n, ast.FunctionDef)]
        if 'node_likelihood' not in imps or 'node_likelihood' in defs:
            raise U('moments.py: node_likelihood is not the function of algorithms/inference.py')
        stmts = _skip_prologue(T, fn, [])
        sc = T.the([s for s in stmts if isinstance(s, ast.Assign) and ast.unparse(s.value) == f'{a[0]}.scope'], 'moment: scope = root.scope')
        scn = sc.targets[0].id
        tr = T.TrZ(env={a[1]: ('order', 'int')})
        cases, acts, mat = [], [], None
        for st in stmts:
            if st is sc:
                continue
            if isinstance(st, ast.If) and not st.orelse and len(st.body) == 1 and isinstance(st.body[0], (ast.Raise, ast.Return)):
                if mat is not None:
                    raise U('moment: a guard after the matrix of ones')
                cases.append(tr.as_bool(tr.tr(st.test)))
                if isinstance(st.body[0], ast.Raise):
                    acts.append('raise')
                else:
                    r = ast.unparse(st.body[0].value).replace(' ', '')
                    if r != f'np.ones(len({scn}),dtype=np.float32)':
                        raise U('moment: early return is not np.ones(len(scope))')
                    acts.append('ones')
                continue
            if isinstance(st, ast.Assign) and isinstance(st.targets[0], ast.Name) and mat is None:
                if ast.unparse(st.value).replace(' ', '') != f'np.ones(shape=[len({scn}),len({scn})],dtype=np.float32)':
                    raise U('moment: the input of the bottom-up pass is not np.ones(shape=[len(scope), len(scope)])')
                mat = st.targets[0].id
                continue
            if isinstance(st, ast.Return) and st is stmts[-1] and mat is not None:
                c = st.value
                if not (isinstance(c, ast.Call) and T.dotted_name(c.func) == 'eval_bottom_up' and [ast.unparse(x) for x in c.args] == [a[0], mat]):
                    raise U('moment: does not return eval_bottom_up(root, <ones>, …)')
                kws = {k.arg: ast.unparse(k.value).replace(' ', '') for k in c.keywords}
                if kws != {'leaf_func': 'leaf_moment', 'node_func': 'node_likelihood', 'leaf_func_kwargs': "{'order':" + a[1] + "}"}:
                    raise U(f'moment: eval_bottom_up keywords are {kws}')
                acts.append('bottom_up')
                continue
            raise U('moment: statement not understood: ' + ast.unparse(st).splitlines()[0])
        if acts[-1:] != ['bottom_up']:
            raise U('moment: no bottom-up pass')
        body = ''.join(f'if {c} then {k}\n  else ' for k, c in enumerate(cases)) + str(len(cases))
        return ('/-- `moments.moment(root, order)`: which of its exits is taken (index into `S3momentExits`); the bottom-up pass runs on '
                '`np.ones([len(scope), len(scope)])` with `leaf_func=leaf_moment`, `node_func=node_likelihood` (of inference.py), `order` passed on -/\n'
                f'def S3momentCase (order : Int) : Nat :=\n  {body}\n'
                f'def S3momentExits : List String := {T.lean_list([T.lean_str(x) for x in acts])}\n'
                'def S3momentNodeFunc : String := "inference.node_likelihood"')
    o.const('moments.moment', moment_api)

    def leaf_moment():
        fn = T.find_func(moments_py, 'leaf_moment')
        a = args_of(fn, ('node', 'x', 'order'), 'leaf_moment')
        def mom(tr, call):
            kws = {k.arg: ast.unparse(k.value) for k in call.keywords}
            args = [ast.unparse(x) for x in call.args]
            if not ((kws == {'k': a[2]} and not args) or (args == [a[2]] and not kws)):
                raise U('leaf_moment: node.moment is not called with the order')
            return '(leafMoment v)', 'num', 'P0'
        tr = T.TrA(env={a[1]: ('x', 'num', 'R')}, syms={f'{a[0]}.scope': ('scope', 'idx', 'P1')}, funcs={f'{a[0]}.moment': mom})
        tr.rowvar = 'v'
        body, _ = tr.body_value(fn, want=('num', 'R'))
        return ('/-- `moments.leaf_moment(node, x, order)`, entry `v` of the returned vector (one entry per variable, `len(x)` = number of '
                'variables): scope = `node.scope`, `leafMoment v` = the entry of `node.moment(k=order)` stored at position `v` -/\n'
                f'def S3leafMoment (scope : List Nat) (leafMoment : Nat → F) (v : Nat) : F :=\n  {body}')
    o.formula('moments.leaf_moment', leaf_moment)

    # ---- (e) C20: SPNClassifier.predict_log_proba / predict_proba / predict ---------------------------------------------------------
    sk = T.parse_file(repo, 'deeprob/spn/models/sklearn.py')

    def nan_column(e, xname):
        """`np.hstack([X, <NaN column of len(X) rows>])` -> True"""
        t = ast.unparse(e).replace(' ', '')
        return t in (f'np.hstack([{xname},np.tile(np.nan,[len({xname}),1])])', f'np.hstack([{xname},np.full([len({xname}),1],np.nan)])')

    def predict_log_proba():
        q = 'SPNClassifier.predict_log_proba'
        fn = T.find_func(sk, q)
        a = args_of(fn, ('self', 'X'), q)
        imps = [al.name for st in sk.body if isinstance(st, ast.ImportFrom) and st.module == 'scipy.special' for al in st.names]
        if 'log_softmax' not in imps:
            raise U('sklearn.py: log_softmax is not imported from scipy.special')
        stmts = _skip_prologue(T, fn, [])
        if len(stmts) < 4:
            raise U(f'{q}: too few statements')
        d, l, c = stmts[0], stmts[1], stmts[2]
        if not (isinstance(d, ast.Assign) and isinstance(d.targets[0], ast.Name) and nan_column(d.value, a[1])):
            raise U(f'{q}: the evaluated data is not np.hstack([X, <NaN column>]) (label last, missing)')
        dn = d.targets[0].id
        if not (isinstance(l, ast.Assign) and isinstance(l.targets[0], ast.Tuple) and len(l.targets[0].elts) == 2
                and ast.unparse(l.value).replace(' ', '') == f'log_likelihood({a[0]}.spn_,{dn},return_results=True)'):
            raise U(f'{q}: the node values are not `_, lls = log_likelihood(self.spn_, data, return_results=True)`')
        ln = l.targets[0].elts[1].id
        if not (isinstance(c, ast.Assign) and isinstance(c.targets[0], ast.Name) and isinstance(c.value, ast.ListComp)
                and len(c.value.generators) == 1 and not c.value.generators[0].ifs
                and ast.unparse(c.value.generators[0].iter) == f'{a[0]}.spn_.children'
                and ast.unparse(c.value.elt) == ast.unparse(c.value.generators[0].target) + '.id'):
            raise U(f'{q}: the class rows are not selected by [c.id for c in self.spn_.children]')
        cn = c.targets[0].id
        tr = T.TrA(syms={f'{ln}[{cn}]': ('lls', 'num', 'CV'), f'{a[0]}.spn_.weights': ('w', 'num', 'P1')})
        rest = ast.FunctionDef(name='predict_log_proba', body=stmts[3:])
        body, _ = tr.body_value(rest, want=('num', 'RV'))
        return ('/-- `SPNClassifier.predict_log_proba` on one row of `X`: the label is appended as the LAST column and is missing; w = `self.spn_.weights`, '
                'lls = that row of `lls[class_ids].T` (log-value of every child of the root, in child order) -/\n'
                f'def S3predictLogProba (w lls : List F) : List F :=\n  {body}')
    o.formula('sklearn.predict_log_proba', predict_log_proba)

    def predict_proba():
        q = 'SPNClassifier.predict_proba'
        predict_log_proba()        # the definition below mentions S3predictLogProba: no predict_proba without it
        fn = T.find_func(sk, q)
        a = args_of(fn, ('self', 'X'), q)
        def plp(tr, call):
            if [ast.unparse(x) for x in call.args] != [a[1]] or call.keywords:
                raise U(f'{q}: predict_log_proba is not applied to X')
            return '(S3predictLogProba E w lls)', 'num', 'RV'
        tr = T.TrA(funcs={f'{a[0]}.predict_log_proba': plp})
        body, _ = tr.body_value(fn, want=('num', 'RV'))
        return ('/-- `SPNClassifier.predict_proba` on one row of `X` -/\n'
                f'def S3predictProba (w lls : List F) : List F :=\n  {body}')
    o.formula('sklearn.predict_proba', predict_proba)

    def predict():
        q = 'SPNClassifier.predict'
        fn = T.find_func(sk, q)
        a = args_of(fn, ('self', 'X'), q)
        stmts = _skip_prologue(T, fn, [])
        if len(stmts) != 3:
            raise U(f'{q}: expected (data, mpe, return)')
        d, m, r = stmts
        if not (isinstance(d, ast.Assign) and isinstance(d.targets[0], ast.Name) and nan_column(d.value, a[1])):
            raise U(f'{q}: the completed data is not np.hstack([X, <NaN column>])')
        dn = d.targets[0].id
        imps = [al.name for st in sk.body if isinstance(st, ast.ImportFrom) and st.module == 'deeprob.spn.algorithms.inference' for al in st.names]
        if 'mpe' not in imps:
            raise U('sklearn.py: mpe is not imported from algorithms/inference.py')
        if not (isinstance(m, ast.Expr) and ast.unparse(m.value).replace(' ', '') == f'mpe({a[0]}.spn_,{dn},inplace=True)'):
            raise U(f'{q}: the completion is not mpe(self.spn_, data, inplace=True)')
        if not (isinstance(r, ast.Return) and ast.unparse(r.value).replace(' ', '') == f'{dn}[:,-1]'):
            raise U(f'{q}: does not return the last column of the completed data')
        return ('/-- `SPNClassifier.predict`: the label is appended as the last column, missing; the rows are completed in place by `inference.mpe` on the '
                'classifier\'s circuit; the last column is returned -/\n'
                'def S3predictSteps : List String := ["hstack([X, nan])", "inference.mpe(spn, data, inplace=True)", "data[:, -1]"]')
    o.const('sklearn.predict', predict)

    # ---- (f) C13: io.spn_to_digraph / digraph_to_spn — which attributes are written, rounding, edge attribute, child placement ----------
    io = T.parse_file(repo, 'deeprob/spn/structure/io.py')

    def round_digits(e, var):
        """`round(float(<var>), d)` / `round(<var>, d)` -> d"""
        if isinstance(e, ast.Call) and T.dotted_name(e.func) == 'round' and len(e.args) == 2 and not e.keywords:
            x = e.args[0]
            if isinstance(x, ast.Call) and T.dotted_name(x.func) == 'float' and len(x.args) == 1:
                x = x.args[0]
            if isinstance(x, ast.Name) and x.id == var:
                d = T.const_value(e.args[1])
                if d.denominator == 1 and d >= 0:
                    return int(d)
        raise U('not round(<value>, <digits>): ' + ast.unparse(e))

    def dict_items(e, what):
        if not (isinstance(e, ast.Dict) and all(isinstance(k, ast.Constant) and isinstance(k.value, str) for k in e.keys)):
            raise U(f'{what}: attr is not a dictionary literal with string keys')
        return [(k.value, ast.unparse(v)) for k, v in zip(e.keys, e.values)]

    def io_write():
        q = 'spn_to_digraph'
        fn = T.find_func(io, q)
        loops = [s for s in fn.body if isinstance(s, ast.For)]
        if len(loops) != 2 or any(ast.unparse(l.iter) != 'nodes' or not isinstance(l.target, ast.Name) for l in loops):
            raise U(f'{q}: expected the node loop and the edge loop over `nodes`')
        if ast.unparse(T.the(T.assignments(fn, 'nodes'), 'nodes')).replace(' ', '') != 'topological_order(root)':
            raise U(f'{q}: nodes is not topological_order(root)')
        nl, el = loops
        nd = nl.target.id
        if len(nl.body) != 2 or not isinstance(nl.body[0], ast.If):
            raise U(f'{q}: the node loop is not (class cases, add_node)')
        if ast.unparse(nl.body[1]).replace(' ', '') != f'graph.add_node({nd}.id,**attr)':
            raise U(f'{q}: the node is not added with graph.add_node(node.id, **attr)')
        cases, cur = {}, nl.body[0]
        while True:
            t = ast.unparse(cur.test).replace(' ', '')
            pre = f'isinstance({nd},'
            if not (t.startswith(pre) and t.endswith(')')):
                raise U(f'{q}: a case of the node loop is not an isinstance test')
            cases[t[len(pre):-1]] = cur.body
            if len(cur.orelse) == 1 and isinstance(cur.orelse[0], ast.If):
                cur = cur.orelse[0]
            else:
                if not (len(cur.orelse) == 1 and isinstance(cur.orelse[0], ast.Raise)):
                    raise U(f'{q}: the class cases do not end with a raise')
                break
        if list(cases) != ['Sum', 'Product', 'Leaf']:
            raise U(f'{q}: class cases are {list(cases)}')
        # Sum: weights = [round(float(w), 8) for w in node.weights]; attr = {...}
        sb = cases['Sum']
        if not (len(sb) == 2 and all(isinstance(s, ast.Assign) for s in sb) and isinstance(sb[0].value, ast.ListComp)
                and len(sb[0].value.generators) == 1 and not sb[0].value.generators[0].ifs
                and ast.unparse(sb[0].value.generators[0].iter) == f'{nd}.weights' and isinstance(sb[0].value.generators[0].target, ast.Name)):
            raise U(f'{q}: Sum case is not (rounded weights, attr)')
        wd = round_digits(sb[0].value.elt, sb[0].value.generators[0].target.id)
        wname = sb[0].targets[0].id
        sum_attr = [(k, ('<rounded weights>' if v == wname else v)) for k, v in dict_items(sb[1].value, 'Sum')]
        pb = cases['Product']
        if not (len(pb) == 1 and isinstance(pb[0], ast.Assign)):
            raise U(f'{q}: Product case is not a single attr assignment')
        prod_attr = dict_items(pb[0].value, 'Product')
        # Leaf: params = node.params_dict(); for name, value in params.items(): <cases>; attr = {...}
        lb = cases['Leaf']
        if not (len(lb) == 3 and isinstance(lb[0], ast.Assign) and ast.unparse(lb[0].value).replace(' ', '') == f'{nd}.params_dict()'
                and isinstance(lb[1], ast.For) and isinstance(lb[2], ast.Assign)):
            raise U(f'{q}: Leaf case is not (params_dict, conversion loop, attr)')
        pn = lb[0].targets[0].id
        lp = lb[1]
        if not (ast.unparse(lp.iter).replace(' ', '') == f'{pn}.items()' and isinstance(lp.target, ast.Tuple) and len(lp.target.elts) == 2):
            raise U(f'{q}: the conversion loop is not over params.items()')
        kn, vn = [x.id for x in lp.target.elts]
        conv = []
        def leafcases(st, path):
            import re
            t = re.sub(r'\b' + re.escape(vn) + r'\b', 'value', ast.unparse(st.test))
            for b in st.body:
                if isinstance(b, ast.If):
                    leafcases(b, path + [t])
                elif isinstance(b, ast.Assign) and ast.unparse(b.targets[0]).replace(' ', '') == f'{pn}[{kn}]':
                    v = b.value
                    vt = ast.unparse(v).replace(' ', '')
                    if vt == f'{vn}.tolist()':
                        act = 'tolist'
                    elif isinstance(v, ast.Call) and isinstance(v.func, ast.Attribute) and v.func.attr == 'tolist' and isinstance(v.func.value, ast.Call) \
                            and (T.dotted_name(v.func.value.func) or '') in ('np.around', 'np.round') and len(v.func.value.args) == 2 \
                            and ast.unparse(v.func.value.args[0]) == vn:
                        act = f'around{int(T.const_value(v.func.value.args[1]))}.tolist'
                    else:
                        act = f'round{round_digits(v, vn)}'
                    conv.append((' and '.join(path + [t]), act))
                elif isinstance(b, ast.Assign) and ast.unparse(b.targets[0]) == vn and ast.unparse(b.value).replace(' ', '') == f'{vn}.astype(np.float64)':
                    continue
                else:
                    raise U(f'{q}: statement of the parameter conversion not understood: ' + ast.unparse(b).splitlines()[0])
            if len(st.orelse) == 1 and isinstance(st.orelse[0], ast.If):
                leafcases(st.orelse[0], path)
            elif st.orelse:
                for b in st.orelse:
                    if isinstance(b, ast.Assign) and ast.unparse(b.targets[0]).replace(' ', '') == f'{pn}[{kn}]' and ast.unparse(b.value).replace(' ', '') == f'{vn}.tolist()':
                        conv.append((' and '.join(path + ['not ' + t]), 'tolist'))
                    else:
                        raise U(f'{q}: else branch of the parameter conversion not understood')
        if not (len(lp.body) == 1 and isinstance(lp.body[0], ast.If)):
            raise U(f'{q}: the conversion loop body is not one if-chain')
        leafcases(lp.body[0], [])
        leaf_attr = [(k, ('<converted params>' if v == pn else v)) for k, v in dict_items(lb[2].value, 'Leaf')]
        # edges
        if not (len(el.body) == 1 and isinstance(el.body[0], ast.For) and len(el.body[0].body) == 1):
            raise U(f'{q}: the edge loop is not a nested loop with one statement')
        en, il = el.target.id, el.body[0]
        if not (ast.unparse(il.iter).replace(' ', '') == f'enumerate({en}.children)' and isinstance(il.target, ast.Tuple) and len(il.target.elts) == 2):
            raise U(f'{q}: the inner edge loop is not over enumerate(node.children)')
        i, c = [x.id for x in il.target.elts]
        call = il.body[0].value if isinstance(il.body[0], ast.Expr) else None
        if not (isinstance(call, ast.Call) and ast.unparse(call.func) == 'graph.add_edge' and len(call.args) == 2 and [k.arg for k in call.keywords] == ['idx']):
            raise U(f'{q}: edges are not added with graph.add_edge(u, v, idx=…)')
        tz = T.TrZ(env={c: (T.lid(c), 'obj'), en: ('node', 'obj'), i: (T.lid(i), 'int')}, attrs={'id': ('nid', 'item')})
        u, v, ix = tz.tr(call.args[0]), tz.tr(call.args[1]), tz.tr(call.keywords[0].value)
        if (u[1], v[1], ix[1]) != ('item', 'item', 'int'):
            raise U(f'{q}: add_edge arguments are not (node id, node id, idx=position)')
        pairs = lambda xs: T.lean_list([f'({T.lean_str(a)}, {T.lean_str(b)})' for a, b in xs])
        return ('/-- `io.spn_to_digraph`, Sum node: the attribute dictionary (key, value) in order, and the stored weights (`roundN d` = `round(·, d)`) -/\n'
                f'def S3ioSumAttr : List (String × String) := {pairs(sum_attr)}\n'
                f'def S3ioSumWeights {{Q : Type}} (roundN : Nat → Q → Q) (weights : List Q) : List Q := weights.map (fun w => roundN {wd} w)\n'
                '/-- … Product node, Leaf node: attribute dictionaries; the conversion applied to each entry of `params_dict()` (test, action) -/\n'
                f'def S3ioProductAttr : List (String × String) := {pairs(prod_attr)}\n'
                f'def S3ioLeafAttr : List (String × String) := {pairs(leaf_attr)}\n'
                f'def S3ioLeafParamConv : List (String × String) := {pairs(conv)}\n'
                '/-- … the edges added for one node, in order: `graph.add_edge(u, v, idx=k)` as (u, v, k) -/\n'
                'def S3ioEdges {N : Type} (nid : N → Nat) (children : N → List N) (node : N) : List (Nat × Nat × Int) :=\n'
                f'  (children node).zipIdx.map (fun p => let {T.lid(c)} := p.1; let {T.lid(i)} := ((p.2 : Nat) : Int); ({u[0]}, {v[0]}, {ix[0]}))')
    o.const('io.spn_to_digraph', io_write)

    def io_read():
        q = 'digraph_to_spn'
        fn = T.find_func(io, q)
        loops = [s for s in fn.body if isinstance(s, ast.For)]
        if len(loops) != 2:
            raise U(f'{q}: expected the node loop and the edge loop')
        nl, el = loops
        if ast.unparse(nl.iter) != 'graph.nodes' or not isinstance(nl.target, ast.Name):
            raise U(f'{q}: the node loop is not over graph.nodes')
        nid = nl.target.id
        # constructors per class
        ch = T.the([s for s in nl.body if isinstance(s, ast.If)], f'{q}: class cases')
        ctor, cur = [], ch
        keys = {T.target_key(s.targets[0]): ast.unparse(s.value).replace(' ', '') for s in nl.body if isinstance(s, ast.Assign)}
        while True:
            b = T.the(cur.body, 'constructor statement')
            ctor.append((ast.unparse(cur.test), ast.unparse(b.value) if isinstance(b, ast.Assign) and T.target_key(b.targets[0]) == 'node' else '?'))
            if len(cur.orelse) == 1 and isinstance(cur.orelse[0], ast.If):
                cur = cur.orelse[0]
            else:
                if not (len(cur.orelse) == 1 and isinstance(cur.orelse[0], ast.Raise)):
                    raise U(f'{q}: the class cases do not end with a raise')
                break
        if keys.get('attr') != f'graph.nodes[{nid}]' or keys.get('name') != "attr['class']" or keys.get('scope') != "attr['scope']" \
                or keys.get('node.id') != nid or keys.get(f'nodes[{nid}]') != 'node':
            raise U(f'{q}: the node loop does not read class / scope from the attributes and store the node under its id: {keys}')
        # edge loop
        if not (isinstance(el.target, ast.Tuple) and len(el.target.elts) == 2 and ast.unparse(el.iter) == 'graph.edges'):
            raise U(f'{q}: the edge loop is not `for u, v in graph.edges`')
        u, v = [x.id for x in el.target.elts]
        body = list(el.body)
        if len(body) != 5:
            raise U(f'{q}: the edge loop body is not (idx, parent, length, padding, store)')
        s_idx, s_par, s_len, s_pad, s_store = body
        if not (isinstance(s_idx, ast.Assign) and ast.unparse(s_idx.value).replace(' ', '') == f"graph.edges[{u},{v}]['idx']"):
            raise U(f'{q}: idx is not read from the edge attribute idx')
        ix = s_idx.targets[0].id
        if not (isinstance(s_par, ast.Assign) and isinstance(s_par.value, ast.Subscript) and ast.unparse(s_par.value.value) == 'nodes'
                and ast.unparse(s_par.value.slice) in (u, v)):
            raise U(f'{q}: the parent is not looked up in nodes')
        pn, par = s_par.targets[0].id, ast.unparse(s_par.value.slice)
        chd = u if par == v else v
        if not (isinstance(s_len, ast.Assign) and ast.unparse(s_len.value).replace(' ', '') == f'len({pn}.children)'):
            raise U(f'{q}: the current number of children is not len(parent.children)')
        ln = s_len.targets[0].id
        tz = T.TrZ(env={ix: ('idx', 'int'), ln: (T.lid(ln), 'int')})
        if not (isinstance(s_pad, ast.If) and not s_pad.orelse and len(s_pad.body) == 1 and isinstance(s_pad.body[0], ast.Expr)):
            raise U(f'{q}: no padding test')
        test = tz.as_bool(tz.tr(s_pad.test))
        ext = s_pad.body[0].value
        if not (isinstance(ext, ast.Call) and ast.unparse(ext.func) == f'{pn}.children.extend' and len(ext.args) == 1 and isinstance(ext.args[0], ast.BinOp)
                and isinstance(ext.args[0].op, ast.Mult) and ast.unparse(ext.args[0].left) == '[None]'):
            raise U(f'{q}: padding is not parent.children.extend([None] * k)')
        k = tz.as_int(tz.tr(ext.args[0].right))
        if ast.unparse(s_store).replace(' ', '') != f'{pn}.children[{ix}]=nodes[{chd}]':
            raise U(f'{q}: the child is not stored at parent.children[idx]')
        r = T.the(T.returns(fn), 'return')
        pairs = lambda xs: T.lean_list([f'({T.lean_str(a)}, {T.lean_str(b)})' for a, b in xs])
        return ('/-- `io.digraph_to_spn`: constructor per class (test, call); the roles of the two ends of an edge `(u, v)`; what is returned -/\n'
                f'def S3ioCtors : List (String × String) := {pairs(ctor)}\n'
                f'def S3ioEdgeEnds : String × String := ({T.lean_str("child" if chd == u else "parent")}, {T.lean_str("parent" if par == v else "child")})\n'
                f'def S3ioReturned : String := {T.lean_str(ast.unparse(r))}\n'
                '/-- … one edge: `children` = `parent_node.children` before, `idx` = the edge attribute, `child` = `nodes[child_id]` -/\n'
                'def S3ioPlace {β : Type} (children : List (Option β)) (idx : Int) (child : β) : List (Option β) :=\n'
                f'  let {T.lid(ln)} := ((children.length : Nat) : Int);\n'
                f'  let children := if {test} then children ++ List.replicate ({k}).toNat none else children;\n'
                '  children.set idx.toNat (some child)')
    o.const('io.digraph_to_spn', io_read)

    # ---- (g) C14: expectation_maximization — the responsibilities handed to em_step ------------------------------------------------
    em_py = T.parse_file(repo, 'deeprob/spn/learning/em.py')

    def em_resp():
        q = 'expectation_maximization'
        fn = T.find_func(em_py, q)
        outer = [s for s in fn.body if isinstance(s, ast.For)]
        it = T.the([s for s in outer if any(isinstance(x, ast.Call) and (T.dotted_name(x.func) or '') == 'eval_backward' for x in ast.walk(s))],
                   f'{q}: iteration loop')
        # forward and backward passes
        fw = [s for s in ast.walk(it) if isinstance(s, ast.Assign) and isinstance(s.value, ast.Call) and T.dotted_name(s.value.func) == 'log_likelihood']
        fw = T.the(fw, f'{q}: forward pass')
        if not (isinstance(fw.targets[0], ast.Tuple) and len(fw.targets[0].elts) == 2 and len(fw.value.args) == 2 and ast.unparse(fw.value.args[0]) == 'root'
                and [(k.arg, ast.unparse(k.value)) for k in fw.value.keywords] == [('return_results', 'True')]):
            raise U(f'{q}: the forward pass is not `root_ll, lls = log_likelihood(root, <batch>, return_results=True)`')
        rl, ll = [x.id for x in fw.targets[0].elts]
        batch = ast.unparse(fw.value.args[1])
        bw = T.the([s for s in it.body if isinstance(s, ast.Assign) and isinstance(s.value, ast.Call) and T.dotted_name(s.value.func) == 'eval_backward'],
                   f'{q}: backward pass')
        if [ast.unparse(x) for x in bw.value.args] != ['root', ll] or bw.value.keywords:
            raise U(f'{q}: the backward pass is not eval_backward(root, lls)')
        gr = bw.targets[0].id
        loops = {ast.unparse(s.iter).replace(' ', ''): s for s in it.body if isinstance(s, ast.For)}
        if set(loops) != {"cached_nodes['sum']", "cached_nodes['leaf']"}:
            raise U(f'{q}: the update loops are not over cached_nodes["sum"] and cached_nodes["leaf"]: {sorted(loops)}')
        cache = T.the(T.assignments(fn, 'cached_nodes'), 'cached_nodes')
        if ast.unparse(cache).replace(' ', '') != "{'sum':filter_nodes_by_type(root,Sum),'leaf':filter_nodes_by_type(root,Leaf)}":
            raise U(f'{q}: cached_nodes is not the (Sum, Leaf) filter of the circuit')
        ls, lf = loops["cached_nodes['sum']"], loops["cached_nodes['leaf']"]
        if list(it.body).index(ls) > list(it.body).index(lf):
            raise U(f'{q}: leaves are updated before the sums')
        n = ls.target.id
        if len(ls.body) != 3:
            raise U(f'{q}: the sum loop is not (children rows, stats, em_step)')
        c_st, s_st, call = ls.body
        if not (isinstance(c_st, ast.Assign) and ast.unparse(c_st.value).replace(' ', '') in
                (f'{ll}[list(map(lambdac:c.id,{n}.children))]', f'{ll}[[c.idforcin{n}.children]]')):
            raise U(f'{q}: the children rows are not lls[<ids of node.children in order>]')
        cl = c_st.targets[0].id
        st = s_st.targets[0].id
        tr = T.Tr(syms={cl: 'lc', rl: 'lr', f'{gr}[{n}.id]': 'g'})
        f_sum = tr.tr(s_st.value)
        if ast.unparse(call).replace(' ', '') != f'{n}.em_step({st},step_size)':
            raise U(f'{q}: sums are not updated by node.em_step(stats, step_size)')
        m = lf.target.id
        if len(lf.body) != 2:
            raise U(f'{q}: the leaf loop is not (stats, em_step)')
        s2, call2 = lf.body
        st2 = s2.targets[0].id
        tr2 = T.Tr(syms={f'{ll}[{m}.id]': 'ln', rl: 'lr', f'{gr}[{m}.id]': 'g'})
        f_leaf = tr2.tr(s2.value)
        if ast.unparse(call2).replace(' ', '') != f'{m}.em_step({st2},{batch}[:,{m}.scope],step_size)':
            raise U(f'{q}: leaves are not updated by node.em_step(stats, <batch>[:, node.scope], step_size)')
        return ['/-- `expectation_maximization`, sum loop: entry (child, row) of `stats`; lc = log-value of the child, lr = `root_ll`, g = `grads[node.id]` '
                '(all of that row); children rows are taken in child order; `grads = eval_backward(root, lls)` -/\n'
                f'def S3emRespSum (lc lr g : F) : F := {f_sum}',
                '/-- `expectation_maximization`, leaf loop: entry (row) of `stats`; ln = `lls[node.id]`; the data handed over is `batch[:, node.scope]` -/\n'
                f'def S3emRespLeaf (ln lr g : F) : F := {f_leaf}']
    o.formula('em.responsibilities', em_resp)


# =========================================================================================================
# Fourth wave (Oblig/Struct4*.lean): cascades, loop bodies and vectorised paths that are modelled by hand and had no
# extracted fragment yet.  Every definition is emitted under a fresh name `S4…`; nothing above is changed.
# =========================================================================================================
def emit_struct4(o, repo, T):
    U = T.Untranslatable
    o.consts.append(T.PY4_PRELUDE)

    def named(name, fn):
        """every failure message names the fragment and says what to do"""
        def run():
            try:
                return fn()
            except U as ex:
                raise U(f'fragment {name}: the source no longer has the shape this fragment reads — {ex}')
        return run

    def const4(name, fn):
        o.const(name, named(name, fn))

    def formula4(name, fn):
        o.formula(name, named(name, fn))

    def args_of(fn, expected, what):
        names = [a.arg for a in fn.args.args]
        if len(names) != len(expected) or fn.args.vararg or fn.args.kwarg or fn.args.kwonlyargs:
            raise U(f'{what}: expected {len(expected)} positional parameters, found {names}')
        return names

    def nodoc(stmts):
        return [s for s in stmts if not (isinstance(s, ast.Expr) and isinstance(s.value, ast.Constant))]

    def txt(e):
        return ast.unparse(e).replace(' ', '').replace('\n', '')

    # ---- (a) C04 / C05: learn_spn — the operation-selection cascade ---------------------------------------------------
    learnspn = T.parse_file(repo, 'deeprob/spn/learning/learnspn.py')

    def enum_members(tree, name):
        cls = T.the([c for c in tree.body if isinstance(c, ast.ClassDef) and c.name == name], f'class {name}')
        if [ast.unparse(b) for b in cls.bases] != ['Enum']:
            raise U(f'class {name} is not an Enum')
        ms = []
        for st in nodoc(cls.body):
            if not (isinstance(st, ast.Assign) and len(st.targets) == 1 and isinstance(st.targets[0], ast.Name)):
                raise U(f'class {name}: statement that is not a member declaration')
            ms.append((st.targets[0].id, int(T.const_value(st.value))))
        if len({v for _, v in ms}) != len(ms):
            raise U(f'class {name}: two members share a value (aliases)')
        return ms

    def task_attrs():
        cls = T.the([c for c in learnspn.body if isinstance(c, ast.ClassDef) and c.name == 'Task'], 'class Task')
        kinds = {'Node': 'node', 'np.ndarray': 'data', 'List[int]': 'scope', 'bool': 'bool'}
        attrs = {}
        for st in nodoc(cls.body):
            if not (isinstance(st, ast.AnnAssign) and isinstance(st.target, ast.Name) and ast.unparse(st.annotation) in kinds):
                raise U('class Task: field declaration not understood')
            attrs[st.target.id] = (f'S3Task.{st.target.id}', kinds[ast.unparse(st.annotation)])
        return attrs

    def select_parts():
        fn = T.find_func(learnspn, 'learn_spn')
        params = [a.arg for a in fn.args.args]
        loop = T.the([s for s in fn.body if isinstance(s, ast.While)], 'while loop of learn_spn')
        body = nodoc(loop.body)
        if not (body and isinstance(body[0], ast.Assign) and isinstance(body[0].targets[0], ast.Name)
                and txt(body[0].value) in ('tasks.popleft()', 'tasks.pop(0)', 'tasks.pop()')):
            raise U('learn_spn: the loop does not start by taking the next task')
        task = body[0].targets[0].id
        disp = [k for k, s in enumerate(body) if isinstance(s, ast.If) and txt(s.test).startswith('op==OperationKind.')
                or (isinstance(s, ast.If) and isinstance(s.test, ast.Compare) and txt(s.test.comparators[0]).startswith('OperationKind.'))]
        k = T.the(disp, 'learn_spn: if-chain on the operation')
        opname = txt(body[k].test.left)
        return fn, params, task, body[1:k], opname

    def select_op():
        members = enum_members(learnspn, 'OperationKind')
        fn, params, task, pre, opname = select_parts()
        for h in ('min_rows_slice', 'min_cols_slice'):
            if h not in params:
                raise U(f'learn_spn: no parameter {h}')
        if len(pre) != 3:
            raise U(f'learn_spn: expected (shape, zero-variance mask, cascade) between the pop and the dispatch, found {len(pre)} statements')
        sh, zm, casc = pre
        if not (isinstance(sh, ast.Assign) and isinstance(sh.targets[0], ast.Tuple) and len(sh.targets[0].elts) == 2
                and all(isinstance(x, ast.Name) for x in sh.targets[0].elts) and txt(sh.value) == f'{task}.data.shape'):
            raise U('learn_spn: the first statement after the pop is not `<rows>, <cols> = task.data.shape`')
        a, b = [x.id for x in sh.targets[0].elts]
        if not (isinstance(zm, ast.Assign) and isinstance(zm.targets[0], ast.Name) and isinstance(zm.value, ast.Call)
                and (T.dotted_name(zm.value.func) or '') == 'np.isclose' and len(zm.value.args) == 2):
            raise U('learn_spn: the mask of the uninformative features is not np.isclose(<reduction>, <constant>)')
        z = zm.targets[0].id
        red = zm.value.args[0]
        f, arg, axis, other = T.reduction_call(red)
        if (f, arg, other) != ('var', f'{task}.data', []):
            raise U('learn_spn: the mask is not computed from np.var(task.data, axis=…)')
        if not isinstance(casc, ast.If):
            raise U('learn_spn: no selection cascade after the mask')
        tr = T.TrZ4(env={task: ('task', 'obj'), a: (T.lid(a), 'int'), b: (T.lid(b), 'int'), z: ('zeroVar', ('list', 'bool')),
                         'min_rows_slice': ('min_rows_slice', 'int'), 'min_cols_slice': ('min_cols_slice', 'int')},
                    attrs=task_attrs(), enums={'OperationKind': ('S4OperationKind', [m for m, _ in members])})
        arms, last = T.elif_chain(casc)
        def arm_value(stmts):
            st = T.the(stmts, 'statement of a cascade arm')
            if not (isinstance(st, ast.Assign) and isinstance(st.targets[0], ast.Name) and st.targets[0].id == opname):
                raise U(f'learn_spn: a cascade arm does not just assign `{opname}`')
            v, ty = tr.tr(st.value)
            if ty != ('enum', 'S4OperationKind'):
                raise U('learn_spn: a cascade arm does not assign an OperationKind member')
            return v
        if not last:
            raise U('learn_spn: the cascade has no final else')
        out = ''
        for test, stmts in arms:
            out += f'if {tr.as_bool(tr.tr(test))} then {arm_value(stmts)}\n  else '
        out += arm_value(last)
        inductive = ('/-- `learnspn.OperationKind` (Enum): the members in declaration order -/\n'
                     'inductive S4OperationKind where\n' + '\n'.join(f'  | {m}' for m, _ in members) + '\nderiving DecidableEq, Repr\n'
                     f'def S4OperationKind.values : List (S4OperationKind × String × Int) := [{", ".join(f"(.{m}, {T.lean_str(m)}, {v})" for m, v in members)}]')
        return (inductive + '\n'
                '/-- `learn_spn`: the selection cascade executed after `task = tasks.popleft()`; shape = `task.data.shape`, zeroVar = the mask '
                '`np.isclose(np.var(task.data, axis=S4zeroVarAxis), …)` of the uninformative features (one entry per column) -/\n'
                f'def S4selectOp {{N D S : Type}} (task : S3Task N D S) (shape : Int × Int) (zeroVar : List Bool) (min_rows_slice min_cols_slice : Int) : S4OperationKind :=\n'
                f'  let {T.lid(a)} := shape.1;\n  let {T.lid(b)} := shape.2;\n  {out}\n'
                '/-- … the reduction the mask is computed from, and its axis (0 = one value per column) -/\n'
                f'def S4zeroVarReduction : String := {T.lean_str(f)}\n'
                f'def S4zeroVarAxis : Option Int := {T.lean_opt_int(axis)}')
    const4('learnspn.select_op', select_op)

    def zero_var_test():
        fn, params, task, pre, opname = select_parts()
        zm = [s for s in pre if isinstance(s, ast.Assign) and isinstance(s.value, ast.Call) and (T.dotted_name(s.value.func) or '') == 'np.isclose']
        zm = T.the(zm, 'learn_spn: zero-variance mask')
        call = zm.value
        tr = T.Tr(syms={ast.unparse(call.args[0]): 'v'})
        return ('/-- `learn_spn`: a column is uninformative iff `np.isclose(v, 0.0)` holds for its variance `v` -/\n'
                f'def S4zeroVarTest (v : F) : Prop := {T.cmp_guard(call, tr)}')
    formula4('learnspn.zero_var_test', zero_var_test)

    # ---- (b) C12 / C02: utils/graph.py — compute_bfs_ordering as data (queue, popleft, extend children) -------------------
    graph = T.parse_file(repo, 'deeprob/utils/graph.py')
    TREE_NODE = {'get_id': ('getId', 'item'), 'is_leaf': ('isLeaf', 'bool'), 'get_children': ('getChildren', ('list', 'obj'))}

    def method_hook(methods, objty='obj'):
        """`obj.m()` for the listed argument-less methods -> `(m obj)`"""
        def h(tr, call):
            if isinstance(call.func, ast.Attribute) and call.func.attr in methods and not call.args and not call.keywords:
                o_, ty = tr.tr(call.func.value)
                if ty == objty:
                    f, rty = methods[call.func.attr]
                    return f'({f} {o_})', rty
            return None
        return h

    class TrM(T.TrZ4):
        """TrZ4 with argument-less method calls on opaque objects (`hooks`: list of functions (tr, call) -> value or None)"""
        hooks = ()
        def child(self, **bind):
            sub = TrM(self.env, None, self.attrs, self.funcs, self.transparent, self.enums)
            sub.syms = self.syms
            sub.hooks = self.hooks
            sub.env.update(bind)
            return sub
        def tr(self, e):
            if isinstance(e, ast.Call) and txt(e) not in self.syms:
                for h in self.hooks:
                    r = h(self, e)
                    if r is not None:
                        return r
            return T.TrZ4.tr(self, e)

    def bfs_ordering():
        q = 'compute_bfs_ordering'
        fn = T.find_func(graph, q)
        a = args_of(fn, ('tree',), q)
        stmts = nodoc(fn.body)
        loop = T.the([s for s in stmts if isinstance(s, ast.While)], f'{q}: while loop')
        k = stmts.index(loop)
        pre = stmts[:k]
        if len(pre) != 3:
            raise U(f'{q}: expected (root, ordering, queue) before the loop')
        r0, o0, q0 = pre
        if not (isinstance(r0, ast.Assign) and isinstance(r0.targets[0], ast.Name) and txt(r0.value) == f'build_tree_structure({a[0]})'):
            raise U(f'{q}: the root is not build_tree_structure(tree)')
        rootn = r0.targets[0].id
        if not (isinstance(o0, ast.Assign) and isinstance(o0.targets[0], ast.Name) and txt(o0.value) in ('list()', '[]')):
            raise U(f'{q}: the ordering does not start empty')
        ordn = o0.targets[0].id
        if not (isinstance(q0, ast.Assign) and isinstance(q0.targets[0], ast.Name) and txt(q0.value) in (f'deque([{rootn}])', f'[{rootn}]')):
            raise U(f'{q}: the queue does not start as [root]')
        qn = q0.targets[0].id
        if txt(loop.test) != qn:
            raise U(f'{q}: the loop is not `while <queue>:`')
        body = nodoc(loop.body)
        if not (body and isinstance(body[0], ast.Assign) and isinstance(body[0].targets[0], ast.Name)
                and txt(body[0].value) in (f'{qn}.popleft()', f'{qn}.pop(0)', f'{qn}.pop()')):
            raise U(f'{q}: the loop does not start by taking a node from the queue')
        pop = txt(body[0].value)[len(qn) + 1:]
        nd = body[0].targets[0].id
        tr = TrM(env={nd: ('node', 'obj'), qn: ('queue', ('list', 'obj')), ordn: ('ordering', ('list', 'item'))})
        tr.hooks = (method_hook(TREE_NODE),)
        ex = T.Exec4(q)
        text, tys = ex.run(tr, body[1:], [qn, ordn], in_loop=True)
        if tys != [('list', 'obj'), ('list', 'item')]:
            raise U(f'{q}: the loop does not leave (queue of nodes, list of ids)')
        # what is returned: the ordering (as a list, or as an array of the tree's dtype)
        rets = [txt(r) for r in T.returns(fn)]
        if sorted(rets) != sorted([ordn, f'np.array({ordn},dtype={a[0]}.dtype)']):
            raise U(f'{q}: does not return the ordering (list / array of the same entries): {rets}')
        return ('/-- `graph.compute_bfs_ordering`: one iteration of `while nodes_queue:` after `node = nodes_queue.<S4bfsPop>` (`queue` = the rest of '
                'the queue); the loop starts from `([root], [])` with `root = build_tree_structure(tree)` and the ordering is returned -/\n'
                'def S4bfsStep {N : Type} (getId : N → Nat) (isLeaf : N → Bool) (getChildren : N → List N) (node : N) (queue : List N) '
                f'(ordering : List Nat) : List N × List Nat :=\n  {text}\n'
                f'def S4bfsPop : String := {T.lean_str(pop)}')
    const4('graph.compute_bfs_ordering', bfs_ordering)

    # ---- (b) C02 / C12: BinaryCLT.log_likelihood — the vectorised complete-evidence path and the NaN mask split --------------
    cltree = T.parse_file(repo, 'deeprob/spn/structure/cltree.py')

    def np_hook(selfname):
        """NumPy idioms of cltree.py read on ONE row of the batch: the row `x` is a list of data entries ('optval', none = NaN);
        `self.tree` a list of integers; `self.params` an opaque (N, 2, 2) table read by index triples"""
        def h(tr, e):
            nm = T.dotted_name(e.func) or ''
            kws = {k.arg: k.value for k in e.keywords}
            if nm == 'np.arange' and len(e.args) == 1 and not kws:
                return f'(Py.arange 0 {tr.as_int(tr.tr(e.args[0]))} 1)', ('list', 'int')
            if nm == 'np.isnan' and len(e.args) == 1 and not kws:
                v = tr.tr(e.args[0])
                if v[1] != ('list', 'optval'):
                    raise U('np.isnan of a value that is not a data row: ' + ast.unparse(e))
                return f'({v[0]}.map Py3.isnan)', ('list', 'bool')
            if nm == 'np.any' and len(e.args) == 1 and set(kws) == {'axis'} and int(T.const_value(kws['axis'])) == 1:
                v = tr.tr(e.args[0])
                if v[1] != ('list', 'bool'):
                    raise U('np.any(…, axis=1) of a value that is not a Boolean row: ' + ast.unparse(e))
                return f'({v[0]}.any (fun b => b))', 'bool'
            if nm == 'np.sum' and len(e.args) == 1 and set(kws) <= {'axis', 'keepdims'} and 'axis' in kws and int(T.const_value(kws['axis'])) == 1:
                v = tr.tr(e.args[0])
                if v[1] != ('list', 'num'):
                    raise U('np.sum(…, axis=1) of a value that is not a row of numbers: ' + ast.unparse(e))
                return f'(Py4.sum {v[0]})', 'num'
            if nm == 'np.expand_dims' and len(e.args) == 1 and set(kws) == {'axis'} and int(T.const_value(kws['axis'])) == 1:
                return tr.tr(e.args[0])
            if nm == 'np.copy' and len(e.args) == 1 and not kws:
                return tr.tr(e.args[0])
            if isinstance(e.func, ast.Attribute) and e.func.attr == 'astype' and e.args and (T.dotted_name(e.args[0]) or '') == 'np.int64' \
                    and set(kws) <= {'copy'}:
                v = tr.tr(e.func.value)
                if v[1] == ('list', 'optval'):
                    return f'({v[0]}.map (fun v => ((Py3.val v : Nat) : Int)))', ('list', 'int')
                if v[1] == 'optval':
                    return f'((Py3.val {v[0]} : Nat) : Int)', 'int'
                raise U('astype(np.int64) of a value that is not data: ' + ast.unparse(e))
            return None
        return h

    class TrC(TrM):
        """TrM plus the subscripts of cltree.py on one row"""
        selfname = 'self'
        def child(self, **bind):
            sub = TrC(self.env, None, self.attrs, self.funcs, self.transparent, self.enums)
            sub.syms = self.syms
            sub.hooks = self.hooks
            sub.selfname = self.selfname
            sub.env.update(bind)
            return sub
        def tr(self, e):
            if txt(e) in self.syms:
                return self.syms[txt(e)]
            if isinstance(e, ast.Subscript):
                full = lambda s_: isinstance(s_, ast.Slice) and s_.lower is None and s_.upper is None and s_.step is None
                sl = e.slice
                if isinstance(sl, ast.Tuple) and len(sl.elts) == 2 and full(sl.elts[0]):
                    base = self.tr(e.value)          # x[:, idx]: the columns idx of the row
                    if base[1] == ('list', 'optval'):
                        ix = self.tr(sl.elts[1])
                        if ix[1] == ('list', 'int'):
                            return f'({ix[0]}.map (fun j => Py4.getI {base[0]} j none))', ('list', 'optval')
                        if ix[1] in ('int', 'item'):
                            return f'(Py4.getI {base[0]} {self.as_int(ix)} none)', 'optval'
                    if base[1] == ('list', 'bool'):
                        ix = self.tr(sl.elts[1])
                        if ix[1] in ('int', 'item'):
                            return f'(Py4.getI {base[0]} {self.as_int(ix)} false)', 'bool'
                if txt(e.value) == f'{self.selfname}.params' and isinstance(sl, ast.Tuple) and len(sl.elts) == 3:
                    ix = [self.tr(x) for x in sl.elts]
                    if all(t == ('list', 'int') for _, t in ix):
                        return f'(Py4.zipWith3 params {ix[0][0]} {ix[1][0]} {ix[2][0]})', ('list', 'num')
                if txt(e.value) == f'{self.selfname}.tree':
                    ix = self.tr(sl)
                    if ix[1] in ('int', 'item'):
                        return f'(Py4.getI tree {self.as_int(ix)} 0)', 'int'
                if isinstance(sl, ast.Name):
                    base, ix = self.tr(e.value), self.tr(sl)
                    if ix[1] == 'bool' and base[1] in (('list', 'optval'), ('list', 'bool')):
                        return base                   # x[row mask]: the row itself (the mask is checked at the store)
            return TrM.tr(self, e)

    def clt_loglik():
        q = 'BinaryCLT.log_likelihood'
        fn = T.find_func(cltree, q)
        a = args_of(fn, ('self', 'x'), q)
        S, X = a
        guard = {}                       # local name -> row masks under which it was read
        def names(e):
            return {n.id for n in ast.walk(e) if isinstance(n, ast.Name)}
        def hook(tr, st):
            if isinstance(st, ast.Assign) and len(st.targets) == 1:
                tg, v = st.targets[0], st.value
                if isinstance(tg, ast.Tuple) and txt(v) == f'{X}.shape' and len(tg.elts) == 2 and all(isinstance(t_, ast.Name) for t_ in tg.elts):
                    ns, nf = [t_.id for t_ in tg.elts]
                    return [(T.lid(nf), nf, f'((x.length : Nat) : Int)', 'int'), (T.lid(ns), ns, 'nRows', 'nrows')]
                if isinstance(tg, ast.Name):
                    g = set()
                    for n in names(v):
                        g |= guard.get(n, set())
                    if isinstance(v, ast.Subscript) and isinstance(v.slice, ast.Name) and tr.env.get(v.slice.id, (None, None))[1] == 'bool' \
                            and not v.slice.id.startswith('__'):
                        g = g | {v.slice.id}
                    guard[tg.id] = g
                    if txt(v).startswith('np.empty(') and isinstance(v, ast.Call) and v.args and tr.tr(v.args[0])[1] == 'nrows':
                        return [(T.lid(tg.id), tg.id, 'none', ('opt', 'num'))]
                if isinstance(tg, ast.Subscript) and isinstance(tg.value, ast.Name) and isinstance(tg.slice, ast.Name):
                    old, m = tr.tr(tg.value), tr.tr(tg.slice)
                    if old[1] == ('opt', 'num') and m[1] == 'bool':
                        g = set()
                        for n in names(v):
                            g |= guard.get(n, set())
                        if not g <= {tg.slice.id}:
                            raise U(f'{q}: `{ast.unparse(st)}` uses rows selected by {sorted(g)}')
                        val = tr.tr(v)
                        if val[1] != 'num':
                            raise U(f'{q}: `{ast.unparse(st)}` does not store one number per row')
                        return [(T.lid(tg.value.id), tg.value.id, f'if {m[0]} then some {val[0]} else {old[0]}', ('opt', 'num'))]
            return None
        def mp(tr, e):
            if txt(e.func) == f'{S}.message_passing':
                kws = {k.arg: k.value for k in e.keywords}
                if len(e.args) != 2 or set(kws) != {'return_lls', 'reduce'}:
                    raise U(f'{q}: message_passing is not called as (rows, mask, return_lls=…, reduce=…)')
                z, m = tr.tr(e.args[0]), tr.tr(e.args[1])
                if z[1] != ('list', 'optval') or m[1] != ('list', 'bool'):
                    raise U(f'{q}: message_passing is not applied to (data rows, Boolean rows)')
                rl, rd = tr.tr(kws['return_lls']), tr.tr(kws['reduce'])
                return f'(messagePassing {z[0]} {m[0]} {rl[0]} {rd[0]})', 'num'
            return None
        tr = TrC(env={X: ('x', ('list', 'optval'))}, syms={f'{S}.tree': ('tree', ('list', 'int'))})
        tr.selfname = S
        tr.hooks = (np_hook(S), mp)
        # the batch-level test `if np.any(<row-level mask>)`: a Boolean of the whole batch
        stmts = nodoc(fn.body)
        tests = [s for s in stmts if isinstance(s, ast.If)]
        t0 = T.the(tests, f'{q}: batch-level test')
        if not (isinstance(t0.test, ast.Call) and (T.dotted_name(t0.test.func) or '') == 'np.any' and len(t0.test.args) == 1
                and isinstance(t0.test.args[0], ast.Name) and not t0.test.keywords):
            raise U(f'{q}: the batch-level test is not np.any(<mask of the rows with missing values>)')
        rowmask = t0.test.args[0].id
        tr.syms[txt(t0.test)] = ('batchAny', 'bool')
        def coerce(term, ty):
            if ty == 'num':
                return f'some {term}', ('opt', 'num')
            return term, ty
        ex = T.Exec4(q, stmt_hook=hook, ret_coerce=coerce)
        text, tys = ex.run(tr, stmts, T.RETURNED)
        if tys != [('opt', 'num')]:
            raise U(f'{q}: does not return one number per row')
        return ('/-- `BinaryCLT.log_likelihood` on ONE row `x` of the batch (`none` = NaN): params = `self.params` read by index triples, tree = '
                f'`self.tree`, `messagePassing z mask return_lls reduce` = `self.message_passing` on that row, batchAny = `np.any({rowmask})` (some row of '
                'the batch has a missing value), nRows = `n_samples`.  `none` = the entry of `np.empty` is never written -/\n'
                'def S4cltLogLikelihood {α : Type} [Zero α] [Add α] (params : Int → Int → Int → α) (tree : List Int)\n'
                '    (messagePassing : List (Option Nat) → List Bool → Bool → String → α) (batchAny : Bool) (nRows : Nat) (x : List (Option Nat)) : Option α :=\n'
                f'  {text}')
    const4('cltree.log_likelihood', clt_loglik)

    # ---- (b) C06: BinaryCLT.mpe — max-product messages, root decode, downward decode in BFS order ----------------------------
    class TrC2(TrC):
        """TrC plus the reads of `self.params[i, l]` / `messages[i, mask]` (the two values of a binary variable), element-wise `+`
        of two such vectors, `np.argmax(·, axis=1)`"""
        msgs = None
        def child(self, **bind):
            sub = TrC2(self.env, None, self.attrs, self.funcs, self.transparent, self.enums)
            sub.syms = self.syms
            sub.hooks = self.hooks
            sub.selfname = self.selfname
            sub.msgs = self.msgs
            sub.env.update(bind)
            return sub
        def tr(self, e):
            if txt(e) in self.syms:
                return self.syms[txt(e)]
            if isinstance(e, ast.Subscript) and isinstance(e.slice, ast.Tuple) and len(e.slice.elts) == 2:
                i0, i1 = e.slice.elts
                if txt(e.value) == f'{self.selfname}.params':
                    a_, b_ = self.tr(i0), self.tr(i1)
                    if a_[1] in ('int', 'item') and b_[1] in ('int', 'item'):
                        return f'(Py4.vec2 (params {self.as_int(a_)} {self.as_int(b_)}))', ('list', 'num')
                if isinstance(e.value, ast.Name) and self.env.get(e.value.id, (None, None))[1] == 'msgs':
                    a_, m_ = self.tr(i0), self.tr(i1)
                    if a_[1] in ('int', 'item') and m_[1] == 'bool':
                        return f'({self.env[e.value.id][0]} {self.as_int(a_)})', ('list', 'num')
                base = self.tr(e.value)
                if base[1] == ('list', 'optval'):
                    m_ = self.tr(i0)
                    if m_[1] == 'bool':                     # x[row mask, k]: entry k of the row
                        k_ = self.tr(i1)
                        if k_[1] in ('int', 'item'):
                            return f'(Py4.getI {base[0]} {self.as_int(k_)} none)', 'optval'
            if isinstance(e, ast.BinOp) and isinstance(e.op, ast.Add):
                a_, b_ = self.tr(e.left), self.tr(e.right)
                if a_[1] == ('list', 'num') and b_[1] == ('list', 'num'):
                    return f'(List.zipWith (fun a b => a + b) {a_[0]} {b_[0]})', ('list', 'num')
            if isinstance(e, ast.Call) and (T.dotted_name(e.func) or '') == 'np.argmax' and len(e.args) == 1 \
                    and [(k.arg, int(T.const_value(k.value))) for k in e.keywords] == [('axis', 1)]:
                v = self.tr(e.args[0])
                if v[1] == ('list', 'num'):
                    return f'(Py4.argmax {v[0]})', 'item'
            return TrC.tr(self, e)

    def clt_mpe():
        q = 'BinaryCLT.mpe'
        fn = T.find_func(cltree, q)
        a = args_of(fn, ('self', 'x'), q)
        S, X = a
        def hook(tr, st):
            if isinstance(st, ast.Assign) and len(st.targets) == 1:
                tg, v = st.targets[0], st.value
                if isinstance(tg, ast.Name) and isinstance(v, ast.Call) and txt(v.func) == f'{S}.message_passing':
                    kws = {k.arg: k.value for k in v.keywords}
                    if len(v.args) != 2 or set(kws) != {'return_lls', 'reduce'}:
                        raise U(f'{q}: message_passing is not called as (rows, mask, return_lls=…, reduce=…)')
                    z, m = tr.tr(v.args[0]), tr.tr(v.args[1])
                    rl, rd = tr.tr(kws['return_lls']), tr.tr(kws['reduce'])
                    if z[1] != ('list', 'optval') or m[1] != ('list', 'bool') or rl[0] != 'false':
                        raise U(f'{q}: the messages are not message_passing(x, <mask>, return_lls=False, …)')
                    return [(T.lid(tg.id), tg.id, f'(messagePassing {z[0]} {m[0]} {rl[0]} {rd[0]})', 'msgs')]
                if isinstance(tg, ast.Subscript) and isinstance(tg.slice, ast.Tuple) and len(tg.slice.elts) == 2 and isinstance(tg.value, ast.Name):
                    old = tr.tr(tg.value)
                    m, k = tr.tr(tg.slice.elts[0]), tr.tr(tg.slice.elts[1])
                    val = tr.tr(v)
                    if old[1] == ('list', 'optval') and m[1] == 'bool' and k[1] in ('int', 'item') and val[1] == 'item':
                        return [(T.lid(tg.value.id), tg.value.id,
                                 f'if {m[0]} then Py4.setI {old[0]} ({tr.as_int(k)}).toNat (some {val[0]}) else {old[0]}', ('list', 'optval'))]
                    raise U(f'{q}: store not understood: ' + ast.unparse(st))
            return None
        tr = TrC2(env={X: ('x', ('list', 'optval'))},
                  syms={f'{S}.tree': ('tree', ('list', 'int')), f'{S}.bfs': ('bfs', ('list', 'int')), f'{S}.root': ('root', 'int')})
        tr.selfname = S
        tr.hooks = (np_hook(S),)
        ex = T.Exec4(q, stmt_hook=hook)
        text, tys = ex.run(tr, nodoc(fn.body), T.RETURNED)
        if tys != [('list', 'optval')]:
            raise U(f'{q}: does not return the completed rows')
        return ('/-- `BinaryCLT.mpe` on ONE row `x` (`none` = NaN): params = `self.params` read by index triples, root / bfs / tree = `self.root`, '
                '`self.bfs`, `self.tree`; `messagePassing x mask return_lls reduce i` = the two entries `messages[i, row, :]` returned by '
                '`self.message_passing` -/\n'
                'def S4cltMpe {α : Type} [Add α] [LT α] [DecidableLT α] (params : Int → Int → Int → α) (root : Int) (bfs tree : List Int)\n'
                '    (messagePassing : List (Option Nat) → List Bool → Bool → String → Int → List α) (x : List (Option Nat)) : List (Option Nat) :=\n'
                f'  {text}')
    const4('cltree.mpe', clt_mpe)

    # ---- (c) C10: structure.marginalize — the body of the pass (per node kind), the final relabelling and prune -------------------
    structure = T.parse_file(repo, 'deeprob/spn/algorithms/structure.py')
    NODE4 = {'id': ('nid', 'item'), 'children': ('children', ('list', 'obj')), 'scope': ('scope', ('list', 'item'))}
    CLASSES = {'Leaf': 'isLeaf', 'BinaryCLT': 'isClt', 'Product': 'isProduct', 'Sum': 'isSum'}

    def marg_hook(mapname):
        def h(tr, e):
            nm = T.dotted_name(e.func) or ''
            if nm == 'isinstance' and len(e.args) == 2 and isinstance(e.args[1], ast.Name) and e.args[1].id in CLASSES:
                o_, ty = tr.tr(e.args[0])
                if ty == 'obj':
                    return f'({CLASSES[e.args[1].id]} {o_})', 'bool'
            # list(filter(lambda v: v is not None, map(lambda u: nodes_map[u.id], xs)))
            if nm == 'list' and len(e.args) == 1 and isinstance(e.args[0], ast.Call) and (T.dotted_name(e.args[0].func) or '') == 'filter':
                f = e.args[0]
                if len(f.args) == 2 and isinstance(f.args[0], ast.Lambda) and isinstance(f.args[1], ast.Call) and (T.dotted_name(f.args[1].func) or '') == 'map':
                    v = f.args[0].args.args[0].arg
                    m = f.args[1]
                    if txt(f.args[0].body) == f'{v}isnotNone'.replace(' ', '') or ast.unparse(f.args[0].body) == f'{v} is not None':
                        if len(m.args) == 2 and isinstance(m.args[0], ast.Lambda):
                            u = m.args[0].args.args[0].arg
                            if txt(m.args[0].body) == f'{mapname}[{u}.id]':
                                xs, elty = tr.seq(tr.tr(m.args[1]))
                                if elty == 'obj':
                                    return f'({xs}.filterMap (fun {T.lid(u)} => nodesMap (nid {T.lid(u)})))', ('list', 'obj')
            if isinstance(e.func, ast.Attribute) and e.func.attr == 'intersection' and len(e.args) == 1 and not e.keywords:
                a_, b_ = tr.tr(e.func.value), tr.tr(e.args[0])
                if a_[1] == ('set', 'item') and isinstance(b_[1], tuple) and b_[1][1] == 'item':
                    return f'({a_[0]}.filter (fun v => {b_[0]}.contains v))', ('set', 'item')
            return None
        return h

    class TrIn(TrM):
        """TrM plus `v in xs` / `v not in xs` on lists / sets of items"""
        def child(self, **bind):
            sub = TrIn(self.env, None, self.attrs, self.funcs, self.transparent, self.enums)
            sub.syms = self.syms
            sub.hooks = self.hooks
            sub.env.update(bind)
            return sub
        def tr(self, e):
            if isinstance(e, ast.Compare) and len(e.ops) == 1 and isinstance(e.ops[0], (ast.In, ast.NotIn)):
                a_, b_ = self.tr(e.left), self.tr(e.comparators[0])
                if a_[1] in ('item',) and isinstance(b_[1], tuple) and b_[1][0] in ('list', 'set') and b_[1][1] == 'item':
                    t_ = f'({b_[0]}.contains {a_[0]})'
                    return (t_ if isinstance(e.ops[0], ast.In) else f'(!{t_})'), 'bool'
                raise U('membership test not understood: ' + ast.unparse(e))
            return TrM.tr(self, e)

    def marg_body():
        q = 'marginalize'
        fn = T.find_func(structure, q)
        a = args_of(fn, ('root', 'keep_scope', 'copy'), q)
        R, K, C = a
        stmts = nodoc(fn.body)
        # the leading argument guards (first wave fragment `structure.marginalize.guards`) and the set of kept variables
        k0 = 0
        setname = None
        while k0 < len(stmts) and ((isinstance(stmts[k0], ast.If) and len(stmts[k0].body) == 1 and isinstance(stmts[k0].body[0], ast.Raise))
                                   or (isinstance(stmts[k0], ast.Assign) and txt(stmts[k0].value) == f'set({K})')):
            if isinstance(stmts[k0], ast.Assign):
                setname = stmts[k0].targets[0].id
            k0 += 1
        rest = stmts[k0:]
        kinds = []
        loop = None
        for st in rest:
            t_ = txt(st)
            if isinstance(st, ast.If) and t_ == f'if{C}:{R}=deepcopy({R})':
                kinds.append('copy')
            elif isinstance(st, ast.Expr) and t_ == f'check_spn({R},labeled=True,smooth=True,decomposable=True)':
                kinds.append('check')
            elif isinstance(st, ast.Assign) and t_ == f'nodes=topological_order({R})':
                kinds.append('order')
            elif isinstance(st, ast.If) and txt(st.test) == 'nodesisNone' and len(st.body) == 1 and isinstance(st.body[0], ast.Raise):
                kinds.append('dag')
            elif isinstance(st, ast.Assign) and isinstance(st.targets[0], ast.Name) and txt(st.value) == 'dict(map(lambdan:(n.id,n),nodes))':
                kinds.append('map')
                mapname = st.targets[0].id
            elif isinstance(st, ast.For) and txt(st.iter) == 'reversed(nodes)' and isinstance(st.target, ast.Name):
                kinds.append('loop')
                loop = st
            elif isinstance(st, ast.Assign) and loop is not None and t_ == f'{R}=assign_ids({mapname}[{R}.id])':
                kinds.append('assign_ids')
            elif isinstance(st, ast.Return) and t_ == f'returnprune({R},copy=False)':
                kinds.append('prune')
            else:
                raise U(f'{q}: statement not understood: ' + ast.unparse(st).splitlines()[0])
        want = ['copy', 'check', 'order', 'dag', 'map', 'loop', 'assign_ids', 'prune']
        if kinds != want:
            raise U(f'{q}: the steps are {kinds}, expected {want}')
        nd = loop.target.id
        slot = f'{mapname}[{nd}.id]'
        env = {nd: ('node', 'obj'), K: ('keep_scope', ('list', 'item'))}
        if setname:
            env[setname] = ('keep_scope', ('set', 'item'))
        tr0 = TrIn(env=env, attrs=NODE4)
        tr0.hooks = (marg_hook(mapname), method_hook({}))

        def eff(tr, ss):
            """the effect of a block on `nodes_map[node.id]` as a term of `S4MargOut N`"""
            ss = [s_ for s_ in ss if not isinstance(s_, ast.Continue)]
            if not ss:
                raise U(f'{q}: a path through the loop body has no effect on {slot}')
            st, more = ss[0], ss[1:]
            if isinstance(st, ast.Assign) and isinstance(st.targets[0], ast.Name):
                v, ty = tr.tr(st.value)
                nm = st.targets[0].id
                return f'let {T.lid(nm)} := {v};\n  {eff(tr.child(**{nm: (T.lid(nm), ty)}), more)}'
            if isinstance(st, ast.If):
                arms, last = T.elif_chain(st)
                # `if isinstance(node, Leaf): …; continue` — what follows is the else branch
                if not last and more and isinstance(st.body[-1], ast.Continue):
                    last, more = more, []
                if more:
                    raise U(f'{q}: statements after a conditional that decides {slot}')
                if not last:
                    raise U(f'{q}: a conditional without else decides {slot}')
                out_ = ''
                for test, body in arms:
                    out_ += f'if {tr.as_bool(tr.tr(test))} then ({eff(tr, body)})\n  else '
                return out_ + f'({eff(tr, last)})'
            if isinstance(st, ast.With) and len(st.items) == 1 and txt(st.items[0].context_expr) == 'ContextState(check_spn=False)':
                if more:
                    raise U(f'{q}: statements after the ContextState block')
                return eff(tr, st.body)
            if isinstance(st, ast.Raise):
                if more:
                    raise U(f'{q}: statements after a raise')
                exc = st.exc.func if isinstance(st.exc, ast.Call) else st.exc
                return f'.raises {T.lean_str(ast.unparse(exc))}'
            if isinstance(st, ast.Assign) and txt(st.targets[0]) == slot:
                if more:
                    raise U(f'{q}: statements after the assignment of {slot}')
                return value(tr, st.value)
            if isinstance(st, ast.Assign) and txt(st.targets[0]) in (f'{slot}.scope', f'{slot}.children'):
                if len(more) != 1 or not isinstance(more[0], ast.Assign) or {txt(st.targets[0]), txt(more[0].targets[0])} != {f'{slot}.scope', f'{slot}.children'}:
                    raise U(f'{q}: the stores into {slot}.scope / .children do not come as a pair')
                by = {txt(x.targets[0]): x.value for x in (st, more[0])}
                sc, sty = tr.tr(by[f'{slot}.scope'])
                ch, cty = tr.tr(by[f'{slot}.children'])
                if sty != ('list', 'item') or cty != ('list', 'obj'):
                    raise U(f'{q}: {slot}.scope / .children do not receive (a scope, a list of nodes)')
                return f'.rewrite {sc} {ch}'
            raise U(f'{q}: statement of the loop body not understood: ' + ast.unparse(st).splitlines()[0])

        def value(tr, v):
            if isinstance(v, ast.Constant) and v.value is None:
                return '.drop'
            if isinstance(v, ast.IfExp):
                return f'if {tr.as_bool(tr.tr(v.test))} then {value(tr, v.body)} else {value(tr, v.orelse)}'
            if isinstance(v, ast.Call) and (T.dotted_name(v.func) or '') == q:
                kw = {k.arg: txt(k.value) for k in v.keywords}
                if len(v.args) == 2 and txt(v.args[0]) == f'{nd}.to_pc()' and kw == {'copy': 'False'}:
                    sc, sty = tr.tr(v.args[1])
                    if isinstance(sty, tuple) and sty[1] == 'item':
                        return f'.viaPc {sc}'
                raise U(f'{q}: the recursive call is not marginalize(node.to_pc(), <scope>, copy=False)')
            t_, ty = tr.tr(v)
            if ty != 'obj':
                raise U(f'{q}: {slot} receives a value that is not a node: ' + ast.unparse(v))
            return f'.replace {t_}'

        body = eff(tr0, nodoc(loop.body))
        return ('/-- what one iteration of the pass of `structure.marginalize` does with `nodes_map[node.id]`: `drop` = `None`; `replace n` = the object '
                '`n`; `rewrite scope children` = the node object itself with `.scope` and `.children` overwritten; `viaPc s` = '
                '`marginalize(node.to_pc(), s, copy=False)` (checks disabled); `raises e` -/\n'
                'inductive S4MargOut (N : Type) where\n  | drop\n  | replace (n : N)\n  | rewrite (scope : List Nat) (children : List N)\n'
                '  | viaPc (scope : List Nat)\n  | raises (exc : String)\nderiving DecidableEq, Repr\n'
                '/-- `structure.marginalize`: the body of `for node in reversed(nodes)` (`nodes = topological_order(root)`, `nodes_map` starts as the '
                'identity `id ↦ node`); nodesMap = the current `nodes_map` by id (`none` = `None`), `isLeaf` … = the `isinstance` tests -/\n'
                'def S4margStep {N : Type} [Inhabited N] (isLeaf isClt isProduct isSum : N → Bool) (nid : N → Nat) (scope : N → List Nat) '
                '(children : N → List N)\n    (nodesMap : Nat → Option N) (keep_scope : List Nat) (node : N) : S4MargOut N :=\n'
                f'  {body}\n'
                '/-- … the steps around the loop, in order -/\n'
                f'def S4margSteps : List String := {T.lean_list([T.lean_str(x) for x in kinds])}')
    const4('structure.marginalize.body', marg_body)

    # ---- (d) C11: statistics.compute_mutual_information, BinaryCLT.compute_clt_parameters, BinaryCLT.fit ---------------------------
    statistics = T.parse_file(repo, 'deeprob/utils/statistics.py')

    def canon_locals(fn, node, keep=()):
        """source text of `node` with the local variables of `fn` (names stored anywhere in it, parameters excluded) renamed
        v0, v1, … in the order of their first store — insensitive to renamings of locals"""
        params = {a.arg for a in fn.args.args + fn.args.kwonlyargs} | set(keep)
        order = []
        for n in ast.walk(fn):
            pass
        stores = sorted([(n.lineno, n.col_offset, n.id) for n in ast.walk(fn) if isinstance(n, ast.Name) and isinstance(n.ctx, ast.Store)])
        for _, _, nm in stores:
            if nm not in params and nm not in order:
                order.append(nm)
        ren = {nm: f'v{k}' for k, nm in enumerate(order)}
        class R(ast.NodeTransformer):
            def visit_Name(self, n):
                return ast.copy_location(ast.Name(id=ren.get(n.id, n.id), ctx=n.ctx), n)
        import copy as _copy
        return ast.unparse(R().visit(_copy.deepcopy(node)))

    def int_list(e, what):
        if not isinstance(e, (ast.List, ast.Tuple)):
            raise U(f'{what}: not a literal sequence')
        return [int(T.const_value(x)) for x in e.elts]

    def mutual_information():
        q = 'compute_mutual_information'
        fn = T.find_func(statistics, q)
        a = args_of(fn, ('priors', 'joints'), q)
        P, J = a
        stmts = nodoc(fn.body)
        guards = [s for s in stmts if isinstance(s, ast.If) and len(s.body) == 1 and isinstance(s.body[0], ast.Raise)]
        sh = stmts[0]
        if not (isinstance(sh, ast.Assign) and isinstance(sh.targets[0], ast.Tuple) and len(sh.targets[0].elts) == 2 and txt(sh.value) == f'{P}.shape'):
            raise U(f'{q}: the first statement is not `<variables>, <values> = priors.shape`')
        rest = [s for s in stmts[1:] if s not in guards]
        if len(rest) != 4 or not isinstance(rest[0], ast.Assign) or not isinstance(rest[1], ast.With) or not isinstance(rest[3], ast.Return):
            raise U(f'{q}: the body is not (shape, guards, outers, `with np.errstate`: sum, fill_diagonal, return)')
        ou, wi, fd, rt = rest
        on = ou.targets[0].id
        v = ou.value
        if not (isinstance(v, ast.Call) and isinstance(v.func, ast.Attribute) and v.func.attr == 'transpose' and len(v.args) == 1
                and isinstance(v.func.value, ast.Call) and (T.dotted_name(v.func.value.func) or '') == 'np.multiply.outer'
                and [txt(x) for x in v.func.value.args] == [P, P]):
            raise U(f'{q}: outers is not np.multiply.outer(priors, priors).transpose(<axes>)')
        perm = int_list(v.args[0], 'transpose axes')
        if sorted(perm) != [0, 1, 2, 3]:
            raise U(f'{q}: the transposition is not a permutation of four axes')
        if not (txt(wi.items[0].context_expr).startswith('np.errstate(') and len(wi.body) == 1 and isinstance(wi.body[0], ast.Assign)):
            raise U(f'{q}: the sum is not the single statement of a `with np.errstate(…)` block')
        mi = wi.body[0]
        mn = mi.targets[0].id
        c = mi.value
        if not (isinstance(c, ast.Call) and (T.dotted_name(c.func) or '') == 'np.sum' and len(c.args) == 1
                and [k.arg for k in c.keywords] == ['axis']):
            raise U(f'{q}: mutual_info is not np.sum(<terms>, axis=…)')
        axes = int_list(c.keywords[0].value, 'summed axes')
        if sorted(axes) != [2, 3]:
            raise U(f'{q}: the sum is not over the two value axes (2, 3) but {axes}')
        tr = T.Tr(syms={J: '(joints i j k l)', on: '(outers i j k l)'},
                  call_hook=lambda t_, call: (f'(E.log {t_.tr(call.args[0])})' if (T.dotted_name(call.func) or '') == 'np.log' and len(call.args) == 1 else None))
        term = tr.tr(c.args[0])
        if not (isinstance(fd, ast.Expr) and isinstance(fd.value, ast.Call) and (T.dotted_name(fd.value.func) or '') == 'np.fill_diagonal'
                and len(fd.value.args) == 2 and txt(fd.value.args[0]) == mn):
            raise U(f'{q}: the diagonal of mutual_info is not filled')
        diag = T.q_lean(T.const_value(fd.value.args[1]), 'F')
        if txt(rt.value) != mn:
            raise U(f'{q}: does not return mutual_info')
        return ['/-- `compute_mutual_information`: `outers = np.multiply.outer(priors, priors).transpose(S4miPerm)` entry `[i, j, k, l]` (axis `t` of the '
                'result is axis `S4miPerm[t]` of the outer product, whose entry `[a, b, c, d]` is `priors[a, b] * priors[c, d]`) -/\n'
                f'def S4miPerm : List Nat := {T.lean_list([str(x) for x in perm])}\n'
                'def S4miOuters (priors : Nat → Nat → F) (i j k l : Nat) : F :=\n'
                '  let src := fun (ax : Nat) => [i, j, k, l].getD (S4miPerm.idxOf ax) 0;\n'
                '  priors (src 0) (src 1) * priors (src 2) (src 3)',
                '/-- `compute_mutual_information`: one summand of `np.sum(…, axis=(2, 3))`, and entry `[i, j]` of the returned matrix (`nValues` = '
                '`priors.shape[1]`; the diagonal is overwritten by `np.fill_diagonal`) -/\n'
                f'def S4miTerm (priors : Nat → Nat → F) (joints : Nat → Nat → Nat → Nat → F) (i j k l : Nat) : F :=\n'
                f'  let outers := S4miOuters priors;\n  {term}\n'
                'def S4mutualInfo (nValues : Nat) (priors : Nat → Nat → F) (joints : Nat → Nat → Nat → Nat → F) (i j : Nat) : F :=\n'
                f'  if i = j then {diag}\n'
                '  else Gen.Py4.sum ((List.range nValues).flatMap (fun k => (List.range nValues).map (fun l => S4miTerm E priors joints i j k l)))']
    formula4('statistics.compute_mutual_information', mutual_information)

    def clt_parameters():
        q = 'BinaryCLT.compute_clt_parameters'
        fn = T.find_func(cltree, q)
        a = args_of(fn, ('bfs', 'tree', 'priors', 'joints'), q)
        B, TR, P, J = a
        stmts = nodoc(fn.body)
        by = {}
        for st in stmts:
            if isinstance(st, ast.Assign) and isinstance(st.targets[0], ast.Name):
                by.setdefault(st.targets[0].id, []).append(st)
        # root_id = bfs[0]; n_features = len(bfs); vs = np.arange(n_features)
        roots = [n for n, ss in by.items() if len(ss) == 1 and txt(ss[0].value) == f'{B}[0]']
        rn = T.the(roots, f'{q}: root_id = bfs[0]')
        vsn = T.the([n for n, ss in by.items() if len(ss) == 1 and txt(ss[0].value).startswith('np.arange(')], f'{q}: vs = np.arange(…)')
        nfe = T.the(T.assignments(fn, ast.unparse(by[vsn][0].value.args[0])), 'argument of np.arange')
        if txt(nfe) != f'len({B})':
            raise U(f'{q}: vs is not np.arange(len(bfs))')
        es = [s for s in stmts if isinstance(s, ast.Assign) and isinstance(s.value, ast.Call) and (T.dotted_name(s.value.func) or '') == 'np.einsum']
        es = T.the(es, f'{q}: einsum')
        pn = es.targets[0].id
        c = es.value
        if len(c.args) != 3 or c.keywords or not (isinstance(c.args[0], ast.Constant) and isinstance(c.args[0].value, str)):
            raise U(f'{q}: einsum is not called as (spec, A, B)')
        spec = c.args[0].value.replace(' ', '')
        ins, out_ = spec.split('->')
        sa, sb = ins.split(',')
        if len(out_) != 3 or len(set(out_)) != 3 or set(sa) | set(sb) != set(out_) or len(sa) != 3 or len(sb) != 2:
            raise U(f'{q}: einsum spec {spec} is not an entry-wise product of a 3-D and a 2-D operand (no summed index)')
        pos = {ch: ['i', 'l', 'k'][k] for k, ch in enumerate(out_)}       # output entry is named [i, l, k]
        if txt(c.args[1]) != f'{J}[{vsn},{TR}]':
            raise U(f'{q}: the first einsum operand is not joints[vs, tree]')
        if txt(c.args[2]) != f'np.reciprocal({P}[{TR}])':
            raise U(f'{q}: the second einsum operand is not np.reciprocal(priors[tree])')
        A = lambda x, y, z: f'joints {x} (tree {x}) {y} {z}'
        Bt = lambda x, y: f'((1 : F) / priors (tree {x}) {y})'
        term = f'({A(*[pos[ch] for ch in sa])}) * {Bt(*[pos[ch] for ch in sb])}'
        k = stmts.index(es)
        after = stmts[k + 1:]
        if len(after) != 3:
            raise U(f'{q}: expected (root row, normalisation, return) after the einsum')
        rr, nm, rt = after
        if not (isinstance(rr, ast.Assign) and txt(rr.targets[0]) == f'{pn}[{rn}]' and txt(rr.value) == f'{P}[{rn}]'):
            raise U(f'{q}: the root rows are not overwritten by params[root_id] = priors[root_id]')
        if not (isinstance(nm, ast.AugAssign) and isinstance(nm.op, ast.Div) and txt(nm.target) == pn and isinstance(nm.value, ast.Call)
                and (T.dotted_name(nm.value.func) or '') == 'np.sum' and txt(nm.value.args[0]) == pn):
            raise U(f'{q}: no normalisation `params /= np.sum(params, …)`')
        kws = {k_.arg: k_.value for k_ in nm.value.keywords}
        if set(kws) != {'axis', 'keepdims'} or txt(kws['keepdims']) != 'True':
            raise U(f'{q}: the normalisation is not np.sum(params, axis=…, keepdims=True)')
        axis = int(T.const_value(kws['axis']))
        if axis not in (1, 2):
            raise U(f'{q}: normalisation along axis {axis}')
        if txt(rt) != f'return{pn}':
            raise U(f'{q}: does not return params')
        den = ('(List.range 2).map (fun k\' => S4cltParamRaw priors joints tree root_id i l k\')' if axis == 2
               else '(List.range 2).map (fun l\' => S4cltParamRaw priors joints tree root_id i l\' k)')
        return ['/-- `BinaryCLT.compute_clt_parameters`: entry `[i, l, k]` of `params` before the normalisation: the einsum '
                f'`{spec}` of `joints[vs, tree]` and `np.reciprocal(priors[tree])`, the rows of `root_id = bfs[0]` overwritten by `priors[root_id]` '
                '(arrays are read by possibly negative integer indices, as NumPy does) -/\n'
                'def S4cltParamRaw (priors : Int → Nat → F) (joints : Int → Int → Nat → Nat → F) (tree : Int → Int) (root_id i : Int) (l k : Nat) : F :=\n'
                f'  if i = root_id then priors root_id k\n  else {term}',
                f'/-- … after `params /= np.sum(params, axis={axis}, keepdims=True)` -/\n'
                'def S4cltParam (priors : Int → Nat → F) (joints : Int → Int → Nat → Nat → F) (tree : Int → Int) (root_id i : Int) (l k : Nat) : F :=\n'
                f'  S4cltParamRaw priors joints tree root_id i l k / Gen.Py4.sum ({den})']
    formula4('cltree.compute_clt_parameters', clt_parameters)

    def clt_fit():
        q = 'BinaryCLT.fit'
        fn = T.find_func(cltree, q)
        stmts = nodoc(fn.body)
        # argument guards and the random-state check come first; the steps start at the root choice
        k0 = [k for k, s in enumerate(stmts) if isinstance(s, ast.If) and txt(s.test) == 'self.rootisNone']
        k0 = T.the(k0, f'{q}: `if self.root is None`')
        pre = stmts[:k0]
        for s in pre:
            ok = (isinstance(s, ast.If) and len(s.body) == 1 and isinstance(s.body[0], ast.Raise)) \
                or (isinstance(s, ast.Assign) and txt(s.value) in ('data.shape', 'check_random_state(random_state)'))
            if not ok:
                raise U(f'{q}: statement before the root choice not understood: ' + ast.unparse(s).splitlines()[0])
        steps = []
        for s in stmts[k0:]:
            if isinstance(s, ast.If) and not s.orelse:
                for b in nodoc(s.body):
                    if not isinstance(b, ast.Assign):
                        raise U(f'{q}: conditional step that is not an assignment')
                    steps.append((canon_locals(fn, s.test), canon_locals(fn, b)))
            elif isinstance(s, ast.Assign):
                steps.append(('', canon_locals(fn, s)))
            else:
                raise U(f'{q}: step not understood: ' + ast.unparse(s).splitlines()[0])
        return ('/-- `BinaryCLT.fit` after its argument guards: the steps (condition, assignment) in order; local variables are written v0, v1, … '
                'in the order of their first assignment in the function -/\n'
                'def S4cltFitSteps : List (String × String) := [' + ',\n   '.join(f'({T.lean_str(c_)}, {T.lean_str(s_)})' for c_, s_ in steps) + ']')
    const4('cltree.fit', clt_fit)

    # ---- (e) C18: BinaryCNet.fit, learn_cnet_bd, learn_cnet_bic — the bodies of the `while node_stack:` loops -------------------------
    cnet = T.parse_file(repo, 'deeprob/spn/structure/cnet.py')
    cnet_bayes = T.parse_file(repo, 'deeprob/spn/learning/cnet_bayesian.py')
    CNODE = {'scope': ('S4CNode.scope', ('list', 'item')), 'row_indices': ('S4CNode.rows', ('list', 'item')),
             'col_indices': ('S4CNode.cols', ('list', 'item')), 'clt': ('S4CNode.clt', ('opt', 'clt'))}
    o.consts.append('/-- a `BinaryCNet` object as the learners build it: `scope`, `row_indices`, `col_indices`, and the Chow-Liu tree handed over '
                    '(`none` = not set) -/\nstructure S4CNode (C : Type) where\n  scope : List Nat\n  rows : List Nat\n  cols : List Nat\n  clt : Option C := none')

    def cnet_hook(part):
        def h(tr, e):
            nm = T.dotted_name(e.func) or ''
            kws = {k.arg: k.value for k in e.keywords}
            if nm == 'np.arange' and len(e.args) == 1 and not kws:
                return f'(List.range ({tr.as_int(tr.tr(e.args[0]))}).toNat)', ('list', 'item')
            if nm == 'list' and len(e.args) == 1 and isinstance(e.args[0], ast.Call) and (T.dotted_name(e.args[0].func) or '') == 'range' \
                    and len(e.args[0].args) == 1:
                return f'(List.range ({tr.as_int(tr.tr(e.args[0].args[0]))}).toNat)', ('list', 'item')
            if nm == 'np.delete' and len(e.args) == 1 and set(kws) == {'obj'}:
                xs, k = tr.tr(e.args[0]), tr.tr(kws['obj'])
                if xs[1] == ('list', 'item') and k[1] in ('int', 'item'):
                    return f'(Py3.delete {xs[0]} ({tr.as_int(k)}).toNat)', ('list', 'item')
            if nm == 'BinaryCNet' and not e.args and set(kws) == {'scope'}:
                sc = tr.tr(kws['scope'])
                if sc[1] == ('list', 'item'):
                    return f'({{ scope := {sc[0]}, rows := [], cols := [] }} : S4CNode C)', 'obj'
            if isinstance(e.func, ast.Attribute) and e.func.attr == 'copy' and not e.args and not kws:
                v = tr.tr(e.func.value)
                if isinstance(v[1], tuple) and v[1][0] == 'list':
                    return v
            if nm == 'min' and len(e.args) == 2 and not kws:
                return f'(min {tr.as_int(tr.tr(e.args[0]))} {tr.as_int(tr.tr(e.args[1]))})', 'int'
            return None
        return h

    class TrN(TrIn):
        """TrIn plus the columns of the data partition `partition[:, k]` (`cutcol k`)"""
        part = None
        def child(self, **bind):
            sub = TrN(self.env, None, self.attrs, self.funcs, self.transparent, self.enums)
            sub.syms = self.syms
            sub.hooks = self.hooks
            sub.part = self.part
            sub.env.update(bind)
            return sub
        def tr(self, e):
            if txt(e) in self.syms:
                return self.syms[txt(e)]
            if isinstance(e, ast.Subscript) and isinstance(e.value, ast.Name) and e.value.id == self.part and isinstance(e.slice, ast.Tuple) \
                    and len(e.slice.elts) == 2 and txt(e.slice.elts[0]) == ':':
                k = self.tr(e.slice.elts[1])
                if k[1] in ('int', 'item'):
                    return f'(cutcol {self.as_int(k)})', ('list', 'int')
            return TrIn.tr(self, e)

    def cnode_stmt_hook(q, nd, part, extra=None):
        """statement readings shared by the three learners"""
        def hook(tr, st):
            if extra is not None:
                r = extra(tr, st)
                if r is not None:
                    return r
            if isinstance(st, ast.Assign) and len(st.targets) == 1:
                tg, v = st.targets[0], st.value
                if isinstance(tg, ast.Tuple) and txt(v) == f'{part}.shape' and len(tg.elts) == 2:
                    a_, b_ = [x.id for x in tg.elts]
                    return [(T.lid(a_), a_, f'(((S4CNode.rows node).length : Nat) : Int)', 'int'),
                            (T.lid(b_), b_, f'(((S4CNode.cols node).length : Nat) : Int)', 'int')]
                if txt(tg) == f'{nd}.or_id':
                    t_, ty = tr.tr(v)
                    if ty != 'item':
                        raise U(f'{q}: node.or_id does not receive a variable')
                    return [('node_or_id', f'{nd}.or_id', f'some {t_}', ('opt', 'item'))]
                if txt(tg) == f'{nd}.clt' and txt(v) == 'None':
                    return [('node_clt', f'{nd}.clt', '"None"', 'str')]
                if isinstance(tg, ast.Attribute) and isinstance(tg.value, ast.Name) and tg.attr == 'clt' and tg.value.id != nd:
                    old = tr.tr(tg.value)
                    c_, cty = tr.tr(v)
                    if old[1] == 'obj' and cty == 'clt':
                        return [(T.lid(tg.value.id), tg.value.id, f'{{ {old[0]} with clt := some {c_} }}', 'obj')]
            if isinstance(st, ast.Expr) and isinstance(st.value, ast.Call) and isinstance(st.value.func, ast.Attribute):
                c = st.value
                kws = {k.arg: k.value for k in c.keywords}
                if c.func.attr == 'assign_indices' and isinstance(c.func.value, ast.Name) and not c.args and set(kws) == {'row_indices', 'col_indices'}:
                    old = tr.tr(c.func.value)
                    r_, c_ = tr.tr(kws['row_indices']), tr.tr(kws['col_indices'])
                    if old[1] == 'obj' and r_[1] == ('list', 'item') and c_[1] == ('list', 'item'):
                        return [(T.lid(c.func.value.id), c.func.value.id, f'{{ {old[0]} with rows := {r_[0]}, cols := {c_[0]} }}', 'obj')]
                if c.func.attr == 'fit_clt' and txt(c.func.value) == nd and not c.args and {k_: txt(v_) for k_, v_ in kws.items()} == {'data': part, 'alpha': 'alpha'}:
                    return [('node_clt', f'{nd}.clt', '"fit_clt(partition, alpha)"', 'str')]
            if isinstance(st, ast.Delete) and len(st.targets) == 1 and isinstance(st.targets[0], ast.Subscript) and isinstance(st.targets[0].value, ast.Name):
                xs, k = tr.tr(st.targets[0].value), tr.tr(st.targets[0].slice)
                if xs[1] == ('list', 'item') and k[1] in ('int', 'item'):
                    nm_ = st.targets[0].value.id
                    return [(T.lid(nm_), nm_, f'(Py3.delete {xs[0]} ({tr.as_int(k)}).toNat)', ('list', 'item'))]
            return None
        return hook

    NODE_OUTS = lambda nd: [f'{nd}.children', f'{nd}.weights', f'{nd}.or_id', f'{nd}.clt']

    def node_env(tr, nd):
        tr.syms[f'{nd}.children'] = ('([] : List (S4CNode C))', ('list', 'obj'))
        tr.syms[f'{nd}.weights'] = ('([] : List W)', ('list', 'num'))
        tr.syms[f'{nd}.or_id'] = ('(none : Option Nat)', ('opt', 'item'))
        tr.syms[f'{nd}.clt'] = ('"unchanged"', 'str')

    WSIG = '{W C : Type} [Add W] [Sub W] [Mul W] [Div W] [IntCast W] [LT W] [DecidableLT W] [LE W] [DecidableLE W]'

    def cnet_fit():
        q = 'BinaryCNet.fit'
        fn = T.find_func(cnet, q)
        params = [a.arg for a in fn.args.args]
        if params != ['self', 'data', 'alpha', 'min_n_samples', 'min_n_features', 'min_mean_entropy']:
            raise U(f'{q}: parameters are {params}')
        stmts = nodoc(fn.body)
        loop = T.the([s for s in stmts if isinstance(s, ast.While)], f'{q}: while loop')
        k = stmts.index(loop)
        stack = txt(loop.test)
        body = nodoc(loop.body)
        if not (isinstance(body[0], ast.Assign) and isinstance(body[0].targets[0], ast.Name) and txt(body[0].value) in (f'{stack}.pop(0)', f'{stack}.pop()')):
            raise U(f'{q}: the loop does not start by taking a node from {stack}')
        pop = txt(body[0].value)[len(stack) + 1:]
        nd = body[0].targets[0].id
        if not (isinstance(body[1], ast.Assign) and isinstance(body[1].targets[0], ast.Name)
                and txt(body[1].value) == f'data[{nd}.row_indices][:,{nd}.col_indices]'):
            raise U(f'{q}: the partition is not data[node.row_indices][:, node.col_indices]')
        part = body[1].targets[0].id
        def extra(tr, st):
            if isinstance(st, ast.Assign) and isinstance(st.targets[0], ast.Tuple) and isinstance(st.value, ast.Call) \
                    and txt(st.value.func) in ('self.__select_variable_entropy', 'self._BinaryCNet__select_variable_entropy'):
                if [txt(x) for x in st.value.args] != [part] or {k_.arg: txt(k_.value) for k_ in st.value.keywords} != {'alpha': 'alpha'}:
                    raise U(f'{q}: the cut variable is not selected on (partition, alpha=alpha)')
                ns = [x.id for x in st.targets[0].elts]
                if len(ns) != 3:
                    raise U(f'{q}: the selection does not return (index, mean entropy, information gain)')
                return [(T.lid(ns[0]), ns[0], 'selIdx', 'int'), (T.lid(ns[1]), ns[1], 'meanEntropy', 'num'), (T.lid(ns[2]), ns[2], 'maxGain', 'num')]
            return None
        tr = TrN(env={nd: ('node', 'obj'), stack: ('stack', ('list', 'obj')), 'alpha': ('alpha', 'num'),
                      'min_n_samples': ('min_n_samples', 'int'), 'min_n_features': ('min_n_features', 'int'),
                      'min_mean_entropy': ('min_mean_entropy', 'num')}, attrs=CNODE)
        tr.part = part
        tr.hooks = (cnet_hook(part),)
        node_env(tr, nd)
        ex = T.Exec4(q, stmt_hook=cnode_stmt_hook(q, nd, part, extra))
        text, tys = ex.run(tr, body[2:], [stack] + NODE_OUTS(nd), in_loop=True)
        if tys != [('list', 'obj'), ('list', 'obj'), ('list', 'num'), ('opt', 'item'), 'str']:
            raise U(f'{q}: the loop body does not leave (stack, children, weights, or_id, clt) but {tys}')
        # before the loop: root and the stack; after it: what is copied from the temporary root
        pre = stmts[:k]
        rootst = [s for s in pre if isinstance(s, ast.Assign) and isinstance(s.targets[0], ast.Name) and isinstance(s.value, ast.Call)
                  and (T.dotted_name(s.value.func) or '') == 'BinaryCNet']
        rs = T.the(rootst, f'{q}: temporary root')
        rn = rs.targets[0].id
        sh = pre[0]
        if not (isinstance(sh, ast.Assign) and isinstance(sh.targets[0], ast.Tuple) and txt(sh.value) == 'data.shape'):
            raise U(f'{q}: the first statement is not `<rows>, <cols> = data.shape`')
        a_, b_ = [x.id for x in sh.targets[0].elts]
        tr2 = TrN(env={a_: ('nSamples', 'int'), b_: ('nFeatures', 'int')}, attrs=CNODE)
        tr2.hooks = (cnet_hook(part),)
        ex2 = T.Exec4(q, stmt_hook=cnode_stmt_hook(q, rn, part), skip=lambda st: not any(isinstance(n, ast.Name) and n.id == rn for n in ast.walk(st)))
        init, ity = ex2.run(tr2, pre[1:], [stack])
        if ity != [('list', 'obj')]:
            raise U(f'{q}: the stack does not start as a list of nodes')
        post = stmts[k + 1:]
        copies = []
        for st in post:
            if not (isinstance(st, ast.Assign) and isinstance(st.targets[0], ast.Attribute) and txt(st.targets[0].value) == 'self'
                    and txt(st.value) == f'{rn}.{st.targets[0].attr}'):
                raise U(f'{q}: statement after the loop that does not copy an attribute of the temporary root: ' + ast.unparse(st))
            copies.append(st.targets[0].attr)
        return ('/-- `BinaryCNet.fit`: one iteration of `while node_stack:` after `node = node_stack.<S4cnetFitPop>` (`stack` = the rest); cutcol k = column '
                '`partition[:, k]` of `partition = data[node.row_indices][:, node.col_indices]`; (selIdx, meanEntropy, maxGain) = the answer of '
                '`__select_variable_entropy(partition, alpha=alpha)`.  Result: the stack, then `node.children`, `node.weights`, `node.or_id`, and '
                'what happened to `node.clt` -/\n'
                f'def S4cnetFitStep {WSIG} (node : S4CNode C) (stack : List (S4CNode C)) (cutcol : Int → List Int)\n'
                '    (alpha min_mean_entropy : W) (min_n_samples min_n_features : Int) (selIdx : Int) (meanEntropy maxGain : W) :\n'
                '    List (S4CNode C) × List (S4CNode C) × List W × Option Nat × String :=\n'
                f'  {text}\n'
                f'def S4cnetFitPop : String := {T.lean_str(pop)}\n'
                '/-- … the stack before the loop, and the attributes copied from the temporary root to `self` after it -/\n'
                f'def S4cnetFitInit {{C : Type}} (nSamples nFeatures : Int) : List (S4CNode C) :=\n  {init}\n'
                f'def S4cnetFitCopies : List String := {T.lean_list([T.lean_str(x) for x in copies])}')
    const4('cnet.fit', cnet_fit)

    def score_learner(q, lean, hyper, par_doc):
        """`learn_cnet_bd` / `learn_cnet_bic`: the loop body around the (oracle) search for the best cut"""
        def mk():
            fn = T.find_func(cnet_bayes, q)
            stmts = nodoc(fn.body)
            loop = T.the([s for s in stmts if isinstance(s, ast.While)], f'{q}: while loop')
            stack = txt(loop.test)
            body = nodoc(loop.body)
            s0 = body[0]
            if not (isinstance(s0, ast.Assign) and isinstance(s0.targets[0], ast.Tuple) and txt(s0.value) in (f'{stack}.pop(0)', f'{stack}.pop()')):
                raise U(f'{q}: the loop does not start by unpacking an entry of {stack}')
            pop = txt(s0.value)[len(stack) + 1:]
            names = [x.id for x in s0.targets[0].elts]
            nd = names[0]
            if len(names) != (3 if 'ess' in hyper else 2):
                raise U(f'{q}: a stack entry has {len(names)} components')
            parts = [s for s in body if isinstance(s, ast.Assign) and txt(s.value) == f'data[{nd}.row_indices][:,{nd}.col_indices]']
            part = T.the(parts, f'{q}: partition').targets[0].id
            # the search for the best cut: `for i in <search_indices>` with its update block
            fl = T.the([s for s in body if isinstance(s, ast.For)], f'{q}: candidate loop')
            upd = [s for s in fl.body if isinstance(s, ast.If) and isinstance(s.test, ast.Compare) and isinstance(s.test.ops[0], ast.Gt)
                   and all(isinstance(b, ast.Assign) and isinstance(b.targets[0], ast.Name) for b in s.body)]
            upd = T.the(upd, f'{q}: update of the best candidate')
            oracle = [b.targets[0].id for b in upd.body]
            best_score = txt(upd.test.comparators[0])
            if best_score not in oracle:
                raise U(f'{q}: the update block does not update the score it compares with')
            inits = {}
            for s in body:
                if isinstance(s, ast.Assign) and isinstance(s.targets[0], ast.Name) and s.targets[0].id in oracle and s is not upd:
                    t_ = txt(s.value)
                    inits[s.targets[0].id] = 'int' if t_ in ('-1', '0') else ('clt' if t_ == 'None' else 'num')
            if set(inits) != set(oracle):
                raise U(f'{q}: the best-candidate variables are not all initialised before the search')
            # k = min(n_cand_cuts, len(node.scope)); search_indices = select_cand_cuts(…, n_cand_cuts=k)
            sel = T.the([s for s in body if isinstance(s, ast.Assign) and isinstance(s.value, ast.Call)
                         and (T.dotted_name(s.value.func) or '') == 'select_cand_cuts'], f'{q}: select_cand_cuts')
            if txt(fl.iter) != sel.targets[0].id:
                raise U(f'{q}: the candidate loop is not over the result of select_cand_cuts')
            kk = {k_.arg: k_.value for k_ in sel.value.keywords}.get('n_cand_cuts')
            if kk is None or not isinstance(kk, ast.Name):
                raise U(f'{q}: select_cand_cuts is not called with n_cand_cuts=<name>')
            def skip(st):
                if st is fl or st is sel:
                    return True
                if isinstance(st, ast.Assign) and isinstance(st.targets[0], ast.Name) and st.targets[0].id in oracle:
                    return True
                if isinstance(st, ast.Assign) and isinstance(st.value, ast.Call) and (T.dotted_name(st.value.func) or '') in ('compute_or_bd_scores',):
                    return True
                return False
            def extra(tr, st):
                if isinstance(st, ast.Expr) and isinstance(st.value, ast.Call) and txt(st.value.func) == f'{stack}.append' \
                        and len(st.value.args) == 1 and isinstance(st.value.args[0], ast.List):
                    vals = [tr.tr(x) for x in st.value.args[0].elts]
                    want = ['obj'] + ['num'] * (len(names) - 1)
                    if [ty for _, ty in vals] != want:
                        raise U(f'{q}: a stack entry is not (node, ' + ', '.join(['number'] * (len(names) - 1)) + ')')
                    old = tr.tr(st.value.func.value)
                    return [(T.lid(stack), stack, f'({old[0]} ++ [({", ".join(t_ for t_, _ in vals)})])', old[1])]
                return None
            env = {nd: ('node', 'obj'), stack: ('stack', ('list', 'entry')), 'n_cand_cuts': ('n_cand_cuts', 'int')}
            for nm_, p in zip(names[1:], ['nodePar', 'nodeScore'] if len(names) == 3 else ['nodeScore']):
                env[nm_] = (p, 'num')
            for h in hyper:
                if h not in names:
                    env[h] = (h, 'num')
            for nm_ in oracle:
                env[nm_] = ('best' + ''.join(w.capitalize() for w in nm_.split('_')[1:]), inits[nm_])
            tr = TrN(env=env, attrs=CNODE)
            tr.part = part
            tr.hooks = (cnet_hook(part),)
            node_env(tr, nd)
            ex = T.Exec4(q, stmt_hook=cnode_stmt_hook(q, nd, part, extra), skip=skip)
            rest = [s for s in body[1:] if not (isinstance(s, ast.Assign) and s.targets[0] is parts[0].targets[0])]
            text, tys = ex.run(tr, rest, [stack] + NODE_OUTS(nd), in_loop=True)
            if tys != [('list', 'entry'), ('list', 'obj'), ('list', 'num'), ('opt', 'item'), 'str']:
                raise U(f'{q}: the loop body does not leave (stack, children, weights, or_id, clt) but {tys}')
            ety = 'S4CNode C × W × W' if len(names) == 3 else 'S4CNode C × W'
            binders = ' '.join(f'({env[nm_][0]} : {"Int" if inits[nm_] == "int" else ("C" if inits[nm_] == "clt" else "W")})' for nm_ in oracle)
            pars = ' '.join(f'({env[nm_][0]} : W)' for nm_ in names[1:]) + ''.join(f' ({h} : W)' for h in hyper if h not in names)
            return (f'/-- `{q}`: one iteration of `while node_stack:` after `{", ".join(names)} = node_stack.<{lean}Pop>` (`stack` = the rest; {par_doc}); '
                    'cutcol k = column `partition[:, k]`; the `best…` arguments = the values left by the search over `select_cand_cuts(…, n_cand_cuts=k)` '
                    f'(`{lean}K`), in the order of its update block ({", ".join(oracle)}).  Result: the stack, then `node.children`, `node.weights`, `node.or_id`, and what '
                    'happened to `node.clt` -/\n'
                    f'def {lean}Step {WSIG} (node : S4CNode C) {pars} (stack : List ({ety}))\n'
                    f'    (cutcol : Int → List Int) (n_cand_cuts : Int) {binders} :\n'
                    f'    List ({ety}) × List (S4CNode C) × List W × Option Nat × String :=\n'
                    f'  {text}\n'
                    f'def {lean}Pop : String := {T.lean_str(pop)}\n'
                    f'/-- … the candidate loop runs over `select_cand_cuts(…, n_cand_cuts={kk.id})` with -/\n'
                    f'def {lean}K {{C : Type}} (node : S4CNode C) (n_cand_cuts : Int) : Int :=\n'
                    f'  {tr.as_int(tr.tr(T.the(T.assignments(fn, kk.id), kk.id)))}')
        const4('cnet_bayesian.' + q, mk)
    score_learner('learn_cnet_bd', 'S4cnetBd', ['ess'], 'nodePar = `node_ess`, nodeScore = `node_clt_score`')
    score_learner('learn_cnet_bic', 'S4cnetBic', ['alpha'], 'nodeScore = `node_clt_score`')

    def select_cand_scalar():
        q = 'select_cand_cuts'
        fn = T.find_func(cnet_bayes, q)
        r = T.the(T.returns(fn), f'{q}: return')
        v = T.the(T.assignments(fn, ast.unparse(r)), f'{q}: returned value') if isinstance(r, ast.Name) else r
        if not (isinstance(v, ast.IfExp) and isinstance(v.body, ast.Call) and (T.dotted_name(v.body.func) or '') == 'np.argmax'
                and isinstance(v.orelse, ast.Subscript)):
            raise U(f'{q}: the result is not `np.argmax(…) if <test> else <array>[…]`')
        tr = T.TrZ4(env={'n_cand_cuts': ('n_cand_cuts', 'int')})
        return ('/-- `select_cand_cuts` returns a SCALAR (`np.argmax`), not an array, iff — and `for i in <scalar>` raises `TypeError` -/\n'
                f'def S4selectCandScalar (n_cand_cuts : Int) : Bool := {tr.as_bool(tr.tr(v.test))}')
    const4('cnet_bayesian.select_cand_cuts', select_cand_scalar)

    # ---- (f) C16: layers/ratspn.py and models/ratspn.py — the top-down passes of `mpe` and `sample` on one row ------------------------
    rat_l = T.parse_file(repo, 'deeprob/spn/layers/ratspn.py')
    rat_m = T.parse_file(repo, 'deeprob/spn/models/ratspn.py')
    VEC, IVEC = ('list', 'num'), ('list', 'int')

    def kwmap(e):
        return {k.arg: k.value for k in e.keywords}

    class TrT(TrIn):
        """torch code read on ONE row of the batch: index rows are lists of integers, a layer input is `x : Int → List α` (group ↦ the
        values of its nodes), weights are accessors, `log_softmax` is an opaque map on vectors"""
        def child(self, **bind):
            sub = TrT(self.env, None, self.attrs, self.funcs, self.transparent, self.enums)
            sub.syms = self.syms
            sub.hooks = self.hooks
            sub.env.update(bind)
            return sub
        def tr(self, e):
            if txt(e) in self.syms:
                return self.syms[txt(e)]
            if isinstance(e, ast.Tuple) and all(isinstance(x, ast.Name) for x in e.elts) and len(e.elts) == 2:
                a_, b_ = self.tr(e.elts[0]), self.tr(e.elts[1])
                return f'({a_[0]}, {b_[0]})', ('pair', a_[1], b_[1])
            if isinstance(e, ast.BinOp) and isinstance(e.op, (ast.Add, ast.Mult)):
                a_, b_ = self.tr(e.left), self.tr(e.right)
                op = BIN[type(e.op)]
                if a_[1] == IVEC and b_[1] == 'int':
                    return f'({a_[0]}.map (fun a => a {op} {b_[0]}))', IVEC
                if a_[1] == VEC and b_[1] == VEC and op == '+':
                    return f'(List.zipWith (fun a b => a + b) {a_[0]} {b_[0]})', VEC
                if a_[1] == ('list', VEC) and b_[1] == ('list', VEC) and op == '+':
                    return f'(List.zipWith (fun u v => List.zipWith (fun a b => a + b) u v) {a_[0]} {b_[0]})', ('list', VEC)
            if isinstance(e, ast.Subscript):
                sl = e.slice
                base = self.tr(e.value)
                if base[1] == 'tab' and isinstance(sl, ast.Tuple) and len(sl.elts) == 2 and isinstance(e.value, ast.Name) \
                        and txt(sl.elts[0]) == f'torch.unsqueeze(torch.arange({e.value.id}.shape[0]),dim=1)':
                    ix = self.tr(sl.elts[1])                # x[arange(n)[:, None], idx]: row r reads x[r, idx[r, j]]
                    if ix[1] == IVEC:
                        return f'({ix[0]}.map (fun g => {base[0]} g))', ('list', VEC)
                if base[1] == 'tab2' and isinstance(sl, ast.Tuple) and len(sl.elts) == 2:
                    a_, b_ = self.tr(sl.elts[0]), self.tr(sl.elts[1])
                    if a_[1] == IVEC and b_[1] == IVEC:
                        return f'(List.zipWith (fun g o => {base[0]} g o) {a_[0]} {b_[0]})', ('list', base[2] if len(base) > 2 else VEC)
                if base[1] == 'cls2vec' and not isinstance(sl, (ast.Tuple, ast.Slice)):
                    y = self.tr(sl)
                    if y[1] == 'int':
                        return f'({base[0]} {y[0]})', VEC
                if base[1] == IVEC and isinstance(sl, ast.Tuple) and len(sl.elts) == 2 and txt(sl.elts[0]) == ':':
                    k = self.tr(sl.elts[1])
                    if k[1] == 'int':
                        return f'(Py4.getI {base[0]} {k[0]} 0)', 'int'
                if base[1] == 'int2ivec' or base[1] == 'int2bvec':
                    k = self.tr(sl)
                    if k[1] == 'int':
                        return f'({base[0]} {k[0]})', (IVEC if base[1] == 'int2ivec' else ('list', 'bool'))
            if isinstance(e, ast.Call):
                nm = T.dotted_name(e.func) or ''
                kw = kwmap(e)
                if nm == 'torch.div' and len(e.args) == 2 and {k: txt(v) for k, v in kw.items()} == {'rounding_mode': "'floor'"}:
                    a_, b_ = self.tr(e.args[0]), self.tr(e.args[1])
                    if a_[1] == IVEC and b_[1] == 'int':
                        return f'({a_[0]}.map (fun a => Int.fdiv a {b_[0]}))', IVEC
                    if a_[1] == 'int' and b_[1] == 'int':
                        return f'(Int.fdiv {a_[0]} {b_[0]})', 'int'
                if nm == 'torch.remainder' and len(e.args) == 2 and not kw:
                    a_, b_ = self.tr(e.args[0]), self.tr(e.args[1])
                    if a_[1] == IVEC and b_[1] == 'int':
                        return f'({a_[0]}.map (fun a => Int.fmod a {b_[0]}))', IVEC
                if nm == 'torch.flatten' and len(e.args) == 1 and {k: txt(v) for k, v in kw.items()} == {'start_dim': '1'}:
                    inner = e.args[0]
                    if isinstance(inner, ast.Call) and (T.dotted_name(inner.func) or '') == 'torch.stack' and len(inner.args) == 1 \
                            and isinstance(inner.args[0], ast.List) and len(inner.args[0].elts) == 2 \
                            and {k: txt(v) for k, v in kwmap(inner).items()} == {'dim': '2'}:
                        a_, b_ = self.tr(inner.args[0].elts[0]), self.tr(inner.args[0].elts[1])
                        if a_[1] == IVEC and b_[1] == IVEC:
                            return f'(Py4.interleave {a_[0]} {b_[0]})', IVEC
                    v = self.tr(inner)
                    if isinstance(v[1], tuple) and v[1][0] == 'list' and isinstance(v[1][1], tuple) and v[1][1][0] == 'list':
                        return f'({v[0]}.flatten)', v[1][1]
                if nm == 'torch.log_softmax' and len(e.args) == 1 and set(kw) == {'dim'}:
                    v = self.tr(e.args[0])
                    d = int(T.const_value(kw['dim']))
                    if v[1] == ('list', VEC) and d == 2:
                        return f'({v[0]}.map logSoftmax)', ('list', VEC)
                    if v[1] == 'cls2raw' and d == 1:
                        return f'(fun c => logSoftmax ({v[0]} c))', 'cls2vec'
                if nm == 'torch.argmax' and len(e.args) == 1:
                    v = self.tr(e.args[0])
                    kws = {k: txt(v_) for k, v_ in kw.items()}
                    if v[1] == ('list', VEC) and kws == {'dim': '2'}:
                        return f'({v[0]}.map (fun v => ((Py4.argmax v : Nat) : Int)))', IVEC
                    if v[1] == VEC and kws == {'dim': '1', 'keepdim': 'True'}:
                        return f'[((Py4.argmax {v[0]} : Nat) : Int)]', IVEC
                if nm == 'torch.gather' and len(e.args) == 1 and set(kw) == {'dim', 'index'} and txt(kw['dim']) == '1':
                    x_, ix = self.tr(e.args[0]), self.tr(kw['index'])
                    if x_[1] == ('list', 'val') and ix[1] == IVEC:
                        return f'(Py4.gather {x_[0]} {ix[0]})', ('list', 'val')
                if nm == 'torch.isnan' and len(e.args) == 1 and not kw:
                    v = self.tr(e.args[0])
                    if v[1] == ('list', 'optval'):
                        return f'({v[0]}.map Py3.isnan)', ('list', 'bool')
                if nm == 'torch.where' and len(e.args) == 3 and not kw:
                    c_, a_, b_ = [self.tr(x) for x in e.args]
                    if c_[1] == ('list', 'bool') and a_[1] == ('list', 'val') and b_[1] == ('list', 'optval'):
                        return (f'(Py4.zipWith3 (fun c a b => if c then a else (Py3.val b)) {c_[0]} {a_[0]} {b_[0]})', ('list', 'val'))
            return TrIn.tr(self, e)
    BIN = {ast.Add: '+', ast.Mult: '*'}

    def layer_method(cls, meth, params):
        fn = T.find_func(rat_l, f'{cls}.{meth}')
        a = args_of(fn, params, f'{cls}.{meth}')
        return fn, a

    def rat_product():
        q = 'ProductLayer.sample'
        fn, a = layer_method('ProductLayer', 'sample', ('self', 'idx_group', 'idx_offset'))
        S, G, O = a
        tr = TrT(env={G: ('idx_group', IVEC), O: ('idx_offset', IVEC)}, syms={f'{S}.in_nodes': ('in_nodes', 'int')})
        text, tys = T.Exec4(q).run(tr, nodoc(fn.body), T.RETURNED)
        if tys != [('pair', IVEC, IVEC)]:
            raise U(f'{q}: does not return a pair of index rows')
        fm, am = layer_method('ProductLayer', 'mpe', ('self', 'x', 'idx_group', 'idx_offset'))
        r = T.the(nodoc(fm.body), 'ProductLayer.mpe: single statement')
        if txt(r) != f'return{am[0]}.sample({am[2]},{am[3]})':
            raise U('ProductLayer.mpe does not return self.sample(idx_group, idx_offset)')
        return ('/-- `ProductLayer.sample` on one row (`ProductLayer.mpe(x, g, o)` returns `self.sample(g, o)`): the new (idx_group, idx_offset) -/\n'
                f'def S4ratProdSample (in_nodes : Int) (idx_group idx_offset : List Int) : List Int × List Int :=\n  {text}')
    const4('ratspn.ProductLayer.sample', rat_product)

    def rat_sum_mpe():
        q = 'SumLayer.mpe'
        fn, a = layer_method('SumLayer', 'mpe', ('self', 'x', 'idx_group', 'idx_offset'))
        S, X, G, O = a
        tr = TrT(env={X: ('x', 'tab'), G: ('idx_group', IVEC), O: ('idx_offset', IVEC)}, syms={f'{S}.weight': ('weight', 'tab2')})
        text, tys = T.Exec4(q).run(tr, nodoc(fn.body), T.RETURNED)
        if tys != [('pair', IVEC, IVEC)]:
            raise U(f'{q}: does not return a pair of index rows')
        return ('/-- `SumLayer.mpe` on one row: x g = the values `x[row, g, :]` of the input nodes of partition `g` (the layer\'s input in the forward '
                'pass), weight g o = `self.weight[g, o, :]`, logSoftmax = `torch.log_softmax` along the input-node axis -/\n'
                'def S4ratSumMpe {α : Type} [Add α] [LT α] [DecidableLT α] (logSoftmax : List α → List α) (x : Int → List α) (weight : Int → Int → List α)\n'
                f'    (idx_group idx_offset : List Int) : List Int × List Int :=\n  {text}')
    const4('ratspn.SumLayer.mpe', rat_sum_mpe)

    def rat_sum_sample():
        q = 'SumLayer.sample'
        fn, a = layer_method('SumLayer', 'sample', ('self', 'idx_group', 'idx_offset'))
        S, G, O = a
        stmts = nodoc(fn.body)
        if len(stmts) != 3:
            raise U(f'{q}: expected (logits, draw, return)')
        w, d, r = stmts
        tr = TrT(env={G: ('idx_group', IVEC), O: ('idx_offset', IVEC)}, syms={f'{S}.weight': ('weight', 'tab2')})
        lt, lty = tr.tr(w.value)
        if lty != ('list', VEC):
            raise U(f'{q}: the logits are not one vector per index')
        wn = w.targets[0].id
        if not (isinstance(d, ast.Assign) and txt(d.value) == f'distributions.Categorical(logits={wn}).sample()' and txt(d.targets[0]) == O):
            raise U(f'{q}: idx_offset is not drawn from distributions.Categorical(logits=w).sample()')
        if not (isinstance(r, ast.Return) and txt(r.value) == f'({G},{O})'):
            raise U(f'{q}: does not return (idx_group, idx_offset)')
        return ('/-- `SumLayer.sample` on one row: the logits of the categorical law every new `idx_offset[j]` is drawn from (independently); '
                '`idx_group` is returned unchanged -/\n'
                'def S4ratSumSampleLogits {α : Type} (logSoftmax : List α → List α) (weight : Int → Int → List α) (idx_group idx_offset : List Int) : List (List α) :=\n'
                f'  {lt}\n'
                'def S4ratSumSampleLaw : String := "distributions.Categorical(logits=w).sample()"')
    const4('ratspn.SumLayer.sample', rat_sum_sample)

    def rat_root():
        q = 'RootLayer.mpe'
        fn, a = layer_method('RootLayer', 'mpe', ('self', 'x', 'y'))
        S, X, Y = a
        tr = TrT(env={X: ('x', ('list', VEC)), Y: ('y', 'int')}, syms={f'{S}.weight': ('weight', 'cls2raw'), f'{S}.in_nodes': ('in_nodes', 'int')})
        text, tys = T.Exec4(q).run(tr, nodoc(fn.body), T.RETURNED)
        if tys != [('pair', IVEC, IVEC)]:
            raise U(f'{q}: does not return a pair of index rows')
        # sample: the same indices from a drawn flat index
        fs, as_ = layer_method('RootLayer', 'sample', ('self', 'y'))
        st = nodoc(fs.body)
        if len(st) != 5:
            raise U('RootLayer.sample: expected (w, idx, idx_group, idx_offset, return)')
        wn = st[0].targets[0].id
        if txt(st[0].value) != f'torch.log_softmax({as_[0]}.weight,dim=1)' \
                or txt(st[1].value) != f'distributions.Categorical(logits={wn}[{as_[1]}]).sample().unsqueeze(dim=1)':
            raise U('RootLayer.sample: the flat index is not drawn from Categorical(logits=log_softmax(self.weight, dim=1)[y])')
        idn = st[1].targets[0].id
        tr2 = TrT(env={idn: ('idx', IVEC)}, syms={f'{as_[0]}.in_nodes': ('in_nodes', 'int')})
        text2, tys2 = T.Exec4('RootLayer.sample').run(tr2, st[2:], T.RETURNED)
        if tys2 != [('pair', IVEC, IVEC)]:
            raise U('RootLayer.sample: does not return a pair of index rows')
        return ('/-- `RootLayer.mpe` on one row: x = the input of the root layer (partition ↦ values of its nodes), weight c = `self.weight[c, :]`, '
                'y = the class; the result is the pair of one-entry rows (idx_group, idx_offset) -/\n'
                'def S4ratRootMpe {α : Type} [Add α] [LT α] [DecidableLT α] (logSoftmax : List α → List α) (x : List (List α)) (weight : Int → List α)\n'
                f'    (in_nodes y : Int) : List Int × List Int :=\n  {text}\n'
                '/-- `RootLayer.sample` on one row, given the flat index drawn from `Categorical(logits=log_softmax(self.weight, dim=1)[y])` -/\n'
                f'def S4ratRootSample (in_nodes : Int) (idx : List Int) : List Int × List Int :=\n  {text2}')
    const4('ratspn.RootLayer', rat_root)

    def rat_base():
        q = 'RegionGraphLayer.unpad_samples'
        fn, a = layer_method('RegionGraphLayer', 'unpad_samples', ('self', 'x', 'idx_group'))
        S, X, G = a
        def hook(tr, st):
            if isinstance(st, ast.Assign) and isinstance(st.targets[0], ast.Name) and txt(st.value) == f'{G}.shape[0]':
                return [(T.lid(st.targets[0].id), st.targets[0].id, 'nRows', 'nrows')]
            if isinstance(st, ast.Assign) and isinstance(st.targets[0], ast.Name) and isinstance(st.value, ast.Call) \
                    and isinstance(st.value.func, ast.Attribute) and st.value.func.attr == 'view' and isinstance(st.value.func.value, ast.Subscript):
                sub = st.value.func.value
                args = [tr.tr(x) for x in st.value.args]
                if [ty for _, ty in args] != ['nrows', 'int'] or args[1][0] != 'in_features':
                    raise U(f'{q}: the selection is not viewed as (n_samples, in_features)')
                base, m = tr.tr(sub.value), tr.tr(sub.slice)
                if base[1] == ('list', 'val') and m[1] == ('list', 'bool'):
                    return [(T.lid(st.targets[0].id), st.targets[0].id, f'(Py.select {base[0]} {m[0]})', ('list', 'val'))]
            return None
        tr = TrT(env={X: ('x', ('list', 'val')), G: ('idx_group', IVEC)},
                 syms={f'{S}.rg_depth': ('rgDepth', 'int'), f'{S}.pad': ('pad', 'int'), f'{S}.in_features': ('in_features', 'int'),
                       f'{S}.inv_mask': ('invMask', 'int2ivec'), f'{S}.inv_pad_mask': ('invPadMask', 'int2bvec')})
        text, tys = T.Exec4(q, stmt_hook=hook).run(tr, nodoc(fn.body), T.RETURNED)
        if tys != [('list', 'val')]:
            raise U(f'{q}: does not return a row of values')
        # RegionGraphLayer.mpe
        q2 = 'RegionGraphLayer.mpe'
        fm, am = layer_method('RegionGraphLayer', 'mpe', ('self', 'x', 'idx_group', 'idx_offset'))
        S2, X2, G2, O2 = am
        def hook2(tr_, st):
            if isinstance(st, ast.Assign) and isinstance(st.targets[0], ast.Name) and txt(st.value) == f'{S2}.distribution_mode()':
                return [(T.lid(st.targets[0].id), st.targets[0].id, 'mode', 'tab2', ('list', 'val'))[:4]]
            if isinstance(st, ast.Assign) and isinstance(st.targets[0], ast.Name) and isinstance(st.value, ast.Call) \
                    and txt(st.value.func) == f'{S2}.unpad_samples':
                args = [tr_.tr(x) for x in st.value.args]
                if [ty for _, ty in args] != [('list', 'val'), IVEC]:
                    raise U(f'{q2}: unpad_samples is not applied to (samples, idx_group)')
                return [(T.lid(st.targets[0].id), st.targets[0].id, f'(unpadSamples {args[0][0]} {args[1][0]})', ('list', 'val'))]
            return None
        class TrT2(TrT):
            def child(self, **bind):
                sub = TrT2(self.env, None, self.attrs, self.funcs, self.transparent, self.enums)
                sub.syms = self.syms
                sub.hooks = self.hooks
                sub.env.update(bind)
                return sub
            def tr(self, e):
                if isinstance(e, ast.Subscript) and isinstance(e.value, ast.Name) and self.env.get(e.value.id, (None, None))[1] == 'tab2' \
                        and isinstance(e.slice, ast.Tuple) and len(e.slice.elts) == 2:
                    a_, b_ = self.tr(e.slice.elts[0]), self.tr(e.slice.elts[1])
                    if a_[1] == IVEC and b_[1] == IVEC:
                        return f'(List.zipWith (fun g o => {self.env[e.value.id][0]} g o) {a_[0]} {b_[0]})', ('list', ('list', 'val'))
                return TrT.tr(self, e)
        tr2 = TrT2(env={X2: ('x', ('list', 'optval')), G2: ('idx_group', IVEC), O2: ('idx_offset', IVEC)})
        text2, tys2 = T.Exec4(q2, stmt_hook=hook2).run(tr2, nodoc(fm.body), T.RETURNED)
        if tys2 != [('list', 'val')]:
            raise U(f'{q2}: does not return a row of values')
        return ('/-- `RegionGraphLayer.unpad_samples` on one row: x = the flattened samples of the selected leaves, idx_group = their region indices; '
                'invMask t / invPadMask t = row `t` of `self.inv_mask` / `self.inv_pad_mask` -/\n'
                'def S4ratUnpad {β : Type} [Inhabited β] (rgDepth pad in_features : Int) (invMask : Int → List Int) (invPadMask : Int → List Bool) (nRows : Nat)\n'
                f'    (x : List β) (idx_group : List Int) : List β :=\n  {text}\n'
                '/-- `RegionGraphLayer.mpe` on one row: mode g o = `self.distribution_mode()[g, o, :]`, unpadSamples = `self.unpad_samples`; an observed '
                'entry of `x` is kept, a missing one receives the sample (`torch.where(torch.isnan(x), samples, x)`) -/\n'
                'def S4ratBaseMpe (mode : Int → Int → List Nat) (unpadSamples : List Nat → List Int → List Nat) (x : List (Option Nat))\n'
                f'    (idx_group idx_offset : List Int) : List Nat :=\n  {text2}')
    const4('ratspn.RegionGraphLayer.mpe', rat_base)

    def rat_model(meth):
        def mk():
            q = f'RatSpn.{meth}'
            fn = T.find_func(rat_m, q)
            steps = []
            def rec(ss, conds):
                for st in ss:
                    if isinstance(st, ast.If):
                        arms, last = T.elif_chain(st)
                        neg = []
                        for test, body in arms:
                            c_ = canon_locals(fn, test)
                            rec(body, conds + [f'not ({x})' for x in neg] + [c_])
                            neg.append(c_)
                        if last:
                            rec(last, conds + [f'not ({x})' for x in neg])
                    elif isinstance(st, ast.For):
                        hdr = f'for {canon_locals(fn, st.target)} in {canon_locals(fn, st.iter)}'
                        rec(st.body, conds + [hdr])
                    elif isinstance(st, (ast.Assign, ast.Return, ast.Expr)):
                        steps.append((' and '.join(conds), canon_locals(fn, st)))
                    else:
                        raise U(f'{q}: statement not understood: ' + ast.unparse(st).splitlines()[0])
            rec(nodoc(fn.body), [])
            lean = 'S4ratModel' + meth.capitalize()
            return (f'/-- `RatSpn.{meth}`: every statement in order as (enclosing conditions / loop headers, statement); local variables are written '
                    'v0, v1, … in the order of their first assignment -/\n'
                    f'def {lean} : List (String × String) := [' + ',\n   '.join(f'({T.lean_str(c_)}, {T.lean_str(s_)})' for c_, s_ in steps) + ']')
        const4('ratspn.RatSpn.' + meth, mk)
    rat_model('mpe')
    rat_model('sample')

    # ---- (g) C07: algorithms/sampling.py — sum_sample (scores + Gumbel noise, arg-max axis), leaf_sample ------------------------------
    sampling = T.parse_file(repo, 'deeprob/spn/algorithms/sampling.py')

    def sum_sample_parts():
        q = 'sum_sample'
        fn = T.find_func(sampling, q)
        a = args_of(fn, ('node', 'lls'), q)
        N, L = a
        stmts = nodoc(fn.body)
        if len(stmts) != 4:
            raise U(f'{q}: expected (shape, noise, scores, return)')
        sh, gm, sc, rt = stmts
        if not (isinstance(sh, ast.Assign) and isinstance(sh.targets[0], ast.Tuple) and len(sh.targets[0].elts) == 2 and txt(sh.value) == f'{L}.shape'):
            raise U(f'{q}: the first statement is not `<rows>, <children> = lls.shape`')
        rows, cols = [x.id for x in sh.targets[0].elts]
        v = gm.value
        if not (isinstance(gm, ast.Assign) and isinstance(v, ast.Call) and (T.dotted_name(v.func) or '').endswith('.rvs')):
            raise U(f'{q}: the noise is not a SciPy rvs call')
        size = {k.arg: k.value for k in v.keywords}.get('size')
        if size is None or txt(size) != f'({rows},{cols})':
            raise U(f'{q}: the noise does not have one independent entry per (row, child): size={ast.unparse(size) if size is not None else None}')
        gname = gm.targets[0].id
        if not (isinstance(sc, ast.Assign) and isinstance(sc.targets[0], ast.Name)):
            raise U(f'{q}: the scores are not assigned to a name')
        tr = T.Tr(syms={L: 'll', f'{N}.weights': 'w', gname: 'g'},
                  call_hook=lambda t_, c: (f'(E.log {t_.tr(c.args[0])})' if (T.dotted_name(c.func) or '') == 'np.log' and len(c.args) == 1 else None))
        entry = tr.tr(sc.value)
        for s_ in ('ll', 'w', 'g'):
            if s_ not in entry.replace('E.log', ''):
                raise U(f'{q}: the scores do not depend on all of (lls, node.weights, noise)')
        if not isinstance(rt, ast.Return):
            raise U(f'{q}: no return')
        f, arg, axis, other = T.reduction_call(rt.value)
        if arg != sc.targets[0].id or other:
            raise U(f'{q}: does not return a reduction of the scores')
        return entry, f, axis

    def sum_sample_formula():
        entry, f, axis = sum_sample_parts()
        return ('/-- `sampling.sum_sample`: entry (row, child) of the scores; ll = log-value of the child, w = its weight, g = the noise of that '
                'entry (one independent draw per (row, child): `size=(n_samples, n_features)`) -/\n'
                f'def S4sumSampleEntry (ll w g : F) : F := {entry}')
    formula4('sampling.sum_sample.entry', sum_sample_formula)

    def sum_sample_const():
        entry, f, axis = sum_sample_parts()
        fl = T.find_func(sampling, 'leaf_sample')
        al = args_of(fl, ('node', 'x'), 'leaf_sample')
        r = T.the(nodoc(fl.body), 'leaf_sample: single statement')
        if txt(r) != f'return{al[0]}.sample({al[1]})':
            raise U('leaf_sample does not return node.sample(x)')
        fs = T.find_func(sampling, 'sample')
        c = T.the([x for x in ast.walk(fs) if isinstance(x, ast.Call) and (T.dotted_name(x.func) or '') == 'eval_top_down'], 'sample: eval_top_down call')
        kws = {k.arg: txt(k.value) for k in c.keywords}
        if kws.get('leaf_func') != 'leaf_sample' or kws.get('sum_func') != 'sum_sample':
            raise U('sample: eval_top_down is not called with leaf_func=leaf_sample, sum_func=sum_sample')
        ll = T.the([x for x in ast.walk(fs) if isinstance(x, ast.Call) and (T.dotted_name(x.func) or '') == 'log_likelihood'], 'sample: log_likelihood call')
        if [txt(x) for x in c.args[:3]] != ['root', 'x', 'lls'] or 'return_results' not in {k.arg for k in ll.keywords}:
            raise U('sample: the top-down pass does not run on (root, x, lls) with lls from log_likelihood(…, return_results=True)')
        return ('/-- `sampling.sum_sample`: the branch is the `S4sumSampleSelector` of the scores along `S4sumSampleAxis` (one row per sample, one '
                'column per child); `sampling.leaf_sample(node, x)` returns `node.sample(x)`; `sample` runs `eval_top_down(root, x, lls, '
                'leaf_func=leaf_sample, sum_func=sum_sample)` on the log-values of the INPUT rows -/\n'
                f'def S4sumSampleSelector : String := {T.lean_str(f)}\n'
                f'def S4sumSampleAxis : Option Int := {T.lean_opt_int(axis)}\n'
                'def S4leafSample : String := "node.sample(x)"\n'
                'def S4sampleTopDown : List String := ["log_likelihood(root, x, return_results=True)", "eval_top_down(root, x, lls, leaf_func=leaf_sample, sum_func=sum_sample)"]')
    const4('sampling.sum_sample', sum_sample_const)

    # ---- (b) C02 / C06: BinaryCLT.message_passing — the upward pass (sum-product / max-product) and the root value, on one row -----
    class TrC3(TrC2):
        """TrC2 plus the reads of the upward pass: `messages[j]`, `self.params[j, :, o]`, `self.params[j]`, `v[mask, :, o]`, `v[mask, o]`,
        broadcasts of a 2-vector against a 2×2 table, `logsumexp` / `np.max` along the value axis"""
        def child(self, **bind):
            sub = TrC3(self.env, None, self.attrs, self.funcs, self.transparent, self.enums)
            sub.syms = self.syms
            sub.hooks = self.hooks
            sub.selfname = self.selfname
            sub.env.update(bind)
            return sub
        def tr(self, e):
            if txt(e) in self.syms:
                return self.syms[txt(e)]
            full = lambda s_: isinstance(s_, ast.Slice) and s_.lower is None and s_.upper is None and s_.step is None
            if isinstance(e, ast.Subscript):
                sl = e.slice
                if txt(e.value) == f'{self.selfname}.params':
                    if isinstance(sl, ast.Tuple) and len(sl.elts) == 3:
                        a_, c_ = self.tr(sl.elts[0]), self.tr(sl.elts[2])
                        if full(sl.elts[1]) and a_[1] in ('int', 'item') and c_[1] == 'int':
                            return f'(Py4.vec2 (fun l => params {self.as_int(a_)} l {c_[0]}))', VEC
                        b_ = self.tr(sl.elts[1])
                        if a_[1] in ('int', 'item') and b_[1] == 'int' and c_[1] == 'int':
                            return f'(params {self.as_int(a_)} {b_[0]} {c_[0]})', 'num'
                    if not isinstance(sl, (ast.Tuple, ast.Slice)):
                        a_ = self.tr(sl)
                        if a_[1] in ('int', 'item'):
                            return f'(Py4.vec2 (fun l => Py4.vec2 (fun k => params {self.as_int(a_)} l k)))', ('list', VEC)
                base = None
                if isinstance(e.value, ast.Name) and e.value.id in self.env:
                    base = self.env[e.value.id]
                if base is not None and base[1] == ('list', VEC) and not isinstance(sl, (ast.Tuple, ast.Slice)):
                    k = self.tr(sl)
                    if k[1] in ('int', 'item'):                  # messages[j]: the row's two entries of variable j
                        return f'(Py4.getI {base[0]} {self.as_int(k)} [])', VEC
                if base is not None and base[1] == VEC:
                    if isinstance(sl, ast.Tuple) and len(sl.elts) == 3 and full(sl.elts[1]):
                        m_, o_ = self.tr(sl.elts[0]), self.tr(sl.elts[2])
                        if m_[1] == 'bool' and o_[1] == 'int':       # msg[mask, :, o]: the entry o, broadcast over the parent values
                            return f'(Py4.getI {base[0]} {o_[0]} 0)', 'num'
                    if isinstance(sl, ast.Tuple) and len(sl.elts) == 2:
                        m_, o_ = self.tr(sl.elts[0]), self.tr(sl.elts[1])
                        if m_[1] == 'bool' and o_[1] == 'int':
                            return f'(Py4.getI {base[0]} {o_[0]} 0)', 'num'
                    if not isinstance(sl, (ast.Tuple, ast.Slice)):
                        m_ = self.tr(sl)
                        if m_[1] == 'bool':
                            return base
            if isinstance(e, ast.BinOp) and isinstance(e.op, ast.Add):
                a_, b_ = self.tr(e.left), self.tr(e.right)
                if a_[1] == VEC and b_[1] == 'num':
                    return f'({a_[0]}.map (fun a => a + {b_[0]}))', VEC
                if a_[1] == 'num' and b_[1] == 'num':
                    return f'({a_[0]} + {b_[0]})', 'num'
                if a_[1] == ('list', VEC) and b_[1] == VEC:
                    return f'({a_[0]}.map (fun row => List.zipWith (fun a b => a + b) row {b_[0]}))', ('list', VEC)
            if isinstance(e, ast.Call):
                nm = T.dotted_name(e.func) or ''
                kw = {k.arg: txt(k.value) for k in e.keywords}
                if nm in ('logsumexp', 'np.max') and len(e.args) == 1:
                    f = 'logsumexp' if nm == 'logsumexp' else 'npMax'
                    v = self.tr(e.args[0])
                    if v[1] == ('list', VEC) and kw == {'axis': '2'}:
                        return f'({v[0]}.map {f})', VEC
                    if v[1] == VEC and kw == {'axis': '1'}:
                        return f'({f} {v[0]})', 'num'
                if nm == 'reversed' and len(e.args) == 1 and not kw:
                    v = self.tr(e.args[0])
                    if isinstance(v[1], tuple) and v[1][0] == 'list':
                        return f'({v[0]}.reverse)', v[1]
                if nm == 'np.zeros' and set(kw) == {'shape', 'dtype'}:
                    sh = T.the([k.value for k in e.keywords if k.arg == 'shape'], 'shape')
                    if isinstance(sh, ast.Tuple) and len(sh.elts) == 3 and txt(sh.elts[2]) == '2':
                        a_, b_ = self.tr(sh.elts[0]), self.tr(sh.elts[1])
                        if a_[1] == 'int' and b_[1] == 'nrows':
                            return f'(List.replicate ({a_[0]}).toNat [(0 : α), 0])', ('list', VEC)
            return TrC2.tr(self, e)

    def flatten_any(stmts, what):
        """`if np.any(<row mask>): <statements that only store under that mask>` -> the statements themselves (row-wise the guard
        only skips stores that would not touch the row)"""
        out_ = []
        for st in stmts:
            if isinstance(st, ast.If) and not st.orelse and isinstance(st.test, ast.Call) and (T.dotted_name(st.test.func) or '') == 'np.any' \
                    and len(st.test.args) == 1 and isinstance(st.test.args[0], ast.Name) and not st.test.keywords:
                m = st.test.args[0].id
                for sub in ast.walk(st):
                    if isinstance(sub, (ast.Assign, ast.AugAssign)):
                        tg = sub.targets[0] if isinstance(sub, ast.Assign) else sub.target
                        if isinstance(tg, ast.Subscript):
                            idx = tg.slice.elts[-1] if isinstance(tg.slice, ast.Tuple) else tg.slice
                            if txt(idx) != m:
                                raise U(f'{what}: a store under `if np.any({m})` is not masked by {m}: ' + ast.unparse(sub))
                out_.extend(flatten_any(st.body, what))
            elif isinstance(st, ast.For):
                out_.append(ast.copy_location(ast.For(target=st.target, iter=st.iter, body=flatten_any(st.body, what), orelse=st.orelse), st))
            else:
                out_.append(st)
        return out_

    def clt_messages():
        q = 'BinaryCLT.message_passing'
        fn = T.find_func(cltree, q)
        a = args_of(fn, ('self', 'x', 'obs_mask', 'return_lls', 'reduce'), q)
        S, X, OM, RL_, RD = a
        stmts = nodoc(fn.body)
        split = [k for k, st in enumerate(stmts) if isinstance(st, ast.If) and txt(st.test) == f'not{RL_}']
        k = T.the(split, f'{q}: `if not return_lls`')
        if txt(stmts[k].body[0]) != 'returnmessages' and not (len(stmts[k].body) == 1 and isinstance(stmts[k].body[0], ast.Return)):
            raise U(f'{q}: `if not return_lls` does not return the messages')
        mname = txt(stmts[k].body[0].value)
        def hook(tr, st):
            if isinstance(st, ast.Assign) and len(st.targets) == 1:
                tg, v = st.targets[0], st.value
                if isinstance(tg, ast.Tuple) and txt(v) == f'{X}.shape' and len(tg.elts) == 2:
                    ns, nf = [t_.id for t_ in tg.elts]
                    return [(T.lid(nf), nf, f'((x.length : Nat) : Int)', 'int'), (T.lid(ns), ns, 'nRows', 'nrows')]
                if isinstance(tg, ast.Name) and txt(v).startswith('np.empty(') and tr.tr(v.args[0])[1] == 'nrows':
                    return [(T.lid(tg.id), tg.id, 'none', ('opt', 'num'))]
                if isinstance(tg, ast.Subscript) and isinstance(tg.value, ast.Name) and isinstance(tg.slice, ast.Name):
                    old, m = tr.tr(tg.value), tr.tr(tg.slice)
                    if old[1] == ('opt', 'num') and m[1] == 'bool':
                        val = tr.tr(v)
                        if val[1] != 'num':
                            raise U(f'{q}: `{ast.unparse(st)}` does not store one number per row')
                        return [(T.lid(tg.value.id), tg.value.id, f'if {m[0]} then some {val[0]} else {old[0]}', ('opt', 'num'))]
            if isinstance(st, ast.AugAssign) and isinstance(st.op, ast.Add) and isinstance(st.target, ast.Subscript) \
                    and isinstance(st.target.value, ast.Name) and isinstance(st.target.slice, ast.Tuple) and len(st.target.slice.elts) == 2:
                old = tr.tr(st.target.value)
                i_, m = tr.tr(st.target.slice.elts[0]), tr.tr(st.target.slice.elts[1])
                val = tr.tr(st.value)
                if old[1] == ('list', VEC) and i_[1] == 'int' and m[1] == 'bool' and val[1] == VEC:
                    nm_ = st.target.value.id
                    return [(T.lid(nm_), nm_, f'if {m[0]} then Py4.updI {old[0]} {i_[0]} (List.zipWith (fun a b => a + b) (Py4.getI {old[0]} {i_[0]} []) {val[0]}) else {old[0]}',
                             ('list', VEC))]
                raise U(f'{q}: update not understood: ' + ast.unparse(st))
            # if reduce == 'mar': messages[…] += logsumexp(…) elif reduce == 'mpe': messages[…] += np.max(…) else: raise
            if isinstance(st, ast.If) and isinstance(st.test, ast.Compare) and txt(st.test.left) == RD:
                arms, last = T.elif_chain(st)
                if not (len(last) == 1 and isinstance(last[0], ast.Raise)):
                    raise U(f'{q}: the chain on `reduce` does not end with a raise')
                res = None
                for test, body in reversed(arms):
                    c = tr.as_bool(tr.tr(test))
                    b = hook(tr, T.the(body, 'statement of a reduce arm'))
                    if b is None:
                        raise U(f'{q}: a reduce arm is not an update of the messages')
                    nm_, key, term, ty = T.the(b, 'binding')
                    res = (nm_, key, f'if {c} then ({term}) else ({res[2] if res else "raised"})', ty)
                return [res]
            return None
        def mk_tr():
            tr = TrC3(env={X: ('x', ('list', 'optval')), OM: ('obs_mask', ('list', 'bool')), RD: ('reduce', 'str')},
                      syms={f'{S}.tree': ('tree', ('list', 'int')), f'{S}.bfs': ('bfs', ('list', 'int')), f'{S}.root': ('root', 'int')})
            tr.selfname = S
            tr.hooks = (np_hook(S),)
            return tr
        ex = T.Exec4(q, stmt_hook=hook)
        up_text, tys = ex.run(mk_tr(), flatten_any(stmts[:k], q), [mname])
        if tys != [('list', VEC)]:
            raise U(f'{q}: the loop does not leave a table of messages')
        tr2 = mk_tr()
        tr2.env[mname] = ('messages', ('list', VEC))
        pre = [st for st in stmts[:k] if isinstance(st, ast.Assign) and isinstance(st.targets[0], ast.Tuple)]
        root_text, tys2 = T.Exec4(q, stmt_hook=hook).run(tr2, flatten_any(pre + stmts[k + 1:], q), T.RETURNED)
        if tys2 != [('opt', 'num')]:
            raise U(f'{q}: does not return one number per row')
        sig = ('{α : Type} [Zero α] [Add α] (params : Int → Int → Int → α) (root : Int) (bfs tree : List Int) (logsumexp npMax : List α → α)')
        return ('/-- `BinaryCLT.message_passing` on ONE row, the upward pass: `messages[i]` = the two entries `messages[i, row, :]`; logsumexp / npMax = the '
                'reductions along the value axis; `raised` = the value of the branch that raises (`reduce` is neither \'mar\' nor \'mpe\') -/\n'
                f'def S4cltMessages {sig} (raised : List (List α)) (nRows : Nat)\n'
                '    (x : List (Option Nat)) (obs_mask : List Bool) (reduce : String) : List (List α) :=\n'
                f'  {up_text}\n'
                '/-- … and the value returned with `return_lls=True` from the final messages (`none` = the entry of `np.empty` is never written) -/\n'
                f'def S4cltRootValue {sig} (nRows : Nat)\n'
                '    (x : List (Option Nat)) (obs_mask : List Bool) (messages : List (List α)) : Option α :=\n'
                f'  {root_text}')
    const4('cltree.message_passing.body', clt_messages)



# =========================================================================================================
# Fifth wave (Oblig/Struct5*.lean): explicit-stack post-order loops (`BinaryCLT.to_pc`, `BinaryCLT.get_scopes`), rendered by the
# list-program translator tools/listprog.py as ONE Lean function per loop: state before an iteration -> state after it.
# =========================================================================================================
def emit_struct5(o, repo, T):
    import listprog
    U = T.Untranslatable
    o.consts.append(listprog.PY5_PRELUDE)
    cltree = T.parse_file(repo, 'deeprob/spn/structure/cltree.py')
    TREE = {'get_id': 'getId', 'is_leaf': 'isLeaf', 'get_children': 'getChildren'}
    NSIG = '(getId : N → Nat) (isLeaf : N → Bool) (getChildren : N → List N) (isIn : Option N → List N → Bool)'

    def nodoc(stmts):
        return [s for s in stmts if not (isinstance(s, ast.Expr) and isinstance(s.value, ast.Constant))]

    def txt(e):
        return ast.unparse(e).replace(' ', '')

    import re

    def roles(q, fn, loop):
        """names of the loop's variables by ROLE (so that renaming a local variable changes nothing): the stack is the loop
        condition, `last` the variable initialised with None, the buffers the variables initialised with [] (source order)"""
        stmts = nodoc(fn.body)
        k = stmts.index(loop)
        if not isinstance(loop.test, ast.Name):
            raise U(f'{q}: the loop condition is not a variable')
        stack, last, empties, root, table = loop.test.id, [], [], [], []
        for st in stmts[:k]:
            if not (isinstance(st, ast.Assign) and len(st.targets) == 1):
                raise U(f'{q}: statement before the loop is not an assignment: {txt(st)}')
            t, v = st.targets[0], st.value
            pairs = list(zip(t.elts, v.elts)) if isinstance(t, ast.Tuple) and isinstance(v, ast.Tuple) and len(t.elts) == len(v.elts) else [(t, v)]
            for a, b in pairs:
                if not isinstance(a, ast.Name):
                    raise U(f'{q}: assignment target before the loop: {txt(st)}')
                if isinstance(b, ast.Constant) and b.value is None:
                    last.append(a.id)
                elif isinstance(b, ast.List) and not b.elts:
                    empties.append(a.id)
                elif isinstance(b, ast.Call) and T.dotted_name(b.func) == 'build_tree_structure':
                    root.append(a.id)
                elif isinstance(b, ast.DictComp):
                    table.append(a.id)
                elif a.id == stack:
                    pass
                else:
                    raise U(f'{q}: unexpected statement before the loop: {txt(st)}')
        if len(last) != 1 or len(root) != 1:
            raise U(f'{q}: expected one variable initialised with None and one tree root, found {last}, {root}')
        return stack, last[0], empties, root[0], table, stmts[:k], stmts[k + 1:]

    def canon(names):
        """rename the source's variables to the canonical ones in a statement's text"""
        def f(node):
            t = ast.unparse(node)
            for a, b in names.items():
                t = re.sub(rf'\b{re.escape(a)}\b', b, t)
            return t.replace(' ', '')
        return f

    def check_texts(q, what, got, want):
        if sorted(got) != sorted(w.replace(' ', '') for w in want):
            raise U(f'{q}: {what}: {sorted(got)}, expected {sorted(want)}')

    def to_pc_loop():
        q = 'BinaryCLT.to_pc'
        fn = T.find_func(cltree, q)
        loop = T.the([s for s in nodoc(fn.body) if isinstance(s, ast.While)], f'{q}: while loop')
        stack, last, empties, root, table, before, after = roles(q, fn, loop)
        if len(empties) != 2 or len(table) != 1:
            raise U(f'{q}: expected two buffers and one factors dictionary before the loop, found {empties}, {table}')
        # the returned buffer: `<pc> = <buffer>[0]; return assign_ids(<pc>)` or `return assign_ids(<buffer>[0])`
        ret = T.the(T.returns(fn), f'{q}: return')
        if not (isinstance(ret, ast.Call) and T.dotted_name(ret.func) == 'assign_ids' and len(ret.args) == 1 and not ret.keywords):
            raise U(f'{q}: does not return assign_ids(<node>)')
        v = ret.args[0]
        if isinstance(v, ast.Name):
            v = T.the(T.assignments(fn, v.id), f'{q}: {v.id}')
        if not (isinstance(v, ast.Subscript) and isinstance(v.value, ast.Name) and v.value.id in empties and txt(v.slice) == '0'):
            raise U(f'{q}: the returned node is not <buffer>[0]')
        pos = v.value.id
        neg = T.the([e for e in empties if e != pos], f'{q}: the other buffer')
        names = {stack: 'nodes_stack', last: 'last_node_visited', neg: 'neg_buffer', pos: 'pos_buffer', root: 'root', table[0]: 'factors'}
        c = canon(names)
        check_texts(q, 'the statements before the loop', [c(s) for s in before], [
            'root = build_tree_structure(self.tree, scope=self.scope)',
            'factors = {self.scope[i]: np.exp(self.params[i]) for i in range(len(self.tree))}',
            'neg_buffer, pos_buffer = ([], [])', 'nodes_stack = [root]', 'last_node_visited = None'] if len(before) == 5 else [
            'root = build_tree_structure(self.tree, scope=self.scope)',
            'factors = {self.scope[i]: np.exp(self.params[i]) for i in range(len(self.tree))}',
            'neg_buffer = []', 'pos_buffer = []', 'nodes_stack = [root]', 'last_node_visited = None'])
        lp = listprog.LP(T, q, [(stack, 'nodes_stack'), (last, 'last_node_visited'), (neg, 'neg_buffer'), (pos, 'pos_buffer')],
                         methods=TREE,
                         ctors={'Bernoulli': ('mkBernoulli', ['scope'], ['p']), 'Product': ('mkProduct', [], ['children']),
                                'Sum': ('mkSum', [], ['children', 'weights'])},
                         tables={table[0]: 'factors'})
        body = lp.loop_step(loop, 'node')
        return ('/-- `BinaryCLT.to_pc`: one iteration of `while nodes_stack:` as a function of the loop state (`nodes_stack`, '
                '`last_node_visited`, `neg_buffer`, `pos_buffer`), started from `([root], None, [], [])` with `root = '
                'build_tree_structure(self.tree, scope=self.scope)`; `factors k j` = `factors[k][j]` with `factors = {self.scope[i]: '
                'np.exp(self.params[i])}`; `mkBernoulli v p` = `Bernoulli(v, p=p)`, `mkProduct cs` = `Product(children=cs)`, `mkSum cs w` = '
                '`Sum(children=cs, weights=w)`; `isIn` = identity membership; after the loop `assign_ids(pos_buffer[0])` is returned '
                '(variables named by their role: `pos_buffer` is the buffer whose first entry is returned) -/\n'
                f'def S5toPcStep {{N C W : Type}} {NSIG}\n'
                '    (mkBernoulli : Nat → Nat → C) (mkProduct : List C → C) (mkSum : List C → W → C) (factors : Nat → Nat → W)\n'
                '    (nodes_stack : List N) (last_node_visited : Option N) (neg_buffer pos_buffer : List C) :\n'
                '    List N × Option N × List C × List C :=\n'
                f'  {body}')
    o.const('cltree.to_pc.loop', to_pc_loop)

    def get_scopes_loop():
        q = 'BinaryCLT.get_scopes'
        fn = T.find_func(cltree, q)
        loop = T.the([s for s in nodoc(fn.body) if isinstance(s, ast.While)], f'{q}: while loop')
        stack, last, empties, root, table, before, after = roles(q, fn, loop)
        if len(empties) != 2 or table:
            raise U(f'{q}: expected two lists before the loop, found {empties}, {table}')
        ret = T.the(T.returns(fn), f'{q}: return')
        if not (isinstance(ret, ast.Name) and ret.id in empties):
            raise U(f'{q}: does not return one of its lists')
        log = ret.id
        stk = T.the([e for e in empties if e != log], f'{q}: the scopes stack')
        names = {stack: 'nodes_stack', last: 'last_node_visited', stk: 'scopes_stack', log: 'scopes', root: 'root'}
        c = canon(names)
        check_texts(q, 'the statements before the loop', [c(s) for s in before], [
            'scopes = []', 'scopes_stack = []', 'root = build_tree_structure(self.tree, scope=self.scope)',
            'nodes_stack = [root]', 'last_node_visited = None'])
        if [c(s) for s in after] != ['returnscopes']:
            raise U(f'{q}: after the loop: {[c(s) for s in after]}, expected `return scopes`')
        lp = listprog.LP(T, q, [(stack, 'nodes_stack'), (last, 'last_node_visited'), (stk, 'scopes_stack'), (log, 'scopes')],
                         methods=TREE, ctors={}, tables={})
        body = lp.loop_step(loop, 'node')
        return ('/-- `BinaryCLT.get_scopes`: one iteration of `while nodes_stack:` as a function of the loop state (`nodes_stack`, '
                '`last_node_visited`, `scopes_stack`, `scopes`), started from `([root], None, [], [])`; `scopes` is returned -/\n'
                f'def S5getScopesStep {{N : Type}} {NSIG}\n'
                '    (nodes_stack : List N) (last_node_visited : Option N) (scopes_stack scopes : List (List Nat)) :\n'
                '    List N × Option N × List (List Nat) × List (List Nat) :=\n'
                f'  {body}')
    o.const('cltree.get_scopes.loop', get_scopes_loop)

    # ---- `build_xpc` (deeprob/spn/learning/xpc.py): the same post-order walk over the partition tree; children pushed REVERSED ----
    def build_xpc_loop():
        q = 'build_xpc'
        xpc = T.parse_file(repo, 'deeprob/spn/learning/xpc.py')
        fn = T.find_func(xpc, q)
        stmts = nodoc(fn.body)
        loop = T.the([s for s in stmts if isinstance(s, ast.While)], f'{q}: while loop')
        k = stmts.index(loop)
        before, after = stmts[:k], stmts[k + 1:]
        # the parameters by POSITION (renaming one consistently changes nothing); none of them is assigned anywhere in the function
        params = [a.arg for a in fn.args.args]
        if len(params) != 6 or fn.args.vararg or fn.args.kwarg or fn.args.kwonlyargs or fn.args.posonlyargs:
            raise U(f'{q}: expected six plain parameters (data, part_root, trees_dict, det, use_clt, alpha), found {params}')
        p_data, p_root, p_trees, p_det, p_clt, p_alpha = params
        for n in ast.walk(fn):
            if isinstance(n, ast.Name) and isinstance(n.ctx, (ast.Store, ast.Del)) and n.id in params:
                raise U(f'{q}: the parameter {n.id} is assigned inside the function')
        # `build_leaf` is opaque; its declared parameter order ties the call's argument positions to their meaning
        bl = T.find_func(xpc, 'build_leaf')
        if [a.arg for a in bl.args.args] != ['data', 'part', 'use_clt', 'trees_dict', 'det', 'alpha']:
            raise U(f'build_leaf: parameters {[a.arg for a in bl.args.args]}')
        # the names used in the loop are the node classes / `assign_ids` of structure/node.py and are not rebound
        imported = {a.asname or a.name for s in xpc.body if isinstance(s, ast.ImportFrom) and s.module == 'deeprob.spn.structure.node'
                    for a in s.names}
        if not {'Sum', 'Product', 'assign_ids'} <= imported:
            raise U(f'{q}: Sum / Product / assign_ids are not imported from deeprob.spn.structure.node')
        for n in ast.walk(fn):
            if isinstance(n, ast.Name) and isinstance(n.ctx, ast.Store) and n.id in ('Sum', 'Product', 'assign_ids', 'build_leaf', 'len', 'isinstance'):
                raise U(f'{q}: {n.id} is rebound inside the function')
        # `Partition`: membership in `sub_partitions` is OBJECT IDENTITY (no __eq__), and the two tests are what the model reads them as
        parting = T.parse_file(repo, 'deeprob/spn/utils/partitioning.py')
        pcls = T.the([s for s in parting.body if isinstance(s, ast.ClassDef) and s.name == 'Partition'], 'class Partition')
        if pcls.bases or any(isinstance(s, ast.FunctionDef) and s.name in ('__eq__', '__ne__', '__hash__', '__getattr__', '__getattribute__')
                             for s in pcls.body):
            raise U('Partition: has base classes or defines __eq__ / __hash__ / __getattr__: `in sub_partitions` is no longer an identity test')
        for s in pcls.body:
            if isinstance(s, ast.FunctionDef) and any(isinstance(d, ast.Name) and d.id == 'property' for d in s.decorator_list):
                raise U(f'Partition.{s.name}: a property (attribute reads are read as plain fields)')
        check_texts('Partition.is_partitioned', 'body', [txt(s) for s in nodoc(T.find_func(parting, 'Partition.is_partitioned').body)],
                    ['return len(self.sub_partitions) != 0'])
        check_texts('Partition.is_horizontally_partitioned', 'body',
                    [txt(s) for s in nodoc(T.find_func(parting, 'Partition.is_horizontally_partitioned').body)],
                    ['ret = False', ast.unparse(ast.parse('if self.is_partitioned():\n    ret = len(self.row_ids) > len(self.sub_partitions[0].row_ids)')),
                     'return ret'])
        # roles: the stack is the loop condition, `last` the variable initialised with None, the buffer the one initialised with []
        if not isinstance(loop.test, ast.Name):
            raise U(f'{q}: the loop condition is not a variable')
        stack, last, bufs, roots = loop.test.id, [], [], []
        for st in before:
            if not (isinstance(st, ast.Assign) and len(st.targets) == 1 and isinstance(st.targets[0], ast.Name)):
                raise U(f'{q}: statement before the loop is not a plain assignment: {txt(st)}')
            a, b = st.targets[0].id, st.value
            if isinstance(b, ast.Constant) and b.value is None:
                last.append(a)
            elif isinstance(b, ast.List) and not b.elts:
                bufs.append(a)
            elif a == stack and isinstance(b, ast.List) and len(b.elts) == 1 and isinstance(b.elts[0], ast.Name):
                roots.append(b.elts[0].id)
            else:
                raise U(f'{q}: unexpected statement before the loop: {txt(st)}')
        if len(last) != 1 or len(bufs) != 1 or roots != [p_root]:
            raise U(f'{q}: expected `<stack> = [<2nd parameter>]`, one variable initialised with None and one with [], found {roots}, {last}, {bufs}')
        last, buf = last[0], bufs[0]
        # epilogue: `<x> = <buffer>[0]; assign_ids(<x>); return <x>`
        if not (len(after) == 3 and isinstance(after[0], ast.Assign) and len(after[0].targets) == 1 and isinstance(after[0].targets[0], ast.Name)):
            raise U(f'{q}: after the loop: {[txt(s) for s in after]}')
        res = after[0].targets[0].id
        names = {stack: 'partitions_stack', last: 'last_part_visited', buf: 'pc_nodes_stack', p_root: 'part_root', res: 'xpc'}
        if len(names) != 5:
            raise U(f'{q}: the roles of the variables overlap: {names}')
        c = canon(names)
        check_texts(q, 'the statements before the loop', [c(s) for s in before],
                    ['partitions_stack = [part_root]', 'pc_nodes_stack = []', 'last_part_visited = None'])
        if [c(s) for s in after] != ['xpc=pc_nodes_stack[0]', 'assign_ids(xpc)', 'returnxpc']:
            raise U(f'{q}: after the loop: {[c(s) for s in after]}, expected `xpc = pc_nodes_stack[0]; assign_ids(xpc); return xpc`')
        lp = listprog.LP(T, q, [(stack, 'partitions_stack'), (last, 'last_part_visited'), (buf, 'pc_nodes_stack')],
                         methods={'is_partitioned': 'isPartitioned', 'is_horizontally_partitioned': 'isHorizontallyPartitioned'},
                         ctors={'Sum': ('mkSum', [], ['weights', 'children']), 'Product': ('mkProduct', [], ['children'])},
                         tables={},
                         attrs={'sub_partitions': 'subPartitions', 'row_ids': 'rowIds', 'children': 'children'},
                         classes={'Product': 'isProduct', 'Sum': 'isSum'},
                         opaque={'build_leaf': ('buildLeaf', [p_data, None, p_clt, p_trees, p_det, p_alpha])},
                         div='div')
        body = lp.loop_step(loop, 'part')
        return ('/-- `build_xpc` (learning/xpc.py): one iteration of `while partitions_stack:` as a function of the loop state '
                '(`partitions_stack`, `last_part_visited`, `pc_nodes_stack`), started from `([part_root], None, [])`; after the loop '
                '`xpc = pc_nodes_stack[0]; assign_ids(xpc); return xpc`.  `isPartitioned` / `isHorizontallyPartitioned` = the methods of '
                '`Partition` (bodies checked: `len(self.sub_partitions) != 0`, `len(self.row_ids) > len(self.sub_partitions[0].row_ids)` when '
                'partitioned), `subPartitions` / `rowIds` / `children` = attribute reads, `isIn` = identity membership (`Partition` defines no '
                '`__eq__`: checked), `isProduct c` / `isSum c` = `isinstance(c, Product)` / `isinstance(c, Sum)`, `div a b` = `a / b` on two '
                'lengths (uninterpreted), `mkSum w cs` = `Sum(weights=w, children=cs)`, `mkProduct cs` = `Product(children=cs)`, `buildLeaf p` = '
                '`build_leaf(data, p, use_clt, trees_dict, det, alpha)` with the function\'s own parameters in the declared positions (opaque). '
                'Bound variables of comprehensions / `for` loops are named `x<depth>`. -/\n'
                'def S5buildXpcStep {P C W : Type} (isPartitioned isHorizontallyPartitioned : P → Bool) (subPartitions : P → List P)\n'
                '    (rowIds : P → List Nat) (isIn : Option P → List P → Bool) (children : C → List C) (isProduct isSum : C → Bool)\n'
                '    (div : Nat → Nat → W) (mkSum : List W → List C → C) (mkProduct : List C → C) (buildLeaf : P → C)\n'
                '    (partitions_stack : List P) (last_part_visited : Option P) (pc_nodes_stack : List C) :\n'
                '    List P × Option P × List C :=\n'
                f'  {body}')
    o.const('xpc.build_xpc.loop', build_xpc_loop)

    # ---- `topological_order` / `topological_order_layered` (deeprob/spn/structure/node.py): Kahn's algorithm --------------------
    # Roles (renaming a local changes nothing): root = the only parameter, the counters = the variable created by
    # `defaultdict(int)`, the result = the variable returned at the end, the queue = the loop condition (plain variant), the
    # current layer = the list created inside the loop (layered variant); loop variables get canonical names x1, x2.
    def kahn_fragment(q, layered):
        nodepy = T.parse_file(repo, 'deeprob/spn/structure/node.py')
        fn = T.find_func(nodepy, q)
        stmts = nodoc(fn.body)
        params = [a.arg for a in fn.args.args]
        if len(params) != 1 or fn.args.vararg or fn.args.kwarg or fn.args.kwonlyargs or fn.args.posonlyargs or fn.args.defaults:
            raise U(f'{q}: expected the single parameter root, found {params}')
        root = params[0]
        # module-level names the function relies on: `deque`, `defaultdict` from collections; `bfs` the function of this module
        coll = {a.asname or a.name for st in nodepy.body if isinstance(st, ast.ImportFrom) and st.module == 'collections' for a in st.names}
        if not {'deque', 'defaultdict'} <= coll:
            raise U(f'{q}: deque / defaultdict are not imported from collections')
        T.find_func(nodepy, 'bfs')
        top_defs = [st.name for st in nodepy.body if isinstance(st, (ast.FunctionDef, ast.ClassDef))]
        for nm in ('bfs', 'deque', 'defaultdict', 'list', 'sum', 'int'):
            if top_defs.count(nm) != (1 if nm == 'bfs' else 0):
                raise U(f'{q}: {nm} is (re)defined at module level')
            for st in nodepy.body:
                if isinstance(st, (ast.Assign, ast.AnnAssign, ast.AugAssign)) and any(isinstance(n, ast.Name) and n.id == nm for n in ast.walk(st)
                                                                                    if isinstance(getattr(n, 'ctx', None), ast.Store)):
                    raise U(f'{q}: {nm} is assigned at module level')
        for n in ast.walk(fn):
            if isinstance(n, ast.Name) and isinstance(n.ctx, (ast.Store, ast.Del)) and n.id in (root, 'bfs', 'deque', 'defaultdict', 'list', 'sum', 'int'):
                raise U(f'{q}: {n.id} is assigned inside the function')
            if isinstance(n, (ast.Global, ast.Nonlocal, ast.Lambda, ast.FunctionDef, ast.ClassDef)) and n is not fn:
                raise U(f'{q}: nested scope / global statement')
        # node objects are dictionary keys BY IDENTITY, `children` is a plain attribute
        for cname in ('Node', 'Sum', 'Product'):
            cls = T.the([st for st in nodepy.body if isinstance(st, ast.ClassDef) and st.name == cname], f'class {cname}')
            for st in cls.body:
                if isinstance(st, ast.FunctionDef) and (st.name in ('__eq__', '__ne__', '__hash__', '__getattr__', '__getattribute__')
                                                        or (st.name == 'children' or any(isinstance(d, ast.Name) and d.id == 'property' and st.name == 'children'
                                                                                         for d in st.decorator_list))):
                    raise U(f'{cname}.{st.name}: node identity / the attribute `children` is no longer what the model reads')
        loop = T.the([st for st in stmts if isinstance(st, ast.While)], f'{q}: while loop')
        k = stmts.index(loop)
        before, after = stmts[:k], stmts[k + 1:]
        # roles
        cnts = [st.targets[0].id for st in before if isinstance(st, ast.Assign) and len(st.targets) == 1 and isinstance(st.targets[0], ast.Name)
                and isinstance(st.value, ast.Call) and T.dotted_name(st.value.func) == 'defaultdict']
        cnt = T.the(cnts, f'{q}: the dictionary created by defaultdict')
        if not (len(after) == 2 and isinstance(after[1], ast.Return) and isinstance(after[1].value, ast.Name)):
            raise U(f'{q}: after the loop: {[txt(st) for st in after]}, expected the cycle test and `return <ordering>`')
        res = after[1].value.id
        if layered:
            if not (isinstance(loop.test, ast.Constant) and loop.test.value is True):
                raise U(f'{q}: the loop is not `while True:`')
            lay = [st.targets[0].id for st in nodoc(loop.body) if isinstance(st, ast.Assign) and len(st.targets) == 1
                   and isinstance(st.targets[0], ast.Name) and isinstance(st.value, (ast.Call, ast.List))]
            layer = T.the(lay, f'{q}: the list created inside the loop')
            queue = None
            roles = {root, cnt, res, layer}
        else:
            if not isinstance(loop.test, ast.Name):
                raise U(f'{q}: the loop condition is not a variable')
            queue, layer = loop.test.id, None
            roles = {root, cnt, res, queue}
        if len(roles) != 4:
            raise U(f'{q}: the roles of the variables overlap: {sorted(roles)}')
        CNT = {cnt: ('getCount', 'setCount', 'emptyCount', 'sumValues')}
        common = dict(methods={}, ctors={}, tables={}, attrs={'children': 'children'}, opaque={'bfs': ('bfs', [None])}, counters=CNT)
        # ---- prologue: counters, the root test, the initial queue / first layer
        state0 = [(cnt, 'num_outgoings'), (res, 'ordering')] + ([] if layered else [(queue, 'queue')])
        lp0 = listprog.LP(T, q, state0, types={cnt: 'D'}, **common)
        env, guard, cnt_at_guard = {root: ('t', 'root')}, None, None
        for st in before:
            if isinstance(st, ast.If):
                if guard is not None or st.orelse or not (len(st.body) == 1 and isinstance(st.body[0], ast.Return)
                                                           and isinstance(st.body[0].value, ast.Constant) and st.body[0].value.value is None):
                    raise U(f'{q}: unexpected `if` before the loop: {txt(st)}')
                if cnt not in env:
                    raise U(f'{q}: the root test precedes the counters')
                cnt_at_guard = lp0.term(env[cnt])
                guard = lp0.term(lp0.ex(st.test, {root: ('t', 'root'), cnt: ('t', 'num_outgoings')}))
            else:
                env = lp0.stmt(st, env)
        if guard is None:
            raise U(f'{q}: no `if <counter of the root> != 0: return None` before the loop')
        for v in (cnt, res) + (() if layered else (queue,)):
            if v not in env:
                raise U(f'{q}: {v} is not initialised before the loop')
        init = lp0.term(env[cnt])
        if cnt_at_guard != init:
            raise U(f'{q}: the counters change between the root test and the loop')
        extra = sorted(set(env) - {root, cnt, res, queue})
        if extra:
            raise U(f'{q}: further variables before the loop: {extra}')
        want_res = '([] ++ [[root]])' if layered else '[]'
        if lp0.term(env[res]) != want_res:
            raise U(f'{q}: the result list starts as {lp0.term(env[res])}, expected {want_res}')
        if not layered and lp0.term(env[queue]) != '[root]':
            raise U(f'{q}: the queue starts as {lp0.term(env[queue])}, expected [root]')
        if not layered:
            qinit = T.the(T.assignments(fn, queue), f'{q}: {queue}')
            if not (isinstance(qinit, ast.Call) and T.dotted_name(qinit.func) == 'deque'):
                raise U(f'{q}: the queue is not a deque (popleft on a list does not exist)')
        # ---- epilogue: `if sum(<counters>.values()) != 0: return None`, `return <ordering>`
        ep = after[0]
        if not (isinstance(ep, ast.If) and not ep.orelse and len(ep.body) == 1 and isinstance(ep.body[0], ast.Return)
                and isinstance(ep.body[0].value, ast.Constant) and ep.body[0].value.value is None):
            raise U(f'{q}: after the loop: {txt(ep)}, expected `if <cycle test>: return None`')
        cyc = lp0.term(lp0.ex(ep.test, {cnt: ('t', 'num_outgoings')}))
        # ---- the loop
        pre = 'S5layered' if layered else 'S5topo'
        SIG = '{N D : Type} (children : N → List N) (getCount : D → N → Int) (setCount : D → N → Int → D)'
        doc_roles = ('`children n` = `n.children` (attribute read), the dictionary of counters (the variable created by `defaultdict(int)`, keys = '
                     'node objects by identity: `Node` / `Sum` / `Product` define no `__eq__` / `__hash__`, checked) is an abstract table `D` with '
                     '`getCount d k` = `d[k]` (0 for a missing key), `setCount d k v` = `d[k] = v`, `emptyCount` = `defaultdict(int)`, '
                     '`sumValues d` = `sum(d.values())`; loop variables are named `x<depth>`, fold states `st<depth>`')
        defs = [
            f'/-- `{q}` (structure/node.py), prologue: the counters after `num_outgoings = defaultdict(int); num_outgoings[root] = 0; for node in '
            f'bfs(root): for c in node.children: num_outgoings[c] += 1`; `bfs` = the function `bfs` of the module (opaque here). {doc_roles} -/\n'
            f'def {pre}Init {SIG} (emptyCount : D)\n    (bfs : N → List N) (root : N) : D :=\n  {init}',
            f'/-- `{q}`: the test after the counting loop under which `None` is returned (a trivial cycle through the root) -/\n'
            f'def {pre}RootGuard {{N D : Type}} (getCount : D → N → Int) (num_outgoings : D) (root : N) : Bool :=\n  {guard}']
        if layered:
            lp = listprog.LP(T, q, [(cnt, 'num_outgoings'), (res, 'ordering')], lists={layer}, last_of={res},
                             types={cnt: 'D', res: 'List (List N)', layer: 'List N'}, **common)
            body = lp.loop_step_forever(loop, 'raised')
            if lp.need_last != res:
                raise U(f'{q}: the loop does not read <ordering>[-1]')
            defs.append(
                f'/-- `{q}`: one iteration of `while True:` as a function of the loop state (`num_outgoings`, `ordering`), started from '
                '(the counters, `[[root]]`); the first component is the condition of `break` (`not layer`: the new layer is empty), the other two '
                'the state when the iteration ends (at the `break`, or after `ordering.append(layer)`); `last` = `ordering[-1]`, `raised` = the '
                'branch in which `ordering[-1]` raises IndexError (never taken: `ordering` starts non-empty and only grows) -/\n'
                f'def {pre}Step {SIG}\n    (raised : Bool × D × List (List N)) (num_outgoings : D) (ordering : List (List N)) : Bool × D × List (List N) :=\n'
                f'  {body}')
            rty = 'List (List N)'
        else:
            lp = listprog.LP(T, q, [(queue, 'queue'), (cnt, 'num_outgoings'), (res, 'ordering')],
                             types={cnt: 'D', res: 'List N', queue: 'List N'}, **common)
            body = lp.loop_step_queue(loop, 'node')
            defs.append(
                f'/-- `{q}`: one iteration of `while queue:` as a function of the loop state (`queue`, `num_outgoings`, `ordering`), started from '
                '(`deque([root])`, the counters, `[]`); the deque is a list whose FRONT is its head (`popleft` = head / tail, `append` = at the end) -/\n'
                f'def {pre}Step {SIG}\n    (queue : List N) (num_outgoings : D) (ordering : List N) : List N × D × List N :=\n'
                f'  {body}')
            rty = 'List N'
        defs.append(
            f'/-- `{q}`, epilogue: `None` when the cycle test holds on the final counters, the ordering otherwise -/\n'
            f'def {pre}Result {{N D : Type}} (sumValues : D → Int) (num_outgoings : D) (ordering : {rty}) : Option ({rty}) :=\n'
            f'  if {cyc} then none else some ordering')
        return defs
    o.const('node.topological_order.loop', lambda: kahn_fragment('topological_order', False))
    o.const('node.topological_order_layered.loop', lambda: kahn_fragment('topological_order_layered', True))

    # ---- the generators `bfs` / `dfs_post_order` (structure/node.py): what they yield, as a list ---------------------------------
    # Roles: root = the only parameter, the set = the variable bound to `{root}`, the queue / stack = the loop condition.
    def walk_fragment(q, dfs):
        nodepy = T.parse_file(repo, 'deeprob/spn/structure/node.py')
        fn = T.find_func(nodepy, q)
        stmts = nodoc(fn.body)
        params = [a.arg for a in fn.args.args]
        if len(params) != 1 or fn.args.vararg or fn.args.kwarg or fn.args.kwonlyargs or fn.args.posonlyargs or fn.args.defaults:
            raise U(f'{q}: expected the single parameter root, found {params}')
        root = params[0]
        coll = {a.asname or a.name for st in nodepy.body if isinstance(st, ast.ImportFrom) and st.module == 'collections' for a in st.names}
        if 'deque' not in coll:
            raise U(f'{q}: deque is not imported from collections')
        for st in nodepy.body:
            if isinstance(st, (ast.FunctionDef, ast.ClassDef)) and st.name in ('deque', 'set'):
                raise U(f'{q}: {st.name} is redefined at module level')
        for n in ast.walk(fn):
            if isinstance(n, ast.Name) and isinstance(n.ctx, (ast.Store, ast.Del)) and n.id in (root, 'deque', 'set'):
                raise U(f'{q}: {n.id} is assigned inside the function')
            if isinstance(n, (ast.Global, ast.Nonlocal, ast.Lambda, ast.FunctionDef, ast.ClassDef, ast.Return)) and n is not fn:
                raise U(f'{q}: nested scope / global / return statement')
        for cname in ('Node', 'Sum', 'Product'):
            cls = T.the([st for st in nodepy.body if isinstance(st, ast.ClassDef) and st.name == cname], f'class {cname}')
            for st in cls.body:
                if isinstance(st, ast.FunctionDef) and st.name in ('__eq__', '__ne__', '__hash__', '__getattr__', '__getattribute__', 'children'):
                    raise U(f'{cname}.{st.name}: node identity / the attribute `children` is no longer what the model reads')
        if len(stmts) != 2 or not isinstance(stmts[1], ast.While) or not isinstance(stmts[1].test, ast.Name):
            raise U(f'{q}: expected one initialisation and `while <queue>:`, found {[txt(st)[:40] for st in stmts]}')
        loop, work = stmts[1], stmts[1].test.id
        st0 = stmts[0]
        if not (isinstance(st0, ast.Assign) and len(st0.targets) == 1):
            raise U(f'{q}: the statement before the loop is not an assignment')
        t0, v0 = st0.targets[0], st0.value
        pairs = list(zip(t0.elts, v0.elts)) if isinstance(t0, ast.Tuple) and isinstance(v0, ast.Tuple) and len(t0.elts) == len(v0.elts) else [(t0, v0)]
        if len(pairs) != 2 or not all(isinstance(a, ast.Name) for a, _ in pairs):
            raise U(f'{q}: expected `<seen>, <{work}> = {{root}}, …`, found {txt(st0)}')
        seen = T.the([a.id for a, b in pairs if isinstance(b, ast.Set)], f'{q}: the set of seen nodes')
        if {a.id for a, _ in pairs} != {seen, work} or seen == work or root in (seen, work):
            raise U(f'{q}: the variables before the loop are not the set and the loop condition')
        Y = '$yielded'
        state = [(work, 'nodes_stack' if dfs else 'queue'), (seen, 'seen'), (Y, 'yielded')]
        lp = listprog.LP(T, q, state, methods={}, ctors={}, tables={}, attrs={'children': 'children'}, sets={seen}, yields=Y,
                         types={work: 'List N', seen: 'List N'})
        env = {root: ('t', 'root')}
        for a, b in pairs:
            env = lp.stmt(ast.Assign(targets=[a], value=b), env)
        if lp.term(env[seen]) != '[root]' or lp.term(env[work]) != '[root]':
            raise U(f'{q}: the set / the {"stack" if dfs else "queue"} do not start as {{root}} / [root]')
        wv = dict((a.id, b) for a, b in pairs)[work]
        if dfs != isinstance(wv, ast.List):
            raise U(f'{q}: the {"stack is not a list" if dfs else "queue is not a deque"}')
        doc = ('`children n` = `n.children` (attribute read); the set of seen nodes is a list (it is read through membership tests only), `isIn` = '
               'identity membership (`Node` / `Sum` / `Product` define no `__eq__` / `__hash__`, checked); `yielded` = everything the generator has '
               'produced so far, in order; loop variables are named `x<depth>`, fold states `st<depth>`')
        if dfs:
            body = lp.loop_step_stack(loop, 'node')
            return (f'/-- `{q}` (structure/node.py): one iteration of `while stack:` as a function of (`nodes_stack`, `seen`, `yielded`), started from '
                    f'(`[root]`, `{{root}}`, nothing yielded); the stack is a list whose TOP is its last entry. {doc} -/\n'
                    'def S5dfsStep {N : Type} (children : N → List N) (isIn : N → List N → Bool)\n'
                    '    (nodes_stack seen yielded : List N) : List N × List N × List N :=\n'
                    f'  {body}')
        body = lp.loop_step_queue(loop, 'node')
        return (f'/-- `{q}` (structure/node.py): one iteration of `while queue:` as a function of (`queue`, `seen`, `yielded`), started from '
                f'(`deque([root])`, `{{root}}`, nothing yielded); the deque is a list whose FRONT is its head. {doc} -/\n'
                'def S5bfsStep {N : Type} (children : N → List N) (isIn : N → List N → Bool)\n'
                '    (queue seen yielded : List N) : List N × List N × List N :=\n'
                f'  {body}')
    o.const('node.bfs.loop', lambda: walk_fragment('bfs', False))
    o.const('node.dfs_post_order.loop', lambda: walk_fragment('dfs_post_order', True))


# =========================================================================================================
# Fifth wave, (b) (Oblig/Struct5Grad.lean): the per-node rules of `eval_backward` (deeprob/spn/algorithms/gradient.py) over an
# ABSTRACT log-number carrier `L` (parameters `add`, `sub`, `log`, `logsumexp`, `lit`), so that the association of every
# expression is kept exactly as written (`(g + lls[node]) - lls[c]` is not `g + (lls[node] - lls[c])` in float32).
# Variables are identified by their ROLE (parameters by position, `grads` = the returned `np.empty` table, the cache = the
# `defaultdict(list)`, `nodes` = the result of `topological_order(root)`, loop variables by position), never by their name.
# =========================================================================================================
def emit_struct5grad(o, repo, T):
    U = T.Untranslatable

    def nodoc(stmts):
        return [s for s in stmts if not (isinstance(s, ast.Expr) and isinstance(s.value, ast.Constant))]

    def txt(e):
        return ast.unparse(e).replace(' ', '')

    def rules():
        q = 'eval_backward'
        grad = T.parse_file(repo, 'deeprob/spn/algorithms/gradient.py')
        fn = T.find_func(grad, q)
        # ---- what the global names used by the rules are bound to (module level), and that the function does not rebind them
        imported = {}
        for s in grad.body:
            if isinstance(s, ast.ImportFrom):
                for a in s.names:
                    imported[a.asname or a.name] = f'{s.module}.{a.name}'
            elif isinstance(s, ast.Import):
                for a in s.names:
                    imported[a.asname or a.name] = a.name
            elif isinstance(s, (ast.FunctionDef, ast.ClassDef)):
                imported[s.name] = f'<defined in gradient.py>.{s.name}' if s.name != q else q
            elif isinstance(s, (ast.Assign, ast.AugAssign, ast.AnnAssign)):
                for n in ast.walk(s):
                    if isinstance(n, ast.Name) and isinstance(n.ctx, ast.Store):
                        imported[n.id] = '<assigned at module level>'
        want = {'logsumexp': 'scipy.special.logsumexp', 'np': 'numpy', 'defaultdict': 'collections.defaultdict',
                'Sum': 'deeprob.spn.structure.node.Sum', 'Product': 'deeprob.spn.structure.node.Product',
                'topological_order': 'deeprob.spn.structure.node.topological_order', 'Leaf': 'deeprob.spn.structure.leaf.Leaf'}
        for k, v in want.items():
            if imported.get(k) != v:
                raise U(f'{q}: the name {k} is bound to {imported.get(k)}, expected {v}')
        GLOBALS = set(want) | {'isinstance', 'zip', 'list', 'len', 'check_spn'}
        params = [a.arg for a in fn.args.args]
        if len(params) != 2 or fn.args.vararg or fn.args.kwarg or fn.args.kwonlyargs or fn.args.posonlyargs:
            raise U(f'{q}: expected two plain parameters (root, lls), found {params}')
        p_root, p_lls = params
        for n in ast.walk(fn):
            if isinstance(n, ast.Name) and isinstance(n.ctx, (ast.Store, ast.Del)) and (n.id in params or n.id in GLOBALS):
                raise U(f'{q}: {n.id} is rebound inside the function')
            if isinstance(n, (ast.FunctionDef, ast.Lambda, ast.ClassDef)) and n is not fn:
                raise U(f'{q}: nested function / lambda / class')
        stmts = nodoc(fn.body)
        loop = T.the([s for s in stmts if isinstance(s, (ast.For, ast.While))], f'{q}: the loop over the nodes')
        if not isinstance(loop, ast.For) or loop.orelse:
            raise U(f'{q}: the loop over the nodes is not a plain `for`')
        k = stmts.index(loop)
        before, after = stmts[:k], stmts[k + 1:]

        # ---- prologue: roles
        nodes, grads, cache, dtype, root_init, checks = [], [], [], [], [], []
        for st in before:
            if isinstance(st, ast.Expr) and isinstance(st.value, ast.Call) and T.dotted_name(st.value.func) == 'check_spn':
                c = st.value
                if [txt(a) for a in c.args] != [p_root]:
                    raise U(f'{q}: check_spn is not called on the root')
                checks.append([(kw.arg, txt(kw.value)) for kw in c.keywords])
                continue
            if isinstance(st, ast.If) and not st.orelse and len(st.body) == 1 and isinstance(st.body[0], ast.Raise):
                continue  # an argument guard that raises
            if not (isinstance(st, ast.Assign) and len(st.targets) == 1):
                raise U(f'{q}: unexpected statement before the loop: {txt(st)}')
            t, v = st.targets[0], st.value
            if isinstance(t, ast.Name) and isinstance(v, ast.Call) and T.dotted_name(v.func) == 'topological_order':
                if [txt(a) for a in v.args] != [p_root] or v.keywords:
                    raise U(f'{q}: topological_order is not called on the root')
                nodes.append(t.id)
            elif isinstance(t, ast.Tuple) and all(isinstance(x, ast.Name) for x in t.elts) and txt(v) == f'{p_lls}.shape':
                pass
            elif isinstance(t, ast.Name) and isinstance(v, ast.Call) and T.dotted_name(v.func) == 'np.empty':
                dt = [kw.value for kw in v.keywords if kw.arg == 'dtype']
                dn = T.dotted_name(T.the(dt, f'{q}: dtype of the gradient table')) or ''
                if not dn.startswith('np.'):
                    raise U(f'{q}: dtype of the gradient table: {dn}')
                grads.append(t.id)
                dtype.append(dn[3:])
            elif isinstance(t, ast.Name) and txt(v) == 'defaultdict(list)':
                cache.append(t.id)
            elif isinstance(t, ast.Subscript) and isinstance(t.value, ast.Name) and t.value.id in grads:
                if txt(t.slice) != f'{p_root}.id':
                    raise U(f'{q}: an entry of the gradient table other than the root\'s is initialised: {txt(st)}')
                root_init.append(T.const_value(v))
            else:
                raise U(f'{q}: unexpected statement before the loop: {txt(st)}')
        if [len(x) for x in (nodes, grads, cache, root_init, checks)] != [1, 1, 1, 1, 1]:
            raise U(f'{q}: expected one each of topological order, gradient table, cache, root initialisation, check_spn; found '
                    f'{nodes}, {grads}, {cache}, {root_init}, {checks}')
        nodes, grads, cache, dtype, root_init, checks = nodes[0], grads[0], cache[0], dtype[0], root_init[0], checks[0]
        if len({nodes, grads, cache, p_root, p_lls}) != 5:
            raise U(f'{q}: the roles of the variables overlap')
        if [txt(s) for s in after] != [f'return{grads}']:
            raise U(f'{q}: after the loop: {[txt(s) for s in after]}, expected the gradient table to be returned')

        # ---- the loop: `for <node> in <nodes>` — the topological order itself, neither reversed nor re-sorted
        if not (isinstance(loop.iter, ast.Name) and loop.iter.id == nodes and isinstance(loop.target, ast.Name)):
            raise U(f'{q}: the loop is not `for <node> in <the result of topological_order(root)>`: {txt(loop.iter)}')
        nd = loop.target.id
        if nd in (nodes, grads, cache, p_root, p_lls):
            raise U(f'{q}: the loop variable shadows {nd}')
        body = nodoc(loop.body)
        if len(body) != 2 or not all(isinstance(s, ast.If) for s in body):
            raise U(f'{q}: the loop body is not (accumulate unless root, dispatch on the node class)')
        acc, disp = body

        # accumulate: `if <node>.id != <root>.id: <grads>[<node>.id] = logsumexp(<cache>[<node>.id], axis=0) [; del <cache>[<node>.id]]`
        tst = acc.test
        if not (isinstance(tst, ast.Compare) and len(tst.ops) == 1 and isinstance(tst.ops[0], ast.NotEq)
                and sorted([txt(tst.left), txt(tst.comparators[0])]) == sorted([f'{nd}.id', f'{p_root}.id'])) or acc.orelse:
            raise U(f'{q}: the accumulation is not guarded by `<node>.id != <root>.id` (without else): {txt(tst)}')
        ab = nodoc(acc.body)
        if not (1 <= len(ab) <= 2 and isinstance(ab[0], ast.Assign) and len(ab[0].targets) == 1 and txt(ab[0].targets[0]) == f'{grads}[{nd}.id]'):
            raise U(f'{q}: the accumulation does not assign <grads>[<node>.id]')
        if len(ab) == 2 and txt(ab[1]) != f'del{cache}[{nd}.id]':
            raise U(f'{q}: second statement of the accumulation is not `del <cache>[<node>.id]`: {txt(ab[1])}')
        red = ab[0].value
        if not (isinstance(red, ast.Call) and isinstance(red.func, ast.Name)):
            raise U(f'{q}: the accumulation is not a call of a reduction: {txt(red)}')
        if red.func.id != 'logsumexp':
            raise U(f'{q}: the reduction over the cached contributions is {red.func.id}, not scipy.special.logsumexp')
        if [txt(a) for a in red.args] != [f'{cache}[{nd}.id]']:
            raise U(f'{q}: logsumexp is not applied to <cache>[<node>.id]: {[txt(a) for a in red.args]}')
        if [(kw.arg, txt(kw.value)) for kw in red.keywords] != [('axis', '0')]:
            raise U(f'{q}: logsumexp keywords {[(kw.arg, txt(kw.value)) for kw in red.keywords]}, expected axis=0 only')

        # dispatch: if / elif chain on isinstance(<node>, <Class>), optional final else that raises
        CLS = {'Sum': 'isSum', 'Product': 'isProduct', 'Leaf': 'isLeaf'}

        def expr(e, env, cvar, wvar, allowed):
            """a log-domain expression over the symbols g (= <grads>[<node>.id]), logw (= np.log(<weight>)), llNode (= <lls>[<node>.id]),
            llChild (= <lls>[<child>.id]); `+` / `-` are rendered as applications of `add` / `sub` with the association of the source"""
            if isinstance(e, ast.Name) and e.id in env:
                return env[e.id]
            if isinstance(e, ast.BinOp) and isinstance(e.op, (ast.Add, ast.Sub)):
                f = 'add' if isinstance(e.op, ast.Add) else 'sub'
                a, b = expr(e.left, env, cvar, wvar, allowed), expr(e.right, env, cvar, wvar, allowed)
                wrap = lambda s: f'({s})' if ' ' in s else s
                return f'{f} {wrap(a)} {wrap(b)}'
            t = txt(e)
            sym = None
            if t == f'{grads}[{nd}.id]':
                sym = 'g'
            elif t == f'{p_lls}[{nd}.id]':
                sym = 'llNode'
            elif cvar and t == f'{p_lls}[{cvar}.id]':
                sym = 'llChild'
            elif wvar and t == f'np.log({wvar})':
                sym = 'logw'
            if sym is None or sym not in allowed:
                raise U(f'{q}: expression {t} in the rule of a {"Sum" if wvar else "Product"} node')
            return sym

        def branch(cls, stmts):
            stmts = nodoc(stmts)
            if len(stmts) == 1 and isinstance(stmts[0], ast.Pass):
                return None, 'some []'
            if cls == 'Leaf':
                raise U(f'{q}: a Leaf node does something: {[txt(s) for s in stmts]}')
            lp = T.the(stmts, f'{q}: statements of the {cls} branch')
            if not isinstance(lp, ast.For) or lp.orelse:
                raise U(f'{q}: the {cls} branch is not one `for` loop over the children')
            it = txt(lp.iter)
            if it == f'zip({nd}.children,{nd}.weights)' and isinstance(lp.target, ast.Tuple) and len(lp.target.elts) == 2 \
                    and all(isinstance(x, ast.Name) for x in lp.target.elts):
                cvar, wvar = [x.id for x in lp.target.elts]
                src, bound, cref, wref = '((children node).zip (weights node))', 'cw', 'cw.1', 'cw.2'
            elif it == f'{nd}.children' and isinstance(lp.target, ast.Name):
                cvar, wvar = lp.target.id, None
                src, bound, cref, wref = '(children node)', 'c', 'c', None
            else:
                raise U(f'{q}: the {cls} branch iterates over {it} (expected <node>.children or zip(<node>.children, <node>.weights))')
            if cls == 'Sum' and wvar is None:
                raise U(f'{q}: the Sum branch does not zip the children with the weights')
            if cls == 'Product' and wvar is not None:
                raise U(f'{q}: the Product branch reads weights')
            if len({cvar, wvar, nd, nodes, grads, cache, p_root, p_lls}) != 8:
                raise U(f'{q}: loop variables of the {cls} branch shadow another variable')
            allowed = {'g', 'logw'} if cls == 'Sum' else {'g', 'llNode', 'llChild'}
            env, sent = {}, []
            for st in nodoc(lp.body):
                if sent:
                    raise U(f'{q}: statement after the append in the {cls} branch: {txt(st)}')
                if isinstance(st, ast.Assign) and len(st.targets) == 1 and isinstance(st.targets[0], ast.Name):
                    if st.targets[0].id in (cvar, wvar, nd, nodes, grads, cache, p_root, p_lls):
                        raise U(f'{q}: {st.targets[0].id} is reassigned in the {cls} branch')
                    env[st.targets[0].id] = expr(st.value, env, cvar, wvar, allowed)
                elif (isinstance(st, ast.Expr) and isinstance(st.value, ast.Call) and isinstance(st.value.func, ast.Attribute)
                      and st.value.func.attr == 'append' and len(st.value.args) == 1 and not st.value.keywords):
                    tgt = txt(st.value.func.value)
                    if tgt == f'{cache}[{cvar}.id]':
                        key = f'nid {cref}'
                    elif tgt == f'{cache}[{nd}.id]':
                        key = 'nid node'
                    else:
                        raise U(f'{q}: the {cls} branch appends to {tgt}, not to the cache entry of a node')
                    sent.append((key, expr(st.value.args[0], env, cvar, wvar, allowed)))
                else:
                    raise U(f'{q}: unexpected statement in the {cls} branch: {txt(st)}')
            key, rule = T.the(sent, f'{q}: appends in the {cls} branch')
            if cls == 'Sum':
                if 'sub ' in rule:
                    raise U(f'{q}: the Sum rule subtracts: {rule}')
                call = f'S5gradSum add (log {wref}) g'
            else:
                call = f'S5gradProd add sub g (lls (nid node)) (lls (nid {cref}))'
            return rule, f'some ({src}.map (fun {bound} => ({key}, {call})))'

        chain, cur, rule_of = [], disp, {}
        while True:
            t = cur.test
            if not (isinstance(t, ast.Call) and T.dotted_name(t.func) == 'isinstance' and len(t.args) == 2 and txt(t.args[0]) == nd
                    and isinstance(t.args[1], ast.Name) and t.args[1].id in CLS):
                raise U(f'{q}: dispatch test {txt(t)} is not isinstance(<node>, Sum / Product / Leaf)')
            cls = t.args[1].id
            if cls in rule_of:
                raise U(f'{q}: two branches for {cls}')
            rule_of[cls], term = branch(cls, cur.body)
            chain.append((CLS[cls], term))
            if len(cur.orelse) == 1 and isinstance(cur.orelse[0], ast.If):
                cur = cur.orelse[0]
                continue
            rest = nodoc(cur.orelse)
            if not rest or (len(rest) == 1 and isinstance(rest[0], ast.Pass)):
                final = 'some []'
            elif len(rest) == 1 and isinstance(rest[0], ast.Raise):
                final = 'none'
            else:
                raise U(f'{q}: the final else of the dispatch is neither absent nor a raise')
            break
        if rule_of.get('Sum') is None or rule_of.get('Product') is None:
            raise U(f'{q}: no rule for Sum or for Product nodes: {rule_of}')
        sends = ''.join(f'if {p} node then {t}\n  else ' for p, t in chain) + final
        pairs = T.lean_list([f'({T.lean_str(a)}, {T.lean_str(b)})' for a, b in checks])
        return [
            '/-- `eval_backward` (algorithms/gradient.py): the value written to `grads[root.id]` before the loop, as a literal of the log-number '
            'carrier (`lit`); the element type of the table `grads`; the flags of the `check_spn` call that guards the pass -/\n'
            f'def S5gradRoot {{L : Type}} (lit : Rat → L) : L := lit {T.q_lean(root_init)}\n'
            f'def S5gradDtype : String := {T.lean_str(dtype)}\n'
            f'def S5gradCheckSpn : List (String × String) := {pairs}',
            '/-- `eval_backward`: the gradient of a non-root node = `scipy.special.logsumexp(cached, axis=0)` of the LIST `cached` of the '
            'contributions its parents appended (axis 0 = along that list), no weights, no other keyword -/\n'
            'def S5gradAccum {L : Type} (logsumexp : List L → L) (cached : List L) : L := logsumexp cached\n'
            '/-- … applied when the node is visited, unless it is the root (test `node.id != root.id`): `cur` = the entry already in `grads` -/\n'
            'def S5gradNode {L : Type} (logsumexp : List L → L) (nodeId rootId : Nat) (cur : L) (cached : List L) : L :=\n'
            '  if nodeId != rootId then S5gradAccum logsumexp cached else cur',
            '/-- `eval_backward`, Sum node: what is appended for a child of weight `w`; g = `grads[node.id]`, logw = `np.log(w)`; association as written -/\n'
            f'def S5gradSum {{L : Type}} (add : L → L → L) (logw : L) (g : L) : L := {rule_of["Sum"]}\n'
            '/-- `eval_backward`, Product node: what is appended for a child `c`; g = `grads[node.id]`, llNode = `lls[node.id]`, llChild = `lls[c.id]`; '
            'association as written (float32 evaluates it in this order) -/\n'
            f'def S5gradProd {{L : Type}} (add sub : L → L → L) (g llNode llChild : L) : L := {rule_of["Product"]}',
            '/-- `eval_backward`: the messages `(key of the cache entry appended to, value appended)` a visited node sends, in order, with g = its '
            'final `grads` entry; the nodes are visited in the order of `topological_order(root)` (checked: the loop iterates over that list '
            'itself); `isSum n` = `isinstance(n, Sum)` etc., `children` / `weights` = attribute reads, `nid n` = `n.id`, `lls k` = `lls[k]`; '
            '`none` = the branch that raises `NotImplementedError` -/\n'
            'def S5gradSends {L N W : Type} (add sub : L → L → L) (log : W → L) (isSum isProduct isLeaf : N → Bool)\n'
            '    (children : N → List N) (weights : N → List W) (nid : N → Nat) (lls : Nat → L) (node : N) (g : L) : Option (List (Nat × L)) :=\n'
            f'  {sends}']
    o.const('gradient.eval_backward.rules', rules)


# =========================================================================================================
# BEGIN block J (append-only) — fifth wave, (c) (Oblig/Struct5Eval.lean): the LOOPS of the serial paths (`n_jobs == 0`) of
# `eval_bottom_up` / `eval_top_down` (deeprob/spn/algorithms/evaluation.py) and the pass `moments.moment` runs, as folds over
# the node list.  The per-node tasks (`eval_forward`, `eval_backward`) are rendered by `listprog.LPArr` as functions of the
# tables they change; `leaf_func`, `node_func`, `sum_func` (PARAMETERS of the Python functions) stay uninterpreted.  Variables
# are identified by their ROLE (parameters by position, the ordering = the result of `topological_order(root)`, the table =
# the array allocated in the serial branch, the task = the nested function the loop calls), never by their name.
# =========================================================================================================
def emit_struct5eval(o, repo, T):
    import listprog
    import re
    U = T.Untranslatable
    HOOKS = '_verif_hooks'

    def nodoc(stmts):
        return [s for s in stmts if not (isinstance(s, ast.Expr) and isinstance(s.value, ast.Constant))]

    def txt(e):
        return ast.unparse(e).replace(' ', '')

    def canon(names):
        def f(node):
            t = ast.unparse(node)
            for a, b in names.items():
                t = re.sub(rf'\b{re.escape(a)}\b', '\0' + b + '\0', t)
            return t.replace('\0', '').replace(' ', '')
        return f

    def is_hook(st):
        return (isinstance(st, ast.If) and txt(st.test) == f'{HOOKS}isnotNone' and not st.orelse
                and all((isinstance(b, ast.Expr) and isinstance(b.value, ast.Call) and (T.dotted_name(b.value.func) or '').startswith(HOOKS + '.'))
                        or (isinstance(b, ast.Assign) and isinstance(b.value, ast.Call) and (T.dotted_name(b.value.func) or '').startswith(HOOKS + '.'))
                        for b in st.body))

    def serial_branch(q, nparams):
        """common shape of the two passes: parameters, the `if <n_jobs> == 0:` branch, its `for` loop over the ordering calling a nested task"""
        ev = T.parse_file(repo, 'deeprob/spn/algorithms/evaluation.py')
        imported = {}
        for s in ev.body:
            if isinstance(s, ast.ImportFrom):
                for a in s.names:
                    imported[a.asname or a.name] = f'{s.module}.{a.name}'
        if imported.get('topological_order') != 'deeprob.spn.structure.node.topological_order' or imported.get('Leaf') != 'deeprob.spn.structure.leaf.Leaf':
            raise U(f'{q}: topological_order / Leaf are not the ones of structure/node.py / structure/leaf.py')
        fn = T.find_func(ev, q)
        params = [a.arg for a in fn.args.args]
        if len(params) != nparams or fn.args.vararg or fn.args.kwarg or fn.args.kwonlyargs or fn.args.posonlyargs:
            raise U(f'{q}: expected {nparams} plain parameters, found {params}')
        p_jobs = params[-1]
        dflt = fn.args.defaults[-1] if fn.args.defaults else None
        if dflt is None or T.const_value(dflt) != 0:
            raise U(f'{q}: the default of {p_jobs} is not 0 (the serial path)')
        stmts = nodoc(fn.body)
        sel = T.the([s for s in stmts if isinstance(s, ast.If) and txt(s.test) == f'{p_jobs}==0'], f'{q}: `if {p_jobs} == 0:`')
        k = stmts.index(sel)
        serial = nodoc(sel.body)
        loop = T.the([s for s in serial if isinstance(s, (ast.For, ast.While))], f'{q}: the loop of the serial branch')
        if not isinstance(loop, ast.For) or loop.orelse or not isinstance(loop.target, ast.Name):
            raise U(f'{q}: the loop of the serial branch is not a plain `for <node> in …`')
        if serial[-1] is not loop:
            raise U(f'{q}: statements after the loop inside the serial branch')
        body = nodoc(loop.body)
        if not (len(body) == 1 and isinstance(body[0], ast.Expr) and isinstance(body[0].value, ast.Call) and isinstance(body[0].value.func, ast.Name)
                and [txt(a) for a in body[0].value.args] == [loop.target.id] and not body[0].value.keywords):
            raise U(f'{q}: the loop body is not one call `<task>(<node>)`: {[txt(b) for b in body]}')
        tname = body[0].value.func.id
        task = T.nested_func(fn, tname)
        tparam = T.the([a.arg for a in task.args.args], f'{q}: parameter of {tname}')
        if task.args.vararg or task.args.kwarg or task.args.kwonlyargs or task.args.defaults:
            raise U(f'{q}: {tname} has further parameters')
        for n in ast.walk(task):
            if isinstance(n, (ast.Global, ast.Nonlocal, ast.Return, ast.Lambda)) or (isinstance(n, ast.FunctionDef) and n is not task):
                raise U(f'{q}: {tname} has a return / global / nonlocal / nested function')
            if isinstance(n, ast.Name) and isinstance(n.ctx, (ast.Store, ast.Del)) and n.id in params + [tparam]:
                raise U(f'{q}: {tname} assigns {n.id}')
        # the ordering: `<ordering> = topological_order(<root>)`, `if <ordering> is None: raise …`
        ords = [s.targets[0].id for s in serial if isinstance(s, ast.Assign) and len(s.targets) == 1 and isinstance(s.targets[0], ast.Name)
                and isinstance(s.value, ast.Call) and isinstance(s.value.func, ast.Name) and [txt(a) for a in s.value.args] == [params[0]]
                and not s.value.keywords and s.value.func.id not in ('len',)]
        ordv = T.the(ords, f'{q}: `<ordering> = <order function>(<root>)` in the serial branch')
        ocall = T.the([s.value for s in serial if isinstance(s, ast.Assign) and txt(s.targets[0]) == ordv], f'{q}: assignment of {ordv}')
        if ocall.func.id != 'topological_order':
            raise U(f'{q}: the nodes are ordered by {ocall.func.id}, not by topological_order')
        guard = [s for s in serial if isinstance(s, ast.If)]
        if not (len(guard) == 1 and txt(guard[0].test) == f'{ordv}isNone' and not guard[0].orelse and len(guard[0].body) == 1
                and isinstance(guard[0].body[0], ast.Raise)):
            raise U(f'{q}: no `if <ordering> is None: raise …` in the serial branch')
        sizes = T.the([s for s in serial if isinstance(s, ast.Assign) and isinstance(s.targets[0], ast.Tuple)], f'{q}: `n_nodes, n_samples = …`')
        if not (len(sizes.targets[0].elts) == 2 and all(isinstance(t, ast.Name) for t in sizes.targets[0].elts)):
            raise U(f'{q}: sizes')
        nn, ns = [t.id for t in sizes.targets[0].elts]
        return dict(ev=ev, fn=fn, params=params, stmts=stmts, k=k, sel=sel, serial=serial, loop=loop, tname=tname, task=task, tparam=tparam,
                    ordv=ordv, nn=nn, ns=ns)

    def loop_iter(q, S, lp):
        """the iterable of the serial loop as a term over `ordering`"""
        it = lp.term(lp.ex(S['loop'].iter, {S['ordv']: ('t', 'ordering')}))
        return it

    def check_flags(q, S):
        cs = [s.value for s in S['stmts'] if isinstance(s, ast.Expr) and isinstance(s.value, ast.Call) and T.dotted_name(s.value.func) == 'check_spn']
        c = T.the(cs, f'{q}: check_spn call')
        if [txt(a) for a in c.args] != [S['params'][0]] or S['stmts'].index(T.the([s for s in S['stmts'] if isinstance(s, ast.Expr) and s.value is c], 'check_spn')) > S['k']:
            raise U(f'{q}: check_spn is not called on the root before the pass')
        return T.lean_list([f'({T.lean_str(kw.arg)}, {T.lean_str(txt(kw.value))})' for kw in c.keywords])

    # ---------------------------------------------------------------------------------------------- eval_bottom_up
    def eval_up():
        q = 'eval_bottom_up'
        S = serial_branch(q, 8)
        p_root, p_x, p_lf, p_nf, p_lfk, p_nfk, p_ret, p_jobs = S['params']
        tabs = [s.targets[0].id for s in S['serial'] if isinstance(s, ast.Assign) and isinstance(s.targets[0], ast.Name) and isinstance(s.value, ast.Call)
                and T.dotted_name(s.value.func) == 'np.empty']
        ls = T.the(tabs, f'{q}: the table allocated by np.empty in the serial branch')
        names = {S['ordv']: 'ordering', ls: 'ls', S['tname']: 'eval_forward', p_root: 'root', p_x: 'x', S['loop'].target.id: 'node',
                 S['nn']: 'n_nodes', S['ns']: 'n_samples'}
        if len(set(names)) != 8:
            raise U(f'{q}: the roles of the variables overlap: {names}')
        c = canon(names)
        got = [c(s) for s in S['serial'] if s is not S['loop'] and not isinstance(s, ast.If)]
        want = ['ordering=topological_order(root)', 'n_nodes,n_samples=(len(ordering),len(x))', 'ls=np.empty(shape=(n_nodes,n_samples),dtype=np.float32)']
        if got != want:
            raise U(f'{q}: the serial branch before the loop is {got}, expected {want}')
        # statements before / after the branch
        for st in S['stmts'][:S['k']]:
            if isinstance(st, ast.FunctionDef) and st is S['task']:
                continue
            if isinstance(st, ast.Expr) and isinstance(st.value, ast.Call) and T.dotted_name(st.value.func) == 'check_spn':
                continue
            if isinstance(st, ast.If) and txt(st.test) in (f'{p_lfk}isNone', f'{p_nfk}isNone') and txt(st.body[0]) in (f'{p_lfk}=dict()', f'{p_nfk}=dict()') \
                    and len(st.body) == 1 and not st.orelse:
                continue
            raise U(f'{q}: unexpected statement before the pass: {txt(st)[:60]}')
        after = S['stmts'][S['k'] + 1:]
        common = dict(rows={ls: ('getRow', 'setRow')}, attrs={'id': 'nid', 'children': 'children'}, classes={'Leaf': 'isLeaf'}, hooks=HOOKS,
                      calls={p_lf: ('leafFunc', [None, f'{p_x}[:,{{0}}.scope]', f'**{p_lfk}']), p_nf: ('nodeFunc', [None, None, f'**{p_nfk}'])})
        lp = listprog.LPArr(T, q, [(ls, 'ls')], **common)
        env0 = {ls: ('t', 'ls'), p_root: ('t', 'root')}
        rets = []
        if not (len(after) == 2 and isinstance(after[0], ast.If) and txt(after[0].test) == p_ret and not after[0].orelse and len(after[0].body) == 1
                and isinstance(after[0].body[0], ast.Return) and isinstance(after[0].body[0].value, ast.Tuple) and len(after[0].body[0].value.elts) == 2
                and txt(after[0].body[0].value.elts[1]) == ls and isinstance(after[1], ast.Return)):
            raise U(f'{q}: after the pass: {[txt(s)[:50] for s in after]}, expected `if return_results: return <entry>, ls` and `return <entry>`')
        r1 = lp.term(lp.ex(after[0].body[0].value.elts[0], env0))
        r2 = lp.term(lp.ex(after[1].value, env0))
        if r1 != r2:
            raise U(f'{q}: the two returns give different entries: {r1} / {r2}')
        # the task
        lpt = listprog.LPArr(T, q + '.' + S['tname'], [(ls, 'ls')], **common)
        out = lpt.block(nodoc(S['task'].body), {ls: ('t', 'ls'), S['tparam']: ('t', 'n')})
        extra = sorted(k for k in out if k not in (ls, S['tparam']))
        if extra:
            raise U(f'{q}: {S["tname"]} leaves further variables defined at its end: {extra}')
        body = lpt.term(out[ls])
        it = loop_iter(q, S, listprog.LPArr(T, q, [(ls, 'ls')], **common))
        flags = check_flags(q, S)
        return [
            '/-- `eval_bottom_up.eval_forward(n)` (evaluation.py) on ONE row of the batch, as a function of the table `ls` it changes: `getRow t k` = '
            '`t[k]`, `setRow t k v` = `t[k] = v` (rows by node id), `nid n` = `n.id`, `children n` = `n.children`, `isLeaf n` = `isinstance(n, Leaf)`, '
            '`leafFunc n` = `leaf_func(n, x[:, n.scope], **leaf_func_kwargs)`, `nodeFunc n vs` = `node_func(n, np.stack(vs, axis=1), **node_func_kwargs)` '
            '(the two function PARAMETERS of `eval_bottom_up`, uninterpreted); the verification hooks are inert; bound variables are named `x<depth>` -/\n'
            'def S5evalUpTask {N T V : Type} (nid : N → Nat) (children : N → List N) (isLeaf : N → Bool) (getRow : T → Nat → V) (setRow : T → Nat → V → T)\n'
            '    (leafFunc : N → V) (nodeFunc : N → List V → V) (ls : T) (n : N) : T :=\n'
            f'  {body}',
            '/-- `eval_bottom_up`, serial path (`n_jobs == 0`, the default): the loop `for node in <iterable>: eval_forward(node)` as a left fold over the table, '
            '`ordering` = the list `topological_order(root)` returned; `evalForward` = the task above (a parameter, so that the loop composes with any reading of it) -/\n'
            'def S5evalUpLoop {N T : Type} (evalForward : T → N → T) (ordering : List N) (ls : T) : T :=\n'
            f'  (({it}).foldl (fun st1 x1 => evalForward st1 x1) ls)',
            '/-- `eval_bottom_up`, serial path, whole: `none` = `ValueError` (`topological_order(root)` returned `None`); the table starts as '
            '`np.empty((len(ordering), len(x)))` (`empty k`: `k` rows of unspecified content); the entry returned (first component; with `return_results` '
            'the table is returned next to it) -/\n'
            'def S5evalUp {N T V : Type} (nid : N → Nat) (getRow : T → Nat → V) (evalForward : T → N → T) (topologicalOrder : N → Option (List N))\n'
            '    (empty : Nat → T) (root : N) : Option (V × T) :=\n'
            '  match topologicalOrder root with\n  | none => none\n'
            f'  | some ordering =>\n    let ls := S5evalUpLoop evalForward ordering (empty (ordering).length);\n    some ({r1}, ls)\n'
            '/-- … the flags of the `check_spn` call that guards the pass -/\n'
            f'def S5evalUpCheckSpn : List (String × String) := {flags}']
    o.const('evaluation.eval_bottom_up.loop', eval_up)

    # ---------------------------------------------------------------------------------------------- eval_top_down
    def eval_down():
        q = 'eval_top_down'
        S = serial_branch(q, 9)
        p_root, p_x, p_lls, p_lf, p_sf, p_lfk, p_sfk, p_inpl, p_jobs = S['params']
        tabs = [s.targets[0].id for s in S['serial'] if isinstance(s, ast.Assign) and isinstance(s.targets[0], ast.Name) and isinstance(s.value, ast.Call)
                and T.dotted_name(s.value.func) == 'np.zeros']
        masks = T.the(tabs, f'{q}: the table allocated by np.zeros in the serial branch')
        locks = [s.targets[0].id for s in S['stmts'][:S['k']] if isinstance(s, ast.Assign) and isinstance(s.targets[0], ast.Name)
                 and isinstance(s.value, ast.Call) and T.dotted_name(s.value.func) == 'threading.Lock']
        lock = T.the(locks, f'{q}: the lock')
        names = {S['ordv']: 'ordering', masks: 'masks', S['tname']: 'eval_backward', p_root: 'root', p_x: 'x', S['loop'].target.id: 'node',
                 S['nn']: 'n_nodes', S['ns']: 'n_samples', lock: 'masks_lock', p_lls: 'lls'}
        if len(set(names)) != 10:
            raise U(f'{q}: the roles of the variables overlap: {names}')
        c = canon(names)
        pre = [s for s in S['serial'] if s is not S['loop'] and not isinstance(s, ast.If)]
        got = [c(s) for s in pre]
        want = ['ordering=topological_order(root)', 'n_nodes,n_samples=(len(ordering),len(x))', 'masks=np.zeros(shape=(n_nodes,n_samples),dtype=np.bool_)']
        if got[:3] != want or len(got) != 4:
            raise U(f'{q}: the serial branch before the loop is {got}, expected {want} and the initialisation of the root mask')
        for st in S['stmts'][:S['k']]:
            if isinstance(st, ast.FunctionDef) and st is S['task']:
                continue
            if isinstance(st, ast.Expr) and isinstance(st.value, ast.Call) and T.dotted_name(st.value.func) == 'check_spn':
                continue
            if isinstance(st, ast.If) and not st.orelse and len(st.body) == 1 and (txt(st.test), txt(st.body[0])) in (
                    (f'{p_lfk}isNone', f'{p_lfk}=dict()'), (f'{p_sfk}isNone', f'{p_sfk}=dict()'), (f'not{p_inpl}', f'{p_x}=np.copy({p_x})')):
                continue
            if isinstance(st, ast.Assign) and txt(st) == f'{lock}=threading.Lock()':
                continue
            if is_hook(st):
                continue
            raise U(f'{q}: unexpected statement before the pass: {txt(st)[:60]}')
        after = S['stmts'][S['k'] + 1:]
        if [txt(s) for s in after] != [f'return{p_x}']:
            raise U(f'{q}: after the pass: {[txt(s)[:50] for s in after]}, expected `return x`')
        common = dict(rows={masks: ('getMask', 'setMask')}, consts={p_lls: 'lls'}, attrs={'id': 'nid', 'children': 'children'}, hooks=HOOKS, locks={lock},
                      calls={p_sf: ('sumFunc', [None, None, f'**{p_sfk}'])}, types={masks: 'M'})
        # the initialisation of the root mask, from the allocated table
        lp0 = listprog.LPArr(T, q, [(masks, 'masks')], **common)
        env = lp0.stmt(pre[3], {masks: ('t', '(zeros (ordering).length)'), p_root: ('t', 'root')})
        init = lp0.term(env[masks])
        it = loop_iter(q, S, listprog.LPArr(T, q, [(masks, 'masks')], **common))
        # the task: a dispatch chain on the node class
        n = S['tparam']
        body = [s for s in nodoc(S['task'].body) if not is_hook(s)]
        disp = T.the(body, f'{q}: the dispatch of {S["tname"]}')
        if not isinstance(disp, ast.If):
            raise U(f'{q}: {S["tname"]} is not a dispatch on the node class')
        CLS = {'Leaf': 'isLeaf', 'Product': 'isProduct', 'Sum': 'isSum'}
        chain, cur, seen = [], disp, set()
        while True:
            t = cur.test
            if not (isinstance(t, ast.Call) and T.dotted_name(t.func) == 'isinstance' and len(t.args) == 2 and txt(t.args[0]) == n
                    and isinstance(t.args[1], ast.Name) and t.args[1].id in CLS and t.args[1].id not in seen):
                raise U(f'{q}: dispatch test {txt(t)} is not isinstance(<node>, Leaf / Product / Sum)')
            cls = t.args[1].id
            seen.add(cls)
            lp = listprog.LPArr(T, f'{q}.{S["tname"]} ({cls})', [(masks, 'masks'), (p_x, 'x')], **common)
            env0 = {masks: ('t', 'masks'), p_x: ('t', 'x'), n: ('t', 'n')}
            stmts = nodoc(cur.body)
            if cls == 'Leaf':
                # `<m> = np.ix_(<masks>[<n>.id], <n>.scope)`; `<x>[<m>] = leaf_func(<n>, <x>[<m>], **leaf_func_kwargs)`
                if not (len(stmts) == 2 and isinstance(stmts[0], ast.Assign) and isinstance(stmts[0].targets[0], ast.Name)
                        and isinstance(stmts[0].value, ast.Call) and T.dotted_name(stmts[0].value.func) == 'np.ix_' and len(stmts[0].value.args) == 2
                        and txt(stmts[0].value.args[1]) == f'{n}.scope'):
                    raise U(f'{q}: the leaf branch does not start with `<m> = np.ix_(<masks>[…], <node>.scope)`')
                m = stmts[0].targets[0].id
                sel = lp.term(lp.ex(stmts[0].value.args[0], env0))
                if txt(stmts[1]) != f'{p_x}[{m}]={p_lf}({n},{p_x}[{m}],**{p_lfk})':
                    raise U(f'{q}: the leaf branch does not end with `x[<m>] = leaf_func(<node>, x[<m>], **leaf_func_kwargs)`: {txt(stmts[1])}')
                res = f'(masks, (leafWrite n {sel} x))'
            else:
                out = lp.block(stmts, env0)
                if lp.term(out[p_x]) != 'x':
                    raise U(f'{q}: the {cls} branch changes x')
                res = f'({lp.term(out[masks])}, x)'
            chain.append((CLS[cls], res))
            if len(cur.orelse) == 1 and isinstance(cur.orelse[0], ast.If):
                cur = cur.orelse[0]
                continue
            rest = nodoc(cur.orelse)
            if len(rest) == 1 and isinstance(rest[0], ast.Raise):
                final = 'raised'
            elif not rest:
                final = '(masks, x)'
            else:
                raise U(f'{q}: the final else of the dispatch is neither absent nor a raise')
            break
        if seen != set(CLS):
            raise U(f'{q}: the dispatch does not cover Leaf, Product and Sum: {sorted(seen)}')
        tbody = ''.join(f'if ({p} n) then {r}\n  else ' for p, r in chain) + final
        flags = check_flags(q, S)
        return [
            '/-- `eval_top_down.eval_backward(n)` (evaluation.py) on ONE row of the batch, as a function of the pair (`masks`, `x`) it changes: `getMask m k` = '
            '`m[k]` (that row\'s entry of the mask of node id `k`), `setMask m k b` = `m[k] = b`, `nid n` = `n.id`, `children n` = `n.children`, `isLeaf` / '
            '`isProduct` / `isSum` = the `isinstance` tests in the order of the source, `leafWrite n b x` = the effect of `x[np.ix_(mask, n.scope)] = '
            'leaf_func(n, x[np.ix_(mask, n.scope)], **leaf_func_kwargs)` on a row whose mask entry is `b`, `sumFunc n vs` = that row of `sum_func(n, '
            'np.stack(vs, axis=1), **sum_func_kwargs)` (the branch index), `lls k` = `lls[k]`; `raised` = the branch that raises `NotImplementedError`; the lock '
            'orders nothing on the serial path, the verification hooks are inert; bound variables are named `x<depth>`, fold states `st<depth>` -/\n'
            'def S5evalDownTask {N M X L : Type} (nid : N → Nat) (children : N → List N) (isLeaf isProduct isSum : N → Bool) (getMask : M → Nat → Bool)\n'
            '    (setMask : M → Nat → Bool → M) (leafWrite : N → Bool → X → X) (sumFunc : N → List L → Nat) (lls : Nat → L) (raised : M × X)\n'
            '    (masks : M) (x : X) (n : N) : M × X :=\n'
            f'  {tbody}',
            '/-- `eval_top_down`, serial path (`n_jobs == 0`, the default): the loop `for node in <iterable>: eval_backward(node)` as a left fold over (`masks`, `x`), '
            '`ordering` = the list `topological_order(root)` returned -/\n'
            'def S5evalDownLoop {N M X : Type} (evalBackward : M × X → N → M × X) (ordering : List N) (masks : M) (x : X) : M × X :=\n'
            f'  (({it}).foldl (fun st1 x1 => evalBackward st1 x1) (masks, x))',
            '/-- `eval_top_down`, serial path, whole: `none` = `ValueError` (no topological order); the masks start as `np.zeros((len(ordering), len(x)))` '
            '(`zeros k`) with the root\'s row set; the (copied, unless `inplace`) input rows are returned -/\n'
            'def S5evalDown {N M X : Type} (nid : N → Nat) (setMask : M → Nat → Bool → M) (evalBackward : M × X → N → M × X)\n'
            '    (topologicalOrder : N → Option (List N)) (zeros : Nat → M) (root : N) (x : X) : Option X :=\n'
            '  match topologicalOrder root with\n  | none => none\n'
            f'  | some ordering => some (S5evalDownLoop evalBackward ordering {init} x).2\n'
            '/-- … the flags of the `check_spn` call that guards the pass -/\n'
            f'def S5evalDownCheckSpn : List (String × String) := {flags}']
    o.const('evaluation.eval_top_down.loop', eval_down)

    # ---------------------------------------------------------------------------------------------- moments.moment
    def moment_loop():
        q = 'moment'
        mo = T.parse_file(repo, 'deeprob/spn/algorithms/moments.py')
        imported = {}
        for s in mo.body:
            if isinstance(s, ast.ImportFrom):
                for a in s.names:
                    imported[a.asname or a.name] = f'{s.module}.{a.name}'
            elif isinstance(s, ast.FunctionDef):
                imported[s.name] = f'moments.{s.name}'
        want = {'eval_bottom_up': 'deeprob.spn.algorithms.evaluation.eval_bottom_up', 'node_likelihood': 'deeprob.spn.algorithms.inference.node_likelihood',
                'leaf_moment': 'moments.leaf_moment'}
        for k, v in want.items():
            if imported.get(k) != v:
                raise U(f'{q}: the name {k} is bound to {imported.get(k)}, expected {v}')
        S = serial_branch('eval_bottom_up', 8)          # the pass `moment` runs: the serial path is the DEFAULT of `n_jobs`
        fn = T.find_func(mo, q)
        params = [a.arg for a in fn.args.args]
        if len(params) != 2:
            raise U(f'{q}: expected the parameters (root, order), found {params}')
        p_root, p_order = params
        for n in ast.walk(fn):
            if isinstance(n, ast.Name) and isinstance(n.ctx, (ast.Store, ast.Del)) and n.id in params + list(want):
                raise U(f'{q}: {n.id} is rebound inside the function')
        stmts = nodoc(fn.body)
        ret = stmts[-1]
        if not (isinstance(ret, ast.Return) and isinstance(ret.value, ast.Call) and T.dotted_name(ret.value.func) == 'eval_bottom_up'
                and len(ret.value.args) == 2 and txt(ret.value.args[0]) == p_root and isinstance(ret.value.args[1], ast.Name)):
            raise U(f'{q}: does not end with `return eval_bottom_up(<root>, <matrix>, …)`')
        mat = ret.value.args[1].id
        kws = {k.arg: k.value for k in ret.value.keywords}
        if sorted(kws) != ['leaf_func', 'leaf_func_kwargs', 'node_func']:
            raise U(f'{q}: keywords of eval_bottom_up: {sorted(kws)} (`n_jobs` must stay at its default, the serial path)')
        lk = kws['leaf_func_kwargs']
        if not (isinstance(lk, ast.Dict) and [getattr(k, 'value', None) for k in lk.keys] == ['order'] and [txt(v) for v in lk.values] == [p_order]):
            raise U(f'{q}: leaf_func_kwargs is not {{\'order\': <order>}}')
        if not (isinstance(kws['leaf_func'], ast.Name) and isinstance(kws['node_func'], ast.Name)):
            raise U(f'{q}: leaf_func / node_func are not plain names')
        FN = {'leaf_moment': 'leafMoment', 'node_likelihood': 'nodeLikelihood'}
        lf, nf = kws['leaf_func'].id, kws['node_func'].id
        if lf not in FN or nf not in FN:
            raise U(f'{q}: leaf_func / node_func are {lf} / {nf}, not leaf_moment / node_likelihood')
        lf_term = f'({FN[lf]} order)' if lf == 'leaf_moment' else FN[lf]
        nf_term = f'({FN[nf]} order)' if nf == 'leaf_moment' else FN[nf]
        scn = T.the([s.targets[0].id for s in stmts if isinstance(s, ast.Assign) and isinstance(s.targets[0], ast.Name) and txt(s.value) == f'{p_root}.scope'],
                    f'{q}: `<scope> = <root>.scope`')
        m = T.the(T.assignments(fn, mat), f'{q}: {mat}')
        if txt(m) != f'np.ones(shape=[len({scn}),len({scn})],dtype=np.float32)':
            raise U(f'{q}: the input of the pass is not np.ones(shape=[len(scope), len(scope)]): {txt(m)}')
        return [
            '/-- `moments.moment(root, order)` after its guards: the bottom-up pass it runs, `evalBottomUp root leafFunc nodeFunc` = `eval_bottom_up(root, '
            'np.ones([len(scope), len(scope)]), leaf_func=leafFunc, node_func=nodeFunc, leaf_func_kwargs={\'order\': order})` with `n_jobs` left at its default '
            '(0: the serial loop `Gen.S5evalUp…`, checked), `leafMoment` = `moments.leaf_moment`, `nodeLikelihood` = `inference.node_likelihood` (checked: '
            'the names are bound to these functions); one ROW of the matrix per variable (`S5momentRows`) -/\n'
            'def S5momentLoop {N V R : Type} (evalBottomUp : N → (N → V) → (N → List V → V) → R) (leafMoment : Int → N → V)\n'
            '    (nodeLikelihood : N → List V → V) (root : N) (order : Int) : R :=\n'
            f'  (evalBottomUp root {lf_term} {nf_term})\n'
            'def S5momentRows {N : Type} (scope : N → List Nat) (root : N) : Nat × Nat := (((scope root)).length, ((scope root)).length)']
    o.const('moments.moment.loop', moment_loop)
# END block J


# =========================================================================================================
# BLOCK K (append-only): skeletons of the `for` loops of `BinaryCLT.message_passing`, `mpe`, `sample` (cltree.py) and of the passes of
# `prune` / `marginalize` (algorithms/structure.py), rendered by tools/listprog.py (class SK): the traversal, the slot of the state
# that is written, the slots that are read, the statements around the loop that touch the state, what is returned.  The numerical
# content of an iteration is a parameter (`body`) — the bodies themselves are the fourth-wave fragments `cltree.message_passing.body`,
# `cltree.mpe`, `structure.prune`, `structure.marginalize.body`; Oblig/Struct5Clt.lean / Struct5Rewrite.lean tie the two together.
# =========================================================================================================
def emit_struct5k(o, repo, T):
    import listprog
    import re
    U = T.Untranslatable
    o.consts.append(listprog.PY5K_PRELUDE)
    cltree = T.parse_file(repo, 'deeprob/spn/structure/cltree.py')

    def nodoc(stmts):
        return [s for s in stmts if not (isinstance(s, ast.Expr) and isinstance(s.value, ast.Constant))]

    def txt(e):
        return ast.unparse(e).replace(' ', '')

    def params_of(fn, n, q):
        a = [x.arg for x in fn.args.args]
        if len(a) != n or fn.args.vararg or fn.args.kwarg or fn.args.kwonlyargs:
            raise U(f'{q}: expected {n} positional parameters, found {a}')
        return a

    def canon_map(fn, fixed):
        """the local variables of `fn` that are not in `fixed` renamed v0, v1, … in the order of their first store"""
        names = dict(fixed)
        stores = sorted((n.lineno, n.col_offset, n.id) for n in ast.walk(fn) if isinstance(n, ast.Name) and isinstance(n.ctx, ast.Store))
        k = 0
        for _, _, nm in stores:
            if nm not in names:
                names[nm] = f'v{k}'
                k += 1
        return names

    def canon(names):
        def f(node):
            t = ast.unparse(node)
            return re.sub(r'(?<![\w.])[A-Za-z_][A-Za-z_0-9]*\b', lambda m: names.get(m.group(0), m.group(0)), t).replace(' ', '')
        return f

    def other_reads(stmts, A, c):
        """canonical texts of the subscript reads of everything that is not the state, sorted (what an iteration reads besides the state)"""
        out_ = set()
        for st in stmts:
            for n in ast.walk(st):
                if isinstance(n, ast.Subscript) and isinstance(n.ctx, ast.Load) and not (isinstance(n.value, ast.Name) and n.value.id == A):
                    out_.add(c(n))
        return sorted(out_)

    def top_loop(q, fn):
        stmts = nodoc(fn.body)
        loop = T.the([s for s in stmts if isinstance(s, ast.For)], f'{q}: top-level `for` loop')
        return stmts, loop, stmts.index(loop)

    # ---- BinaryCLT.message_passing: zeros, the upward loop, `if not return_lls: return messages`, the value from messages[self.root] ----
    def msg_loop():
        q = 'BinaryCLT.message_passing'
        fn = T.find_func(cltree, q)
        S, X, OM, RL, RD = params_of(fn, 5, q)
        stmts, loop, k = top_loop(q, fn)
        sk = listprog.SK(T, q, axis=0, iter_syms={f'{S}.bfs': 'bfs'}, slot_syms={f'{S}.root': 'root'}, slot_tabs={f'{S}.tree': 'tree'},
                         get='getRow', set_='setRow')
        A = sk.state_of(loop)
        # before the loop: `n_samples, n_features = x.shape`, `messages = np.zeros(shape=(n_features, n_samples, 2), dtype=…)`
        shp = T.the([s for s in stmts[:k] if isinstance(s, ast.Assign) and txt(s.value) == f'{X}.shape'], f'{q}: `… = x.shape`')
        if not (isinstance(shp.targets[0], ast.Tuple) and len(shp.targets[0].elts) == 2 and all(isinstance(e, ast.Name) for e in shp.targets[0].elts)):
            raise U(f'{q}: `x.shape` is not unpacked into (n_samples, n_features)')
        ns, nf = [e.id for e in shp.targets[0].elts]
        names = canon_map(fn, {S: 'self', X: 'x', OM: 'obs_mask', RL: 'return_lls', RD: 'reduce', A: 'messages', ns: 'n_samples', nf: 'n_features',
                               loop.target.id if isinstance(loop.target, ast.Name) else '?': 'j'})
        c = canon(names)
        init = T.the([s for s in stmts[:k] if isinstance(s, ast.Assign) and txt(s.targets[0]) == A], f'{q}: creation of the messages')
        if not c(init.value).startswith('np.zeros(shape=(n_features,n_samples,2),'):
            raise U(f'{q}: the messages are not created by np.zeros(shape=(n_features, n_samples, 2), …): {c(init.value)}')
        for s in stmts[:k]:
            if s is not init and any(isinstance(n, ast.Name) and n.id == A for n in ast.walk(s)):
                raise U(f'{q}: the messages are used before the loop: {c(s)}')
        fold, n = sk.fold(loop, A, 'messages', 'body', [], 'zeros')
        # after the loop
        ret0 = stmts[k + 1] if k + 1 < len(stmts) else None
        if not (isinstance(ret0, ast.If) and txt(ret0.test) == f'not{RL}' and not ret0.orelse and len(ret0.body) == 1
                and isinstance(ret0.body[0], ast.Return) and isinstance(ret0.body[0].value, ast.Name) and ret0.body[0].value.id == A):
            raise U(f'{q}: the loop is not followed by `if not return_lls: return messages`')
        rest = stmts[k + 2:]
        occ = sk.occurrences(rest, A, None)
        if not occ or any(m != 'load' for m, _, _ in occ) or {s for _, s, _ in occ} != {'root'}:
            raise U(f'{q}: after the loop the messages are not read at `self.root` only: {occ}')
        last = rest[-1]
        if not (isinstance(last, ast.Return) and isinstance(last.value, ast.Name) and last.value.id != A):
            raise U(f'{q}: does not end with `return <the values>`')
        for s in rest[:-1]:
            if any(isinstance(n_, ast.Return) for n_ in ast.walk(s)):
                raise U(f'{q}: a return inside the root step')
        bsig = 'Int → ' + ' → '.join(['R'] * n) + ' → R'
        return ['/-- `BinaryCLT.message_passing` — the LOOP: `messages` starts as `np.zeros((n_features, n_samples, 2))` (`zeros`), the positions are '
                'visited in the order rendered below (from `self.bfs`), an iteration at `j` hands to `body` the entries of `messages` it reads and '
                'stores the result at the slot it writes (`getRow m i` = `m[i]`, `setRow m i v` = `m[i] = v`); then `if not return_lls: return '
                'messages`, else the value computed from `messages[self.root]` alone (`rootValue`) -/\n'
                'def S5cltMessagePassing {M R L : Type} (getRow : M → Int → R) (setRow : M → Int → R → M) (root : Int) (bfs tree : List Int)\n'
                f'    (body : {bsig}) (rootValue : R → L) (zeros : M) (return_lls : Bool) : M ⊕ L :=\n'
                f'  let messages := {fold};\n'
                '  if (!return_lls) then .inl messages else .inr (rootValue (getRow messages root))',
                '/-- … what an iteration of that loop reads besides `messages` (canonical names: `j` the loop variable, `v<i>` the i-th local) -/\n'
                f'def S5cltMsgReads : List String := {T.lean_list([T.lean_str(x) for x in other_reads(loop.body, A, c)])}']
    o.const('cltree.message_passing.loop', msg_loop)

    # ---- BinaryCLT.mpe / sample: copy, messages = self.message_passing(…), the root store, the downward loop, `return x` -----------------
    def decode_loop(q, lean):
        fn = T.find_func(cltree, q)
        S, X = params_of(fn, 2, q)
        stmts, loop, k = top_loop(q, fn)
        sk = listprog.SK(T, q, axis=-1, iter_syms={f'{S}.bfs': 'bfs'}, slot_syms={f'{S}.root': 'root'}, slot_tabs={f'{S}.tree': 'tree'},
                         get='getCol', set_='setCol')
        A = sk.state_of(loop)
        if A != X:
            raise U(f'{q}: the loop does not write the data array')
        if not (stmts and txt(stmts[0]) == f'{X}=np.copy({X})'):
            raise U(f'{q}: does not start with `x = np.copy(x)`')
        names = canon_map(fn, {S: 'self', X: 'x', loop.target.id if isinstance(loop.target, ast.Name) else '?': 'j'})
        c = canon(names)
        lines, group, stored, msgs, sigs = [], [], False, None, []
        for s in stmts[1:k]:
            v = s.value if isinstance(s, ast.Assign) else None
            if (isinstance(v, ast.Call) and txt(v.func) == f'{S}.message_passing'):
                kws = {kw.arg: kw.value for kw in v.keywords}
                if (stored or msgs is not None or len(v.args) != 2 or not isinstance(v.args[0], ast.Name) or v.args[0].id != A
                        or set(kws) != {'return_lls', 'reduce'} or not isinstance(s.targets[0], ast.Name)
                        or not all(isinstance(x_, ast.Constant) for x_ in kws.values())
                        or not isinstance(kws['return_lls'].value, bool) or not isinstance(kws['reduce'].value, str)):
                    raise U(f'{q}: message_passing is not called once, before any store, as (x, <mask>, return_lls=<const>, reduce=<const>)')
                msgs = s.targets[0].id
                names[msgs] = 'messages'
                lines.append(f'let messages := messagePassing x {"true" if kws["return_lls"].value else "false"} {T.lean_str(kws["reduce"].value)};')
                group = []
                continue
            occ = sk.occurrences([s], A, None)
            if any(m in ('store', 'aug') for m, _, _ in occ):
                if msgs is None:
                    raise U(f'{q}: a store into the data before the messages are computed: {c(s)}')
                term, n = sk.step(group + occ, 'x', [f'pre{len(sigs)}', 'messages'], 'store before the loop')
                sigs.append(n)
                lines.append(f'let x := {term};')
                group, stored = [], True
            elif msgs is not None:
                if any(m == 'whole' for m, _, _ in occ):
                    raise U(f'{q}: the data array is used as a whole after the messages were computed: {c(s)}')
                group = group + occ
        if msgs is None:
            raise U(f'{q}: no call of message_passing before the loop')
        if any(isinstance(n_, ast.Name) and n_.id == msgs and isinstance(n_.ctx, ast.Store) for s in stmts[k:] for n_ in ast.walk(s)):
            raise U(f'{q}: the messages are reassigned')
        fold, n = sk.fold(loop, A, 'x', 'body', ['messages'], 'x')
        lines.append(f'let x := {fold};')
        if [txt(s) for s in stmts[k + 1:]] != [f'return{X}']:
            raise U(f'{q}: the loop is not followed by `return x` alone')
        def sig(n_):
            return ' → '.join(['E'] * n_ + ['Option E'])
        pres = ''.join(f' (pre{i} : MSG → {sig(n_)})' for i, n_ in enumerate(sigs))
        body = '\n  '.join(lines + ['x'])
        return [f'/-- `{q}` — the LOOP on ONE row: `x = np.copy(x)`, the call of `self.message_passing` with its keywords, the store(s) before the '
                'loop, the loop over the rendered traversal of `self.bfs`, `return x`.  `getCol x i` = the entry of variable `i`, `setCol x i v` writes '
                'it; `pre<i>` / `body` receive the messages and exactly the entries of `x` the source reads, and return `some v` when the row is '
                'selected by the mask of the store (`none`: the entry is kept) -/\n'
                f'def {lean} {{X E MSG : Type}} (getCol : X → Int → E) (setCol : X → Int → E → X) (root : Int) (bfs tree : List Int)\n'
                f'    (messagePassing : X → Bool → String → MSG){pres} (body : MSG → Int → {sig(n)}) (x : X) : X :=\n'
                f'  {body}',
                '/-- … what an iteration of that loop reads besides `x` -/\n'
                f'def {lean}Reads : List String := {T.lean_list([T.lean_str(x_) for x_ in other_reads(loop.body, A, canon(names))])}']
    o.const('cltree.mpe.loop', lambda: decode_loop('BinaryCLT.mpe', 'S5cltMpeLoop'))
    o.const('cltree.sample.loop', lambda: decode_loop('BinaryCLT.sample', 'S5cltSampleLoop'))


# ---- BLOCK K, continued (append-only): the passes of `prune` / `marginalize` (algorithms/structure.py) --------------------------------
def emit_struct5k_rewrite(o, repo, T):
    import listprog
    import re
    U = T.Untranslatable
    structure = T.parse_file(repo, 'deeprob/spn/algorithms/structure.py')

    def nodoc(stmts):
        return [s for s in stmts if not (isinstance(s, ast.Expr) and isinstance(s.value, ast.Constant))]

    def pass_loop(q, lean, nparams, tail_want, doc_tail):
        fn = T.find_func(structure, q)
        a = [x.arg for x in fn.args.args]
        if len(a) != nparams:
            raise U(f'{q}: expected {nparams} parameters, found {a}')
        R = a[0]
        stmts = nodoc(fn.body)
        loop = T.the([s for s in stmts if isinstance(s, ast.For)], f'{q}: top-level `for` loop')
        k = stmts.index(loop)
        sk = listprog.SK(T, q, slot_attrs={'id': 'nid'}, var='node', get='get')
        mk = stmts[k - 1] if k >= 1 else None
        if not (isinstance(mk, ast.Assign) and len(mk.targets) == 1 and isinstance(mk.targets[0], ast.Name)):
            raise U(f'{q}: the statement in front of the loop does not build the dictionary')
        A = mk.targets[0].id
        if not (isinstance(loop.iter, ast.Call) and isinstance(loop.iter.func, ast.Name) and loop.iter.args and isinstance(loop.iter.args[0], ast.Name)) \
                and not isinstance(loop.iter, ast.Name):
            raise U(f'{q}: the loop does not iterate over (a reversal of) a local list')
        NL = loop.iter.id if isinstance(loop.iter, ast.Name) else loop.iter.args[0].id
        sk.iter_syms = {NL: 'nodes'}
        fixed = {R: 'root', A: 'nodes_map', NL: 'nodes', loop.target.id if isinstance(loop.target, ast.Name) else '?': 'node'}
        for i, nm in enumerate(a[1:]):
            fixed[nm] = ['keep_scope', 'copy'][i - (3 - nparams)] if nparams == 3 else 'copy'
        names = dict(fixed)
        stores = sorted((n.lineno, n.col_offset, n.id) for n in ast.walk(fn) if isinstance(n, ast.Name) and isinstance(n.ctx, ast.Store))
        kk = 0
        for _, _, nm in stores:
            if nm not in names:
                names[nm] = f'v{kk}'
                kk += 1
        def c(node):
            t = ast.unparse(node)
            return re.sub(r'(?<![\w.])[A-Za-z_][A-Za-z_0-9]*\b', lambda m: names.get(m.group(0), m.group(0)), t).replace(' ', '').replace('\n', '')
        # the three statements in front of the loop: the order, the DAG test, the dictionary
        head = [c(s) for s in stmts[max(0, k - 3):k]]
        want = ['nodes=topological_order(root)', 'ifnodesisNone:raiseValueError', 'nodes_map=dict(map(lambdan:(n.id,n),nodes))']
        head[1:2] = [head[1].split('(')[0]] if len(head) == 3 else head[1:2]
        if head != want:
            raise U(f'{q}: in front of the loop: {head}, expected {want}')
        for s in stmts[:max(0, k - 3)]:
            if any(isinstance(n, ast.Name) and n.id in (A, NL) for n in ast.walk(s)):
                raise U(f'{q}: the order / the dictionary are used before they are built: {c(s)}')
        fold, writes = sk.fold_keyed(loop, A, 'nodes_map', 'body', '(mkMap nodes)', c)
        tail = [c(s) for s in stmts[k + 1:]]
        if tail != tail_want:
            raise U(f'{q}: after the loop: {tail}, expected {tail_want}')
        return [f'/-- `{q}` — the PASS: `nodes = topological_order(root)` (`none`: not a DAG, `ValueError`), `nodes_map = {{n.id: n}}` (`mkMap`), '
                'the nodes are visited in the rendered order, an iteration changes ONLY the slot of the visited node (`apply m k out`: the stores '
                '/ attribute stores listed below, decided by `body`, which may read the dictionary at any key through `get`), then '
                f'{doc_tail} -/\n'
                f'def {lean} {{N V MAP O R : Type}} (nid : N → Nat) (get : MAP → Nat → V) (apply : MAP → Nat → O → MAP)\n'
                '    (topological_order : N → Option (List N)) (mkMap : List N → MAP) (finish : V → R) (body : (Nat → V) → N → O) (root : N) : Option R :=\n'
                '  match topological_order root with\n  | none => none\n  | some nodes =>\n'
                f'    let nodes_map := {fold};\n'
                '    some (finish (get nodes_map (nid root)))',
                '/-- … the stores of an iteration into the dictionary (canonical names), and what `finish` stands for -/\n'
                f'def {lean}Writes : List String := {T.lean_list([T.lean_str(x) for x in writes])}\n'
                f'def {lean}Finish : List String := {T.lean_list([T.lean_str(x) for x in tail])}']
    o.const('structure.prune.loop', lambda: pass_loop('prune', 'S5prunePassLoop', 2, ['returnassign_ids(nodes_map[root.id])'],
                                                      '`assign_ids(nodes_map[root.id])` is returned (`finish`)'))
    o.const('structure.marginalize.loop', lambda: pass_loop('marginalize', 'S5margPassLoop', 3,
                                                            ['root=assign_ids(nodes_map[root.id])', 'returnprune(root,copy=False)'],
                                                            '`prune(assign_ids(nodes_map[root.id]), copy=False)` is returned (`finish`)'))
