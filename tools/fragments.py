"""The list of source fragments the translator extracts (what, from where) — see DESIGN.md §2.3."""
import ast


def emit(o, repo, T):
    U = T.Untranslatable
    leaf = T.parse_file(repo, 'deeprob/spn/structure/leaf.py')
    inference = T.parse_file(repo, 'deeprob/spn/algorithms/inference.py')
    sampling = T.parse_file(repo, 'deeprob/spn/algorithms/sampling.py')
    moments = T.parse_file(repo, 'deeprob/spn/algorithms/moments.py')

    # ---- C01: out-of-support constants of the histogram leaf, the log floor ------------------
    def iso_lik():
        fn = T.find_func(leaf, 'Isotonic.likelihood')
        v = T.the(T.assignments(fn, 'ls[ood_mask]'), 'Isotonic.likelihood ood assignment')
        return f'/-- `Isotonic.likelihood`: value outside the support -/\ndef isoOodLik : Rat := {T.q_lean(T.const_value(v))}'
    o.const('isoOodLik', iso_lik)

    def iso_loglik():
        fn = T.find_func(leaf, 'Isotonic.log_likelihood')
        v = T.the(T.assignments(fn, 'lls[ood_mask]'), 'Isotonic.log_likelihood ood assignment')
        if not (isinstance(v, ast.Call) and (T.dotted_name(v.func) or '').split('.')[-1] == 'log' and len(v.args) == 1):
            raise U('Isotonic.log_likelihood ood value is not log(<constant>)')
        return ('/-- `Isotonic.log_likelihood`: the out-of-support value is `log` of this constant -/\n'
                f'def isoOodLogLikArg : Rat := {T.q_lean(T.const_value(v.args[0]))}')
    o.const('isoOodLogLikArg', iso_loglik)

    def ll_floor():
        fn = T.find_func(inference, 'node_log_likelihood')
        c = T.the(T.calls(fn, 'maximum'), 'np.maximum in node_log_likelihood')
        return f'/-- `node_log_likelihood`: floor applied to every log-value -/\ndef llFloor : Rat := {T.q_lean(T.const_value(c.args[1]))}'
    o.const('llFloor', ll_floor)

    # ---- C07: noise law of sum_sample -----------------------------------------------------------
    def gumbel():
        fn = T.find_func(sampling, 'sum_sample')
        v = T.the(T.assignments(fn, 'gumbel'), 'gumbel noise in sum_sample')
        nm = T.dotted_name(v.func) if isinstance(v, ast.Call) else None
        if not nm or not nm.endswith('.rvs'):
            raise U('sum_sample noise is not a scipy rvs call')
        law = nm.split('.')[-2]
        args = [T.const_value(a) for a in v.args[:2]]
        return ('/-- `sum_sample`: SciPy law of the additive noise, location, scale -/\n'
                f'def sumSampleNoise : String := "{law}"\n'
                f'def sumSampleNoiseLoc : Rat := {T.q_lean(args[0])}\n'
                f'def sumSampleNoiseScale : Rat := {T.q_lean(args[1])}')
    o.const('sumSampleNoise', gumbel)

    # ---- C19: derived statistics as functions of the raw moments -----------------------------------
    def moment_hook(tr, call):
        nm = T.dotted_name(call.func)
        if nm == 'moment':
            ks = [kw.value for kw in call.keywords if kw.arg == 'order'] or call.args[1:2]
            k = T.const_value(T.the(ks, 'moment order'))
            if k.denominator != 1 or not (1 <= k <= 4):
                raise U('moment order outside 1..4')
            return f'm{k.numerator}'
        if nm in ('expectation',):
            return 'm1'
        if nm in ('variance',):
            return '(variance m1 m2 m3 m4)'
        return None

    for name in ('variance', 'skewness', 'kurtosis'):
        def mk(name=name):
            fn = T.find_func(moments, name)
            tr = T.Tr(call_hook=moment_hook)
            body = tr.run(fn)
            if body is None:
                raise U(f'{name}: no return')
            needsE = 'E.' in body
            sig = '(m1 m2 m3 m4 : F)'
            return (f'/-- `moments.{name}` as a function of the raw moments -/\n'
                    f'def {name} {"" if not needsE else ""}{sig} : F := {body}')
        o.formula('moments.' + name, mk)
