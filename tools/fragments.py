"""The list of source fragments the translator extracts (what, from where) — see DESIGN.md §2.3."""
import ast


def emit(o, repo, T):
    U = T.Untranslatable
    leaf = T.parse_file(repo, 'deeprob/spn/structure/leaf.py')
    inference = T.parse_file(repo, 'deeprob/spn/algorithms/inference.py')
    sampling = T.parse_file(repo, 'deeprob/spn/algorithms/sampling.py')
    moments = T.parse_file(repo, 'deeprob/spn/algorithms/moments.py')

    # ---- C01: out-of-support constants of the histogram leaf, the log floor ------------------
    def iso_lik():
        fn = T.find_func(leaf, 'Isotonic.likelihood')
        v = T.the(T.assignments(fn, 'ls[ood_mask]'), 'Isotonic.likelihood ood assignment')
        return f'/-- `Isotonic.likelihood`: value outside the support -/\ndef isoOodLik : Rat := {T.q_lean(T.const_value(v))}'
    o.const('isoOodLik', iso_lik)

    def iso_loglik():
        fn = T.find_func(leaf, 'Isotonic.log_likelihood')
        v = T.the(T.assignments(fn, 'lls[ood_mask]'), 'Isotonic.log_likelihood ood assignment')
        if not (isinstance(v, ast.Call) and (T.dotted_name(v.func) or '').split('.')[-1] == 'log' and len(v.args) == 1):
            raise U('Isotonic.log_likelihood ood value is not log(<constant>)')
        return ('/-- `Isotonic.log_likelihood`: the out-of-support value is `log` of this constant -/\n'
                f'def isoOodLogLikArg : Rat := {T.q_lean(T.const_value(v.args[0]))}')
    o.const('isoOodLogLikArg', iso_loglik)

    def ll_floor():
        fn = T.find_func(inference, 'node_log_likelihood')
        c = T.the(T.calls(fn, 'maximum'), 'np.maximum in node_log_likelihood')
        return f'/-- `node_log_likelihood`: floor applied to every log-value -/\ndef llFloor : Rat := {T.q_lean(T.const_value(c.args[1]))}'
    o.const('llFloor', ll_floor)

    # ---- C07: noise law of sum_sample -----------------------------------------------------------
    def gumbel():
        fn = T.find_func(sampling, 'sum_sample')
        v = T.the(T.assignments(fn, 'gumbel'), 'gumbel noise in sum_sample')
        nm = T.dotted_name(v.func) if isinstance(v, ast.Call) else None
        if not nm or not nm.endswith('.rvs'):
            raise U('sum_sample noise is not a scipy rvs call')
        law = nm.split('.')[-2]
        args = [T.const_value(a) for a in v.args[:2]]
        return ('/-- `sum_sample`: SciPy law of the additive noise, location, scale -/\n'
                f'def sumSampleNoise : String := "{law}"\n'
                f'def sumSampleNoiseLoc : Rat := {T.q_lean(args[0])}\n'
                f'def sumSampleNoiseScale : Rat := {T.q_lean(args[1])}')
    o.const('sumSampleNoise', gumbel)

    # ---- C19: derived statistics as functions of the raw moments -----------------------------------
    def moment_hook(tr, call):
        nm = T.dotted_name(call.func)
        if nm == 'moment':
            ks = [kw.value for kw in call.keywords if kw.arg == 'order'] or call.args[1:2]
            k = T.const_value(T.the(ks, 'moment order'))
            if k.denominator != 1 or not (1 <= k <= 4):
                raise U('moment order outside 1..4')
            return f'm{k.numerator}'
        if nm in ('expectation',):
            return 'm1'
        if nm in ('variance',):
            return '(variance m1 m2 m3 m4)'
        return None

    for name in ('variance', 'skewness', 'kurtosis'):
        def mk(name=name):
            fn = T.find_func(moments, name)
            tr = T.Tr(call_hook=moment_hook)
            body = tr.run(fn)
            if body is None:
                raise U(f'{name}: no return')
            needsE = 'E.' in body
            sig = '(m1 m2 m3 m4 : F)'
            return (f'/-- `moments.{name}` as a function of the raw moments -/\n'
                    f'def {name} {"" if not needsE else ""}{sig} : F := {body}')
        o.formula('moments.' + name, mk)

    # ---- C19 (driver): numerator and denominator base of the skewness quotient, as coded ----------
    def skew_parts():
        fn = T.find_func(moments, 'skewness')
        tr = T.Tr(call_hook=moment_hook)
        tr.run_stmts([s for s in fn.body if not isinstance(s, ast.Return)])
        r = T.the(T.returns(fn), 'skewness return')
        if not (isinstance(r, ast.BinOp) and isinstance(r.op, ast.Div) and isinstance(r.right, ast.BinOp)
                and isinstance(r.right.op, ast.Pow) and T.const_value(r.right.right) == T.Fraction(3, 2)):
            raise U('skewness is not <num> / <base> ** 1.5')
        return ['/-- `moments.skewness`: numerator of the returned quotient -/\n'
                f'def skewnessNum (m1 m2 m3 m4 : F) : F := {tr.tr(r.left)}',
                '/-- `moments.skewness`: base of the power `** 1.5` in the denominator -/\n'
                f'def skewnessDenBase (m1 m2 m3 m4 : F) : F := {tr.tr(r.right.left)}']
    o.formula('moments.skewness.parts', skew_parts)

    def moment_guard():
        fn = T.find_func(moments, 'moment')
        g = T.raise_guards(fn)
        if len(g) != 1:
            raise U('moment: expected one argument guard')
        return ('/-- `moments.moment`: the argument guard that raises -/\n'
                f'def momentRejects (order : F) : Prop := {T.cmp_guard(g[0], T.Tr(env={"order": "order"}))}')
    o.formula('moments.moment.guard', moment_guard)

    # ---- C14: per-entry EM updates ------------------------------------------------------------------
    node = T.parse_file(repo, 'deeprob/spn/structure/node.py')
    cltree = T.parse_file(repo, 'deeprob/spn/structure/cltree.py')
    em = T.parse_file(repo, 'deeprob/spn/learning/em.py')

    def em_formula(name, tree, qual, syms, outs, doc):
        """run `qual` symbolically under the element-wise reading `syms`; emit one def per (lean name, args, target)"""
        def mk():
            fn = T.find_func(tree, qual)
            tr = T.Tr(syms=syms, name_hook=lambda k: tr.env.get(k + '[i]'))
            tr.run(fn)
            res = []
            for lean_name, args, target in outs:
                body = tr.value_of(target, qual + ' ' + target)
                res.append(f'/-- `{qual}`: {doc} — `{target}` -/\ndef {lean_name} ({args} : F) : F := {body}')
            return res
        o.formula(name, mk)

    em_formula('Sum.em_step', node, 'Sum.em_step',
               {'self.weights': 'w', 'np.sum(stats, axis=1)': 's', 'np.sum(unnorm_weights)': 'Z', 'step_size': 'eta'},
               [('sumEmUnnorm', 'w s', 'unnorm_weights'), ('sumEmNew', 'eta w s Z', 'self.weights')],
               'entry of child i; w = old weight, s = Σ_rows stats[i], Z = Σ_j unnorm_weights[j]')
    em_formula('Bernoulli.em_step', leaf, 'Bernoulli.em_step',
               {'self.p': 'p', 'np.dot(stats, data)': 'S1', 'np.sum(stats)': 'T', 'step_size': 'eta'},
               [('bernEmReest', 'S1 T', 'p'), ('bernEmNew', 'eta p S1 T', 'self.p')],
               'S1 = Σ stats·data, T = Σ stats')
    em_formula('Categorical.em_step', leaf, 'Categorical.em_step',
               {'self.probabilities': 'p', 'np.sum(stats[data == d])': 'Sd', 'np.sum(stats)': 'T',
                'len(self.categories)': 'K', 'step_size': 'eta'},
               [('catEmReest', 'Sd T K', 'probabilities[i]'), ('catEmNew', 'eta p Sd T K', 'self.probabilities')],
               'entry of category d; Sd = Σ_{data = d} stats, T = Σ stats, K = number of categories')
    em_formula('Gaussian.em_step.mean', leaf, 'Gaussian.em_step',
               {'self.mean': 'mu', 'self.stddev': 'sigma', 'np.sum(stats)': 'T', 'np.sum(stats * data)': 'Sx',
                'np.sum(stats * (data - mean) ** 2.0)': 'V', 'step_size': 'eta'},
               [('gaussEmTotal', 'T', 'total_stats'), ('gaussEmMeanReest', 'Sx T', 'mean'),
                ('gaussEmMeanNew', 'eta mu Sx T', 'self.mean')],
               'Sx = Σ stats·data, T = Σ stats')
    em_formula('BinaryCLT.em_step', cltree, 'BinaryCLT.em_step',
               {'np.sum(stats)': 'T', 'priors_stats': 'P', 'conditional_stats': 'C', 'priors[self.tree]': 'Pp',
                'np.sum(weighted_features * data[:, self.tree], axis=0)': 'C1',
                'np.exp(self.params)': 'old', 'np.sum(params, axis=2, keepdims=True)': 'Z', 'step_size': 'eta',
                'np.empty_like(self.params)': 'q'},
               [('cltEmPrior1', 'P T', 'priors[:,1]'), ('cltEmPrior0', 'P T', 'priors[:,0]'),
                ('cltEmCond1', 'C1', 'conditional_stats[:,1]'), ('cltEmCond0', 'P C1', 'conditional_stats[:,0]'),
                ('cltEmCell1', 'C T Pp', 'params[:,:,1]'), ('cltEmCell0', 'C T Pp', 'params[:,:,0]'),
                ('cltEmNew', 'eta old q Z', 'params')],
               'per CPT entry; P = Σ stats·x_i, C1 = Σ stats·x_i·x_pa(i), C = conditional_stats[i,b], '
               'Pp = priors[pa(i)][b], old = exp(self.params) entry, q = re-estimated entry, Z = row sum after mixing')

    # Gaussian standard deviation: whole formula (needs sqrt) and its two sqrt-free halves
    def gauss_std():
        fn = T.find_func(leaf, 'Gaussian.em_step')
        syms = {'self.mean': 'mu', 'self.stddev': 'sigma', 'np.sum(stats)': 'T', 'np.sum(stats * data)': 'Sx',
                'np.sum(stats * (data - mean) ** 2.0)': 'V', 'step_size': 'eta'}
        tr = T.Tr(syms=syms); tr.run(fn)
        whole = tr.value_of('self.stddev')
        sq = T.the(T.calls(fn, 'sqrt'), 'sqrt in Gaussian.em_step')
        arg = None
        # argument of the square root, with the names bound as they are at that statement
        tr3 = T.Tr(syms=syms)
        for s in fn.body:
            if any(c is sq for c in ast.walk(s)):
                arg = tr3.tr(sq.args[0]); break
            tr3.run_stmts([s])
        if arg is None:
            raise U('sqrt statement not found')
        tr4 = T.Tr(syms=dict(syms, **{ast.unparse(sq): 'r'})); tr4.run(fn)
        rest = tr4.value_of('self.stddev')
        return ['/-- `Gaussian.em_step`: new standard deviation; V = Σ stats·(data − mean)², T = Σ stats -/\n'
                f'def gaussEmStdNew (eta sigma V T : F) : F := {whole}',
                '/-- `Gaussian.em_step`: the argument of `np.sqrt` -/\n'
                f'def gaussEmStdArg (V T : F) : F := {arg}',
                '/-- `Gaussian.em_step`: new standard deviation as a function of the square root `r` -/\n'
                f'def gaussEmStdOf (eta sigma r : F) : F := {rest}']
    o.formula('Gaussian.em_step.stddev', gauss_std)

    # ---- C14: argument guards of expectation_maximization ----------------------------------------------
    def em_guards():
        fn = T.find_func(em, 'expectation_maximization')
        g = T.raise_guards(fn)
        tr = T.Tr(env={'num_iter': 'numIter', 'batch_perc': 'batchPerc', 'step_size': 'eta'})
        gs = [T.cmp_guard(x, tr) for x in g]
        if len(gs) != 3:
            raise U('expectation_maximization: expected three argument guards')
        return ('/-- `expectation_maximization`: the call is rejected iff one of these holds -/\n'
                f'def emRejects (numIter batchPerc eta : F) : Prop := {" ∨ ".join(gs)}')
    o.formula('em.guards', em_guards)

    # ---- C13: constructor guards and fit / EM clamps ---------------------------------------------------
    def gauss_ctor():
        fn = T.find_func(leaf, 'Gaussian.__init__')
        g = T.the(T.raise_guards(fn), 'Gaussian.__init__ guard')
        return ('/-- `Gaussian.__init__` raises iff -/\n'
                f'def gaussCtorRejects (stddev : F) : Prop := {T.cmp_guard(g, T.Tr(env={"stddev": "stddev"}))}')
    o.formula('Gaussian.__init__', gauss_ctor)

    def gauss_fit_clamp():
        fn = T.find_func(leaf, 'Gaussian.fit')
        v = T.assignments(fn, 'self.stddev')[-1]
        return ('/-- `Gaussian.fit`: the stored standard deviation as a function of the estimate -/\n'
                f'def gaussFitClamp (s : F) : F := {T.Tr(env={"self.stddev": "s"}).tr(v)}')
    o.formula('Gaussian.fit.clamp', gauss_fit_clamp)

    def gauss_em_clamp():
        fn = T.find_func(leaf, 'Gaussian.em_step')
        v = T.assignments(fn, 'stddev')[-1]
        return ('/-- `Gaussian.em_step`: the clamp applied to the re-estimated standard deviation -/\n'
                f'def gaussEmClamp (s : F) : F := {T.Tr(env={"stddev": "s"}).tr(v)}')
    o.formula('Gaussian.em_step.clamp', gauss_em_clamp)

    def bern_ctor():
        fn = T.find_func(leaf, 'Bernoulli.__init__')
        g = T.the(T.raise_guards(fn), 'Bernoulli.__init__ guard')
        return ('/-- `Bernoulli.__init__` raises iff -/\n'
                f'def bernCtorRejects (p : F) : Prop := {T.cmp_guard(g, T.Tr(env={"p": "p"}))}')
    o.formula('Bernoulli.__init__', bern_ctor)

    def bern_fit():
        fn = T.find_func(leaf, 'Bernoulli.fit')
        v = T.the(T.assignments(fn, 'self.p'), 'Bernoulli.fit p')
        tr = T.Tr(syms={'np.sum(data)': 'n1', 'len(data)': 'n', 'alpha': 'alpha'})
        return ('/-- `Bernoulli.fit`: Laplace-smoothed estimate; n1 = number of ones, n = number of rows -/\n'
                f'def bernFit (n1 n alpha : F) : F := {tr.tr(v)}')
    o.formula('Bernoulli.fit', bern_fit)

    def cat_fit():
        fn = T.find_func(leaf, 'Categorical.fit')
        v = T.the(T.assignments(fn, 'self.probabilities[i]'), 'Categorical.fit probabilities[i]')
        tr = T.Tr(syms={'len(data[data == d])': 'nd', 'len(data)': 'n', 'len(domain)': 'K', 'alpha': 'alpha'})
        return ('/-- `Categorical.fit`: Laplace-smoothed estimate of one category -/\n'
                f'def catFit (nd n K alpha : F) : F := {tr.tr(v)}')
    o.formula('Categorical.fit', cat_fit)

    def sum_guard(name, tree, qual, arg, lean):
        def mk():
            fn = T.find_func(tree, qual)
            gs = [g for g in T.raise_guards(fn) if 'isclose' in ast.unparse(g)]
            g = T.the(gs, qual + ' isclose guard')
            tr = T.Tr(syms={f'np.sum({arg})': 'total'})
            return (f'/-- `{qual}` raises iff (total = Σ {arg}) -/\n'
                    f'def {lean} (total : F) : Prop := {T.cmp_guard(g, tr)}')
        o.formula(name, mk)
    sum_guard('Sum.__init__', node, 'Sum.__init__', 'weights', 'sumCtorRejects')
    sum_guard('Categorical.__init__', leaf, 'Categorical.__init__', 'probabilities', 'catCtorRejects')
    sum_guard('Isotonic.__init__', leaf, 'Isotonic.__init__', 'densities', 'isoCtorRejects')

    # ---- C13: rounding digits of the JSON writer ----------------------------------------------------------
    io = T.parse_file(repo, 'deeprob/spn/structure/io.py')
    def json_digits():
        ds = set()
        for q in ('spn_to_digraph', 'binary_clt_to_digraph'):
            fn = T.find_func(io, q)
            for c in T.calls(fn, 'round') + T.calls(fn, 'around'):
                if len(c.args) == 2:
                    ds.add(T.const_value(c.args[1]))
                else:
                    raise U('rounding call without digits in ' + q)
        d = T.the(sorted(ds), 'rounding digits of the JSON writer')
        return f'/-- `io.spn_to_digraph` / `binary_clt_to_digraph`: decimals kept by every `round` / `np.around` -/\ndef jsonDigits : Nat := {d.numerator}'
    o.const('jsonDigits', json_digits)

    # ---- C05: re-queue discipline of LearnSPN's single-slice branches ----------------------------------
    def requeue():
        learnspn = T.parse_file(repo, 'deeprob/spn/learning/learnspn.py')
        fn = T.find_func(learnspn, 'learn_spn')
        found = []
        for st in T.walk_stmts(fn):
            if isinstance(st, ast.If) and 'len(slices)==1' in ast.unparse(st.test).replace(' ', ''):
                calls = [c for b in st.body for c in ast.walk(b) if isinstance(c, ast.Call) and (T.dotted_name(c.func) or '').startswith('tasks.')]
                names = [T.dotted_name(c.func).split('.')[-1] for c in calls]
                if len(names) != 1 or names[0] not in ('append', 'appendleft'):
                    raise U('single-slice branch does not re-queue with tasks.append / tasks.appendleft')
                found.append(names[0])
        if len(found) != 2:
            raise U(f'expected two single-slice branches in learn_spn, found {len(found)}')
        front = all(n == 'appendleft' for n in found)
        mixed = len(set(found)) > 1
        return ('/-- `learn_spn`: a task whose split returned a single slice is re-queued at the FRONT of the deque '
                '(`appendleft`) in both single-slice branches -/\n'
                f'def learnRequeueFront : Bool := {"true" if front else "false"}\n'
                f'def learnRequeueMixed : Bool := {"true" if mixed else "false"}')
    o.const('learnspn.requeue', requeue)
