#!/usr/bin/env python3
"""Print the markdown table of DESIGN.md §12 from seeded/*/meta.json and seeded/RESULTS.json."""
import json, os, glob
V = os.path.dirname(os.path.dirname(os.path.abspath(__file__)))
res = json.load(open(os.path.join(V, 'seeded', 'RESULTS.json')))
notes = json.load(open(os.path.join(V, 'seeded', 'NOTES.json'))) if os.path.exists(os.path.join(V, 'seeded', 'NOTES.json')) else {}
print('| id | prop | change (file) | needs to manifest | detected by | replay |')
print('|---|---|---|---|---|---|')
for d in sorted(glob.glob(os.path.join(V, 'seeded', '*', 'meta.json'))):
    m = json.load(open(d))
    sid = m['id']
    r = res.get(sid, {})
    chk = r.get('checks', {}).get(m['property'], {})
    lines = [l for l in chk.get('lines', []) if l.startswith('#')]
    viol = [l for l in chk.get('lines', []) if l.startswith('VIOLATION')]
    what = (lines[0][2:150] if lines else '').replace('|', '/').replace('\n', ' ')
    kind = 'concrete input' if viol and 'no-failing-input-found' not in viol[0] else ('broken proof / correspondence (no-failing-input-found)' if viol else 'MISSED')
    f = (m['files'][0].split('|')[0].strip() if m.get('files') else '')
    n = notes.get(sid, {})
    print(f"| {sid} | {m['property']} | {n.get('change', f)} | {n.get('needs', '')} | {m['property']} quick: {what} | {kind} |")
