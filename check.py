#!/usr/bin/env python3
"""Entry point of every registered check.

  /venv/bin/python check.py Cxx --tier quick|thorough        decide property Cxx on /repo's working tree
  /venv/bin/python check.py Cxx --replay FILE                 re-execute a recorded failing input against /repo
  /venv/bin/python check.py --setup                           build the Lean project from clean (MANIFEST.setup_cmd)

exit 0 = held on everything explored; exit 1 + "VIOLATION property=<id> replay=<path>"; exit 2 = infrastructure.
"""
import os, sys, json, argparse, importlib, traceback, time

HERE = os.path.dirname(os.path.abspath(__file__))
sys.path.insert(0, HERE)
os.environ.setdefault('DEEPROB_KIT_VERIF', '1')
os.environ.setdefault('OMP_NUM_THREADS', '1')
os.environ.setdefault('MKL_NUM_THREADS', '1')
os.environ.setdefault('OPENBLAS_NUM_THREADS', '1')
sys.path.insert(0, os.path.join(HERE, 'hooks'))
import warnings
warnings.filterwarnings('ignore')

from harness import common
from harness.common import Infra, Ctx


def setup():
    with common.BuildLock():
        errs = common.regenerate()
        rc, out = common.lake_build([])
    print(out[-3000:])
    if errs:
        print('translator could not translate:', errs)
    # a failing proof module on the unchanged tree is reported by the checks themselves; setup only needs the driver
    exe = os.path.join(common.LEAN, '.lake', 'build', 'bin', 'driver')
    if not os.path.exists(exe):
        print('driver not built')
        return 2
    return 0


def main():
    ap = argparse.ArgumentParser()
    ap.add_argument('prop', nargs='?')
    ap.add_argument('--tier', default=os.environ.get('VERIF_TIER', 'quick'))
    ap.add_argument('--replay')
    ap.add_argument('--setup', action='store_true')
    ap.add_argument('--no-build', action='store_true')
    a = ap.parse_args()
    if a.setup:
        sys.exit(setup())
    from harness import registry
    prop = a.prop
    if prop not in registry.PROPS:
        print(f'unknown or unclaimed property {prop}')
        sys.exit(2)
    R = registry.PROPS[prop]
    seed = int(os.environ.get('VERIF_SEED', '0'))
    tier = a.tier if a.tier in ('quick', 'thorough') else 'quick'
    mod = importlib.import_module('harness.' + R['module'])
    if a.replay:
        rep = json.load(open(a.replay))
        ok = mod.replay(rep)
        print('replay:', 'property holds on this input now' if ok else 'STILL FAILS')
        sys.exit(0 if ok else 1)
    ctx = Ctx(prop, tier, seed)
    ctx.driver_ok = True
    ctx.no_build = bool(a.no_build)
    axioms = {}
    try:
        if not a.no_build:
            with common.BuildLock():
                errs = common.regenerate()
                targets = ['driver'] + ['+' + m for m in R['modules']]
                rc, out = common.lake_build(targets)
            for frag in R.get('fragments', []):
                if frag in errs:
                    ctx.broken(f'translator:{frag}', errs[frag])
            if rc != 0:
                failed = common.failed_modules(out)
                exe = os.path.join(common.LEAN, '.lake', 'build', 'bin', 'driver')
                drv_failed = [m for m in failed if m.startswith('Driver') or '.Model.' in m or m == 'driver' or '.Generated.Consts' in m]
                if drv_failed or not os.path.exists(exe):
                    ctx.driver_ok = False
                    ctx.broken('model-driver-build', out[-3000:])
                for m in failed:
                    if m not in drv_failed:
                        ctx.broken(f'lean-module:{m}', out[-3000:])
                if not failed:
                    raise Infra('lake build failed without a failing module:\n' + out[-2000:])
            bad = common.grep_forbidden()
            for h in bad:
                ctx.broken('forbidden-token', h)
            if rc == 0:
                axioms, problems = common.audit_axioms(prop, R['theorems'], R['modules'])
                for p in problems:
                    ctx.broken('axiom-audit', p)
                for t in R['theorems']:
                    ctx.obligations.append((t, t in axioms and not (set(axioms[t]) - common.ALLOWED_AXIOMS)))
                if tier == 'thorough':
                    # independent re-check of the compiled proof modules by the toolchain's stand-alone kernel re-checker
                    rc2, out2 = common._sh(['lake', 'env', 'leanchecker'] + list(R['modules']), cwd=common.LEAN, timeout=3000)
                    ctx.extra['leanchecker'] = dict(modules=len(R['modules']), rc=rc2)
                    if rc2 != 0:
                        ctx.broken('leanchecker', out2[-3000:])
            else:
                for t in R['theorems']:
                    ctx.obligations.append((t, False))
        try:
            mod.run(ctx)
        except (Infra, SystemExit):
            raise
        except Exception:
            # a crash of the harness after it has already recorded a violation with a concrete input (typically: the changed
            # code returned garbage that a later stream could not digest) must not hide that violation
            # ... and a crash with nothing recorded means that the implementation produced something the correspondence cannot
            # digest any more (on the unchanged tree no stream crashes, over all seeds tried): the correspondence no longer checks.
            # Infrastructure failures (build, driver, time limits) are `Infra` and stay exit 2.
            tb = traceback.format_exc()
            traceback.print_exc()
            if any(v.get('found_input') for v in ctx.violations):
                ctx.extra['harness_crash_after_violation'] = tb[-1500:]
            else:
                ctx.broken('correspondence:harness-could-not-digest-implementation-output', tb[-2500:])
        rc = common.finish(ctx, R['theorems'], axioms,
                           checker_cmd='lake build ' + ' '.join('+' + m for m in R['modules']) + ' && lake env lean <#print axioms of the registered theorems>',
                           rule=R.get('rule', ''), exhaustive=ctx.extra.pop('exhaustive', False))
        sys.exit(rc)
    except Infra as ex:
        print(f'INFRASTRUCTURE-ERROR property={prop}: {ex}')
        sys.exit(2)
    except SystemExit:
        raise
    except Exception:
        traceback.print_exc()
        print(f'INFRASTRUCTURE-ERROR property={prop}: harness crashed')
        sys.exit(2)


if __name__ == '__main__':
    main()
