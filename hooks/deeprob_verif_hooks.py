"""Verification hooks for deeprob/spn/algorithms/evaluation.py (active only with DEEPROB_KIT_VERIF=1 and only while a
recorder is installed by the harness). Records, per task of the layer-wise passes: layer, node id, thread, the accesses to the
shared arrays (`ls`, `masks`, `x`) with their row / cell footprint, and whether the shared lock was held."""
import threading
import numpy as np

_state = threading.local()
_rec_lock = threading.Lock()
RECORDER = None          # set by the harness: a Recorder instance, or None (hooks then cost one attribute test)
WIDEN = 0.0              # failing-input search only: seconds to pause between the read half and the write half of an
                         # UNLOCKED read-modify-write of a mask row (the row is read into a private copy, as the element loop of
                         # `|=` does element by element); every lost update seen this way is an interleaving the real code admits


class NullRecorder:
    """keeps the hooks active (traced arrays, WIDEN) without storing events"""
    layer = -1

    def __init__(self):
        self.layers = []

    def add(self, **kw):
        pass


class Recorder:
    def __init__(self):
        self.events = []        # dicts
        self.layer = -1
        self.layers = []        # node ids per layer, in call order

    def add(self, **kw):
        with _rec_lock:
            kw['seq'] = len(self.events)
            self.events.append(kw)


def active():
    return RECORDER is not None


def layer_begin(layer):
    r = RECORDER
    if r is None:
        return
    with _rec_lock:
        r.layer += 1
        r.layers.append([int(getattr(n, 'id', -1)) for n in layer])


def task_begin(node):
    r = RECORDER
    if r is None:
        return
    _state.task = int(getattr(node, 'id', -1))
    _state.layer = r.layer
    r.add(kind='task_begin', task=_state.task, layer=r.layer, thread=threading.get_ident())


def task_end(node):
    r = RECORDER
    if r is None:
        return
    r.add(kind='task_end', task=int(getattr(node, 'id', -1)), layer=getattr(_state, 'layer', -1), thread=threading.get_ident())
    _state.task = None


def _footprint(name, key, arr):
    """rows (for ls / masks) or cells (for x) touched by an index expression"""
    if name in ('ls', 'masks'):
        if isinstance(key, (int, np.integer)):
            return dict(rows=[int(key)])
        if isinstance(key, tuple) and key and isinstance(key[0], (int, np.integer)):
            return dict(rows=[int(key[0])])
        if isinstance(key, (list, np.ndarray)):
            return dict(rows=[int(k) for k in np.asarray(key).reshape(-1)])
        return dict(rows=list(range(arr.shape[0])))
    # x: np.ix_(row mask, scope) or [:, scope]
    if isinstance(key, tuple) and len(key) == 2:
        r, c = key
        rows = np.arange(arr.shape[0])[r.reshape(-1)] if isinstance(r, np.ndarray) and r.dtype == np.bool_ else \
            (np.asarray(r).reshape(-1) if not isinstance(r, slice) else np.arange(arr.shape[0])[r])
        cols = np.asarray(c).reshape(-1) if not isinstance(c, slice) else np.arange(arr.shape[1])[c]
        return dict(cells_rows=[int(v) for v in rows], cells_cols=[int(v) for v in cols])
    if isinstance(key, np.ndarray) and key.ndim == 1:
        # x[row mask] / x[row indices]: whole rows
        rows = np.arange(arr.shape[0])[key] if key.dtype == np.bool_ else np.asarray(key).reshape(-1)
        return dict(cells_rows=[int(v) for v in rows], cells_cols=list(range(arr.shape[1])))
    return dict(cells_rows=list(range(arr.shape[0])), cells_cols=list(range(arr.shape[1])))


class Traced(np.ndarray):
    """ndarray view that logs reads and writes made through indexing"""
    _verif_name = None

    def __array_finalize__(self, obj):
        self._verif_name = None          # derived arrays / views are not traced

    def __getitem__(self, key):
        name = self._verif_name
        out = np.ndarray.__getitem__(self, key)
        r = RECORDER
        if name is not None and r is not None:
            r.add(kind='read', array=name, task=getattr(_state, 'task', None), layer=getattr(_state, 'layer', -1),
                  thread=threading.get_ident(), locked=bool(getattr(_state, 'locked', 0)), **_footprint(name, key, self))
        if isinstance(out, np.ndarray):
            out = out.view(np.ndarray)
            if WIDEN and name in ('masks', 'x') and r is not None and not getattr(_state, 'locked', 0) and getattr(_state, 'task', None) is not None:
                out = out.copy()          # (a fancy-indexed read of x is a copy already)
                import time
                time.sleep(WIDEN)
        return out

    def __setitem__(self, key, value):
        name = self._verif_name
        r = RECORDER
        if name is not None and r is not None:
            r.add(kind='write', array=name, task=getattr(_state, 'task', None), layer=getattr(_state, 'layer', -1),
                  thread=threading.get_ident(), locked=bool(getattr(_state, 'locked', 0)), **_footprint(name, key, self))
        # assign through a base-class view: ndarray.__setitem__ on a subclass instance would call our __getitem__ again
        np.ndarray.__setitem__(self.view(np.ndarray), key, value)


def trace_array(name, arr):
    if RECORDER is None:
        return arr
    t = arr.view(Traced)
    t._verif_name = name
    return t


def untrace(arr):
    if isinstance(arr, Traced):
        return arr.view(np.ndarray)
    return arr


class TracedLock:
    def __init__(self, lock):
        self._lock = lock

    def __enter__(self):
        self._lock.acquire()
        _state.locked = getattr(_state, 'locked', 0) + 1
        r = RECORDER
        if r is not None:
            r.add(kind='acquire', task=getattr(_state, 'task', None), layer=getattr(_state, 'layer', -1), thread=threading.get_ident())
        return self

    def __exit__(self, *a):
        r = RECORDER
        if r is not None:
            r.add(kind='release', task=getattr(_state, 'task', None), layer=getattr(_state, 'layer', -1), thread=threading.get_ident())
        _state.locked = getattr(_state, 'locked', 1) - 1
        self._lock.release()
        return False

    def acquire(self, *a, **k):
        ok = self._lock.acquire(*a, **k)
        if ok:
            _state.locked = getattr(_state, 'locked', 0) + 1
        return ok

    def release(self):
        _state.locked = getattr(_state, 'locked', 1) - 1
        self._lock.release()


def trace_lock(lock):
    if RECORDER is None:
        return lock
    return TracedLock(lock)
