#!/venv/bin/python
"""
C11 demo / correspondence run: real `BinaryCLT(...).fit(...)` on ~60 small binary data sets, observations
shipped (exact rationals) to the Lean driver op `fitcheck`, answers printed and summarised.

run:  PYTHONPATH=/repo /venv/bin/python /root/work/c11/demo_fit.py
"""
import json, os, subprocess, sys, math, itertools
from fractions import Fraction
import numpy as np

sys.path.insert(0, __import__('os').environ.get('DEEPROB_REPO', '/repo'))
import deeprob.spn.structure.cltree as cltree
from deeprob.spn.structure.cltree import BinaryCLT

LEAN = '/root/work/c11/lean'

# ---- capture the MI matrix the implementation hands to `maximum_spanning_tree` --------------------------
_captured = {}
_orig_mst = cltree.maximum_spanning_tree
def _spy_mst(root, adj_matrix):
    _captured['mi'] = np.array(adj_matrix, copy=True)
    _captured['w'] = np.array(adj_matrix + 1.0, copy=True)     # what is negated and given to SciPy
    return _orig_mst(root, adj_matrix)
cltree.maximum_spanning_tree = _spy_mst


def frac(x):
    n, d = float(x).as_integer_ratio()
    return f"{n}/{d}"


def mi_float64(data, alpha):
    """independent double-precision MI from the exact smoothed estimates (Fractions -> float64)"""
    X = np.asarray(data, dtype=np.int64)
    n, k = X.shape
    al = Fraction(alpha)
    D = n + 4 * al
    c = X.T @ X
    mi = np.zeros((k, k))
    for i in range(k):
        for j in range(k):
            if i == j:
                continue
            ci, cj, cij = int(c[i, i]), int(c[j, j]), int(c[i, j])
            cells = {(0, 0): n - ci - cj + cij, (0, 1): cj - cij, (1, 0): ci - cij, (1, 1): cij}
            pi = {1: (ci + 2 * al) / D, 0: 1 - (ci + 2 * al) / D}
            pj = {1: (cj + 2 * al) / D, 0: 1 - (cj + 2 * al) / D}
            s = 0.0
            for (a, b), v in cells.items():
                J = (v + al) / D
                s += float(J) * (math.log(float(J)) - math.log(float(pi[a] * pj[b])))
            mi[i, j] = s
    return mi


def make_cases():
    rng = np.random.RandomState(20260929)
    cases = []

    def add(name, data, alpha, root_mode, shuffle=False):
        cases.append(dict(name=name, data=np.asarray(data, dtype=np.int64), alpha=alpha,
                          root_mode=root_mode, shuffle=shuffle))

    alphas = [1e-3, 0.01, 0.1, 1.0]
    # random matrices 1..7 variables x 1..40 rows
    k = 0
    for nv in range(1, 8):
        for nr in (1, 2, 5, 13, 40):
            X = rng.randint(0, 2, size=(nr, nv))
            al = alphas[k % 4]
            mode = ('explicit', rng.randint(nv)) if k % 3 else ('random', int(rng.randint(1000)))
            add(f"rand{nv}x{nr}", X, al, mode, shuffle=(k % 2 == 1))
            k += 1
    # constant columns
    X = rng.randint(0, 2, size=(12, 5)); X[:, 1] = 0; X[:, 3] = 1
    add("const-cols", X, 0.1, ('explicit', 1))
    add("const-cols-rootrand", X, 0.01, ('random', 7), shuffle=True)
    add("all-zero", np.zeros((6, 4), dtype=int), 0.1, ('explicit', 2))
    add("all-one", np.ones((6, 4), dtype=int), 1.0, ('explicit', 0))
    # duplicated columns (exact MI ties)
    X = rng.randint(0, 2, size=(20, 6)); X[:, 2] = X[:, 0]; X[:, 5] = X[:, 0]; X[:, 4] = 1 - X[:, 1]
    for al in alphas:
        add(f"dup-cols-a{al}", X, al, ('explicit', 3), shuffle=(al == 0.01))
    X = rng.randint(0, 2, size=(9, 7)); X[:, 1:] = X[:, :1]
    add("all-dup", X, 0.1, ('explicit', 6))
    # fewer rows than variables
    for nr, nv in ((1, 7), (2, 6), (3, 7), (2, 3)):
        add(f"wide{nr}x{nv}", rng.randint(0, 2, size=(nr, nv)), alphas[(nr + nv) % 4], ('random', nr * nv), shuffle=True)
    # skewed data, 7 variables chain-like dependence
    X = np.zeros((40, 7), dtype=int); X[:, 0] = rng.randint(0, 2, size=40)
    for j in range(1, 7):
        flip = rng.rand(40) < 0.15
        X[:, j] = np.where(flip, 1 - X[:, j - 1], X[:, j - 1])
    for r in (0, 3, 6):
        add(f"chain-root{r}", X, 0.01, ('explicit', r), shuffle=(r == 3))
    # identical rows, two variables, odd row counts
    add("same-rows", np.tile(np.array([[1, 0, 1, 1, 0]]), (8, 1)), 0.1, ('random', 11))
    add("two-vars", rng.randint(0, 2, size=(7, 2)), 0.01, ('explicit', 1), shuffle=True)
    for nr, nv in ((3, 4), (8, 5), (21, 6), (33, 7), (17, 3)):
        add(f"extra{nv}x{nr}", rng.randint(0, 2, size=(nr, nv)), alphas[(nr * nv) % 4], ('random', nr + nv),
            shuffle=(nr % 2 == 0))
    # sparse ones
    X = (rng.rand(30, 6) < 0.1).astype(int)
    add("sparse", X, 1e-3, ('explicit', 5))
    add("sparse-a1", X, 1.0, ('random', 3))
    return cases


def run_case(c):
    data = c['data']
    nr, nv = data.shape
    rng = np.random.RandomState(nv * 100 + nr)
    scope = list(range(nv))
    if c['shuffle']:
        scope = [int(v) for v in rng.permutation(50)[:nv]]
    mode, arg = c['root_mode']
    if mode == 'explicit':
        clt = BinaryCLT(scope, root=scope[arg])
        clt.fit(data, [[0, 1]] * nv, alpha=c['alpha'])
        assert clt.root == arg, "explicit root must be kept"
    else:
        clt = BinaryCLT(scope)
        clt.fit(data, [[0, 1]] * nv, alpha=c['alpha'], random_state=arg)
        assert 0 <= clt.root < nv, "random root must be an in-scope index"
    params = np.exp(clt.params.astype(np.float64))
    op = {
        "op": "fitcheck",
        "data": data.tolist(),
        "alpha": frac(c['alpha']),
        "pred": [int(t) for t in clt.tree],
        "root": int(clt.root),
        "params": [[[frac(params[i, l, k]) for k in range(2)] for l in range(2)] for i in range(nv)],
        "mi": [[frac(v) for v in row] for row in _captured['mi']],
        "w": [[frac(v) for v in row] for row in _captured['w']],
        "tol": "1/1000000",
    }
    mi64 = mi_float64(data, c['alpha'])
    midev = float(np.max(np.abs(mi64 - _captured['mi'].astype(np.float64)))) if nv > 1 else 0.0
    info = dict(scope=scope, root=int(clt.root), tree=op["pred"], bfs=[int(b) for b in clt.bfs], midev=midev,
                bfs0_is_root=(int(clt.bfs[0]) == int(clt.root)))
    return op, info


def ensure_driver():
    olean = os.path.join(LEAN, '.lake/build/lib/lean/Driver/OpsFit.olean')
    src = os.path.join(LEAN, 'Driver/OpsFit.lean')
    if (not os.path.exists(olean)) or os.path.getmtime(olean) < os.path.getmtime(src):
        os.makedirs(os.path.dirname(olean), exist_ok=True)
        subprocess.run(['lake', 'build', 'DeeprobModel.Model.CltFit', 'Driver.Proto'], cwd=LEAN, check=True,
                       stdout=subprocess.DEVNULL)
        subprocess.run(['lake', 'env', 'lean', 'Driver/OpsFit.lean', '-o', olean], cwd=LEAN, check=True)


def main():
    ensure_driver()
    cases = make_cases()
    ops, infos = [], []
    for c in cases:
        op, info = run_case(c)
        ops.append(op); infos.append(info)
    inp = "\n".join(json.dumps(o) for o in ops) + "\n"
    res = subprocess.run(['lake', 'env', 'lean', '--run', 'Driver/FitMain.lean'], cwd=LEAN, input=inp,
                         capture_output=True, text=True)
    if res.returncode != 0:
        print(res.stdout); print(res.stderr); sys.exit(2)
    lines = res.stdout.strip().split("\n")
    assert len(lines) == len(ops), (len(lines), len(ops))
    bad = 0; asym = 0; negmargin = 0
    worst = dict(cptdev=0.0, margin=0.0, gap=0.0, midev=0.0, implrowdev=0.0)
    for c, info, line in zip(cases, infos, lines):
        print(f"[{c['name']}] n={c['data'].shape[1]} rows={c['data'].shape[0]} alpha={c['alpha']} "
              f"root_mode={c['root_mode'][0]} scope={info['scope']} root={info['root']} tree={info['tree']} "
              f"bfs={info['bfs']} mi_vs_float64={info['midev']:.2e}")
        print("    " + line)
        if line.startswith("bad-op"):
            bad += 1; continue
        kv = dict(t.split("=", 1) for t in line.split())
        f = lambda s: float(Fraction(s))
        ok = (kv['binary'] == 'true' and kv['tree'] == 'true' and kv['cltTree'] == 'true' and kv['root'] == 'true'
              and kv['rowsum'] == 'true' and kv['norm'] == '1/1'
              and f(kv['cptdev']) <= 1e-5 and kv['cycleOKtol'] == 'true'
              and kv['cycleOKw'] == 'true' and info['bfs0_is_root'] and info['midev'] <= 1e-5)
        if kv['brute'] not in ('skipped', 'none'):
            ok = ok and f(kv['gap']) <= 1e-5 and f(kv['gap']) >= 0 and kv['gapw'] == '0/1'
            worst['gap'] = max(worst['gap'], f(kv['gap']))
        worst['cptdev'] = max(worst['cptdev'], f(kv['cptdev']))
        worst['implrowdev'] = max(worst['implrowdev'], f(kv['implrowdev']))
        worst['midev'] = max(worst['midev'], info['midev'])
        if kv['margin'] != 'none':
            worst['margin'] = min(worst['margin'], f(kv['margin']))
        asym += (kv['misym'] != 'true')
        negmargin += (kv['cycleOK'] != 'true')
        if not ok:
            bad += 1
            print("    ^^^ INCONSISTENT")
    print(f"\n{len(cases)} cases, {bad} inconsistent; {asym} with a float32 MI matrix that is not exactly symmetric; "
          f"{negmargin} where cycleOK on the float32 MI matrix fails by a sub-1e-6 margin "
          f"(always exact on the float32(MI+1) weights handed to SciPy)")
    print("worst: max |cpt - exact smoothed conditional| = %.3e, max |impl row sum - 1| = %.3e, "
          "most negative cycle margin on the float32 MI matrix = %.3e, max (brute - tree) MI total = %.3e, "
          "max |MI32 - MI64| = %.3e" % (worst['cptdev'], worst['implrowdev'], worst['margin'], worst['gap'],
                                        worst['midev']))
    sys.exit(1 if bad else 0)


if __name__ == '__main__':
    main()
