#!/usr/bin/env python
"""
Differential demo for C16 / C17: real deeprob-kit objects vs. the Lean model (Driver/OpsTensor.lean).

  PYTHONPATH=/repo /venv/bin/python /root/work/tensor/demo_tensor.py

RAT-SPN: features 2..12, every admissible depth, repetitions 1..3, random seeds. The permutations that
`RegionGraph.random_layers` actually drew are recorded (sub-classed RandomState) and handed to the model.
DGC-SPN: sides 2..12, every pooling count accepted by the constructor, several depthwise settings;
empirical cell scopes are found by perturbing one pixel's base log-density.
"""
import json
import math
import os
import re
import subprocess
import sys
import inspect

import numpy as np
import torch

from deeprob.spn.models.ratspn import BernoulliRatSpn
from deeprob.spn.models.dgcspn import DgcSpn
from deeprob.spn.layers.dgcspn import SpatialProductLayer, SpatialSumLayer
from deeprob.spn.layers.ratspn import RegionGraphLayer

torch.set_num_threads(1)
LEAN_DIR = os.environ.get('TENSOR_LEAN_DIR', '/root/work/tensor/lean')


class RecState(np.random.RandomState):
    """RandomState that records every permutation it hands out."""
    def __init__(self, seed):
        super().__init__(seed)
        self.draws = []

    def permutation(self, x):
        out = super().permutation(x)
        self.draws.append([int(v) for v in out])
        return out


def region_str(r):
    return ','.join(str(int(v)) for v in r)


def nats(l):
    return ' '.join(str(int(v)) for v in l)


# ---------------------------------------------------------------------------------------- RAT-SPN
def rat_case(n, d, reps, seed):
    rs = RecState(seed)
    model = BernoulliRatSpn(n, rg_depth=d, rg_repetitions=reps, rg_batch=2, rg_sum=2, random_state=rs)
    per_rep = 2 ** d - 1
    assert len(rs.draws) == reps * per_rep, (len(rs.draws), reps, per_rep)
    draws = [rs.draws[t * per_rep:(t + 1) * per_rep] for t in range(reps)]
    # one permutation of all the features per repetition: concatenation of the last level's draws
    perms = [sum(dr[per_rep - 2 ** (d - 1):], []) for dr in draws]
    layers = list(reversed(model.rg_layers))
    txt_layers = []
    for h, layer in enumerate(layers):
        if h % 2 == 0:
            txt_layers.append(' '.join(region_str(r) for r in layer))
        else:
            txt_layers.append(' '.join(region_str(p0) + ';' + region_str(p1) for (p0, p1) in layer))
    regions_txt = ' | '.join(txt_layers)

    bl = model.base_layer
    pad = int(bl.pad)
    mask = bl.mask.reshape(-1).tolist()
    inv_mask = bl.inv_mask
    rows = inv_mask.shape[0]
    if pad > 0:
        pm = nats(bl.pad_mask.reshape(-1).int().tolist())
        ipm = nats(bl.inv_pad_mask.reshape(-1).int().tolist())
    else:
        pm = ipm = 'none'
    ratpad_txt = 'pad=%d dim=%d rows=%d mask=%s pad_mask=%s inv_mask=%s inv_pad_mask=%s' % (
        pad, bl.dimension, rows, nats(mask), pm, nats(inv_mask.reshape(-1).tolist()), ipm)

    # gather positions of the repaired / pinned selection, computed from the real buffers
    new_idx, old_idx = [], []
    for t in range(reps):
        if pad > 0:
            new_idx.append(nats(inv_mask[t][~bl.inv_pad_mask[t]].tolist()))
            old_idx.append(nats(inv_mask[t][bl.inv_pad_mask[t]].tolist()))
        else:
            new_idx.append(nats(inv_mask[t].tolist()))
            old_idx.append(nats(inv_mask[t].tolist()))

    # run the real unpad_samples with position numbers as "samples"
    repaired_src = '~self.inv_pad_mask' in inspect.getsource(RegionGraphLayer.unpad_samples)
    real = []
    for t in range(reps):
        x = torch.arange(n + pad, dtype=torch.float32).unsqueeze(0)
        idx_group = torch.arange(t * 2 ** d, (t + 1) * 2 ** d).unsqueeze(0)
        flipped = False
        if pad > 0 and not repaired_src:
            bl.inv_pad_mask = ~bl.inv_pad_mask   # emulate the repair on the pinned tree
            flipped = True
        try:
            out = bl.unpad_samples(x, idx_group)
            real.append(nats(out[0].long().tolist()))
        finally:
            if flipped:
                bl.inv_pad_mask = ~bl.inv_pad_mask
    pinned_raises = None
    if pad > 0 and not repaired_src:
        try:
            x = torch.arange(n + pad, dtype=torch.float32).unsqueeze(0)
            bl.unpad_samples(x, torch.arange(0, 2 ** d).unsqueeze(0))
            pinned_raises = False
        except RuntimeError:
            pinned_raises = True
    # the repaired gather must return the variables 0..n-1 of the scattered row
    ok_identity = True
    for t in range(reps):
        flat_mask = bl.mask.reshape(-1, n + pad)[t]
        got = [int(flat_mask[int(p)]) for p in new_idx[t].split()]
        ok_identity &= (got == list(range(n))) and (real[t] == new_idx[t])

    # end-to-end MPE / sampling with the repaired selection (emulated on the pinned tree by negating the buffer)
    flipped = False
    if pad > 0 and not repaired_src:
        bl.inv_pad_mask = ~bl.inv_pad_mask
        flipped = True
    try:
        xs = torch.randint(0, 2, (6, n)).float()
        miss = torch.rand(6, n) < 0.4
        xs[miss] = float('nan')
        comp = model.mpe(xs)
        smp = model.sample(7)
        ok_identity &= tuple(comp.shape) == (6, n) and tuple(smp.shape) == (7, n)
        ok_identity &= bool(((comp == 0) | (comp == 1)).all()) and bool(((smp == 0) | (smp == 1)).all())
        ok_identity &= bool((comp[~miss] == xs[~miss]).all())
    finally:
        if flipped:
            bl.inv_pad_mask = ~bl.inv_pad_mask

    req = {'features': n, 'depth': d, 'perms': perms}
    req2 = dict(req, draws=draws)
    ops = []
    for r in (req, req2):
        ops += [dict(r, op='regions'), dict(r, op='ratpad'), dict(r, op='unpad'), dict(r, op='unpadold')]
    expect = [regions_txt, ratpad_txt, ' ; '.join(new_idx), ' ; '.join(old_idx)] * 2
    return ops, expect, ok_identity, pinned_raises


# ---------------------------------------------------------------------------------------- DGC-SPN
def scopes_str(xs):
    return '/'.join(region_str(sorted(s)) if s else '-' for s in xs)


def dgc_case(C, D, p, dw):
    torch.manual_seed(D * 100 + p)
    dwarg = list(dw) if isinstance(dw, list) else dw
    model = DgcSpn((C, D, D), n_batch=2, sum_channels=2, depthwise=dwarg, n_pooling=p)
    model.eval()
    depth = int(np.ceil(np.log2(D)))
    parts = ['depth=%d' % depth]
    infos = []
    for layer in model.layers:
        if isinstance(layer, SpatialProductLayer):
            l, r, t, b = layer.pad
            assert (l, r) == (t, b)
            assert layer.stride[0] == layer.stride[1] and layer.dilation[0] == layer.dilation[1]
            oc, oh, ow = layer.out_features
            infos.append(['prod', 'prod s=%d d=%d pad=%d,%d out=%d,%d,%d' % (layer.stride[0], layer.dilation[0], l, r, oc, oh, ow)])
        else:
            oc, oh, ow = layer.out_features
            infos.append(['sum', 'sum s=1 d=1 pad=0,0 out=%d,%d,%d' % (oc, oh, ow)])

    # empirical scopes
    scopes_ok = True
    forward_ok = True
    try:
        with torch.no_grad():
            x = torch.randn(1, C, D, D)
            z = model.base_layer(x)

            def run(z0):
                outs = []
                y = z0
                for layer in model.layers:
                    y = layer(y)
                    outs.append(y)
                return outs
            ref = run(z)
            for li, y in enumerate(ref):
                assert tuple(y.shape[1:]) == tuple(model.layers[li].out_features), 'declared out_features differ from actual'
            changed = {}
            zb = z.repeat(D * D, 1, 1, 1)
            for r in range(D):
                for c in range(D):
                    zb[r * D + c, :, r, c] += 1.0
            outs = run(zb)                                 # one batched pass: row k perturbs pixel (k // D, k % D)
            for li, (a, b) in enumerate(zip(ref, outs)):
                ch = (a - b).abs() > 1e-4                  # (D*D, ch, h, w)
                per_cell = ch.any(dim=1)
                if not bool((ch == per_cell.unsqueeze(1)).all()):
                    scopes_ok = False                      # scope must not depend on the channel
                for r in range(D):
                    for c in range(D):
                        changed[(li, r, c)] = per_cell[r * D + c]
            for li, info in enumerate(infos):
                size = ref[li].shape[2]
                rows = [set() for _ in range(size)]
                cols = [set() for _ in range(size)]
                for r in range(D):
                    for c in range(D):
                        m = changed[(li, r, c)]
                        for i in range(size):
                            for j in range(size):
                                if bool(m[i, j]):
                                    rows[i].add(r)
                                    cols[j].add(c)
                # product structure: cell (i,j) contains pixel (r,c) iff r in rows[i] and c in cols[j]
                for r in range(D):
                    for c in range(D):
                        m = changed[(li, r, c)]
                        for i in range(size):
                            for j in range(size):
                                if bool(m[i, j]) != ((r in rows[i]) and (c in cols[j])):
                                    scopes_ok = False
                if rows != cols:
                    scopes_ok = False
                if info[0] == 'prod':
                    info[1] += ' scopes=' + scopes_str(rows)
                info.append(rows)
    except (RuntimeError, AssertionError) as e:
        forward_ok = False
    parts += [i[1] for i in infos]
    req = {'op': 'dgc', 'in_size': [C, D, D], 'n_pooling': p, 'depthwise': dwarg, 'n_batch': 2, 'sum_channels': 2}
    # all-missing input has log-probability zero, when the forward pass works
    allmiss = None
    if forward_ok:
        with torch.no_grad():
            out = model(torch.full((1, C, D, D), float('nan')))
            allmiss = bool(torch.allclose(out, torch.zeros_like(out), atol=1e-5))
    full_cover = forward_ok and all(len(s) == D for s in infos[-1][-1])
    return req, ' | '.join(parts), forward_ok, scopes_ok, allmiss, full_cover


# ---------------------------------------------------------------------------------------- forward values
from fractions import Fraction
from deeprob.spn.layers.ratspn import SumLayer as RatSumLayer


def frac(x):
    f = Fraction(float(x))
    return '%d/%d' % (f.numerator, f.denominator)


def nested(t):
    """tensor -> nested lists of exact rational strings"""
    if t.dim() == 0:
        return frac(t)
    return [nested(u) for u in t]


def rat_eval_case(n, d, reps, seed, classes, rows):
    rs = RecState(seed)
    torch.manual_seed(seed)
    model = BernoulliRatSpn(n, out_classes=classes, rg_depth=d, rg_repetitions=reps, rg_batch=2, rg_sum=2,
                            random_state=rs)
    model.eval()
    per_rep = 2 ** d - 1
    draws = [rs.draws[t * per_rep:(t + 1) * per_rep] for t in range(reps)]
    perms = [sum(dr[per_rep - 2 ** (d - 1):], []) for dr in draws]
    with torch.no_grad():
        probs = torch.sigmoid(model.base_layer.logits.double())
        sumw = [torch.softmax(l.weight.double(), dim=2) for l in model.layers if isinstance(l, RatSumLayer)]
        rootw = torch.softmax(model.root_layer.weight.double(), dim=1)
    ops, expect = [], []
    for row in rows:
        x = torch.tensor([[float('nan') if v is None else float(v) for v in row]])
        with torch.no_grad():
            out = torch.exp(model(x).double())[0].tolist()
        ops.append({'op': 'rateval', 'features': n, 'depth': d, 'perms': perms, 'batch': 2, 'sum': 2,
                    'probs': nested(probs), 'sumw': [nested(w) for w in sumw], 'rootw': nested(rootw), 'row': row})
        expect.append(out)
    return ops, expect


def dgc_eval_case(C, D, p, dw, classes, seed, nan_frac):
    torch.manual_seed(seed)
    dwarg = list(dw) if isinstance(dw, list) else dw
    model = DgcSpn((C, D, D), out_classes=classes, n_batch=2, sum_channels=2, depthwise=dwarg, n_pooling=p)
    model.eval()
    x = torch.randn(1, C, D, D)
    mask = torch.rand(1, C, D, D) < nan_frac
    x[mask] = float('nan')
    with torch.no_grad():
        out = torch.exp(model(x).double())[0].tolist()
        bl = model.base_layer
        lp = bl.distribution.log_prob(torch.unsqueeze(x, dim=1))[0]        # (batch, C, D, D)
        lp = torch.nan_to_num(lp)
        leafvals = torch.exp(lp.double())
        sumw = [torch.softmax(l.weight.double(), dim=1).permute(0, 2, 3, 1) for l in model.layers
                if isinstance(l, SpatialSumLayer)]                          # [o][r][c][in]
        rootw = torch.softmax(model.root_layer.weight.double(), dim=1)
    op = {'op': 'dgceval', 'in_size': [C, D, D], 'n_pooling': p, 'depthwise': dwarg, 'n_batch': 2, 'sum_channels': 2,
          'leafvals': nested(leafvals), 'sumw': [nested(w) for w in sumw], 'rootw': nested(rootw)}
    return op, out


def parse_rats(line):
    return [float(Fraction(t)) for t in line.split()]


def eval_section():
    rng = np.random.RandomState(7)
    ops, expect, meta = [], [], []
    for (n, d, reps, classes) in [(2, 1, 1, 1), (3, 1, 2, 2), (4, 2, 1, 1), (5, 2, 2, 2), (6, 1, 3, 1), (6, 2, 1, 3),
                                  (7, 2, 2, 1), (8, 3, 1, 2), (8, 2, 2, 1), (9, 3, 2, 1)]:
        rows = []
        for _ in range(4):
            rows.append([None if rng.rand() < 0.3 else int(rng.randint(0, 2)) for _ in range(n)])
        rows.append([None] * n)
        o, e = rat_eval_case(n, d, reps, int(rng.randint(0, 10 ** 6)), classes, rows)
        ops += o; expect += e; meta += [('rateval', n, d, reps, classes)] * len(o)
    for (C, D, p, dw, classes) in [(1, 2, 0, False, 1), (2, 2, 1, False, 2), (1, 2, 0, True, 1), (1, 3, 0, True, 1),
                                   (2, 4, 1, True, 2), (1, 4, 2, True, 1), (1, 4, 0, [True, False], 1),
                                   (1, 3, 0, False, 1), (1, 6, 1, True, 1), (1, 4, 2, False, 1), (1, 5, 0, True, 2),
                                   (1, 8, 3, [False, True], 1)]:
        for nan_frac in (0.0, 0.4, 1.0):
            op, out = dgc_eval_case(C, D, p, dw, classes, int(rng.randint(0, 10 ** 6)), nan_frac)
            ops.append(op); expect.append(out); meta.append(('dgceval', C, D, p, dw, classes, nan_frac))
    lines = run_driver(ops)
    bad = 0
    worst = 0.0
    for line, exp, m in zip(lines, expect, meta):
        if line.startswith('bad-op'):
            bad += 1; print('DRIVER', m, line); continue
        got = parse_rats(line)
        for g, e in zip(got, exp):
            rel = abs(g - e) / max(abs(e), 1e-300)
            worst = max(worst, rel)
            if not (rel < 1e-4):
                bad += 1
                print('DISAGREE', m, 'model', g, 'code', e)
    print('forward values (unrolled circuit, exact rationals, vs exp(torch forward)): %d evaluations, %d disagreements, worst relative difference %.2e'
          % (len(lines), bad, worst))
    return bad


def strip_mode(s):
    return re.sub(r'prod:\w+', 'prod', s)


def strip_scopes(s):
    return re.sub(r' scopes=\S*', '', s)


_compiled = False


def ensure_ops_compiled():
    """Driver/OpsTensor.lean is not (yet) a root of the `Driver` library: compile its .olean by hand."""
    global _compiled
    if _compiled:
        return
    out = os.path.join(LEAN_DIR, '.lake/build/lib/lean/Driver')
    os.makedirs(out, exist_ok=True)
    subprocess.run(['lake', 'build', 'DeeprobModel.Model.RatSpn', 'DeeprobModel.Model.DgcSpn', 'Driver.Proto'],
                   cwd=LEAN_DIR, check=True, capture_output=True)
    subprocess.run(['lake', 'env', 'lean', '-o', os.path.join(out, 'OpsTensor.olean'),
                    '-i', os.path.join(out, 'OpsTensor.ilean'), 'Driver/OpsTensor.lean'], cwd=LEAN_DIR, check=True)
    _compiled = True


def run_driver(ops):
    ensure_ops_compiled()
    inp = '\n'.join(json.dumps(o) for o in ops) + '\n'
    res = subprocess.run(['lake', 'env', 'lean', '--run', 'Driver/TensorMain.lean'], cwd=LEAN_DIR,
                         input=inp, capture_output=True, text=True)
    if res.returncode != 0:
        print(res.stderr)
        raise SystemExit('driver failed')
    lines = res.stdout.splitlines()
    assert len(lines) == len(ops), (len(lines), len(ops))
    return lines


def main():
    rng = np.random.RandomState(2026)
    ops, expect, meta = [], [], []
    n_rat = 0
    ident_ok = True
    pinned = {True: 0, False: 0, None: 0}
    for n in range(2, 13):
        for d in range(1, int(math.floor(math.log2(n))) + 1):
            for reps in (1, 2, 3):
                seed = int(rng.randint(0, 10 ** 6))
                o, e, ok, pr = rat_case(n, d, reps, seed)
                ident_ok &= ok
                pinned[pr] += 1
                n_rat += 1
                for oo, ee in zip(o, e):
                    ops.append(oo); expect.append(ee); meta.append(('rat', n, d, reps, seed, oo['op'], 'draws' in oo))
    n_dgc = 0
    dgc_meta = []
    for D in range(2, 13):
        depth = int(np.ceil(np.log2(D)))
        for p in range(0, depth + 1):
            for (C, dw) in ((1, False), (2, True), (1, [True, False])):
                req, txt, fwd, sc_ok, allmiss, full = dgc_case(C, D, p, dw)
                n_dgc += 1
                ops.append(req); expect.append(txt)
                meta.append(('dgc', C, D, p, dw, fwd, sc_ok, allmiss, full))
    lines = run_driver(ops)
    bad = 0
    n_cmp = 0
    for got, exp, m in zip(lines, expect, meta):
        if m[0] == 'rat':
            n_cmp += 1
            if got != exp:
                bad += 1
                print('DISAGREE', m, '\n  model:', got, '\n  code :', exp)
        else:
            _, C, D, p, dw, fwd, sc_ok, allmiss, full = m
            g = strip_mode(got)
            if not fwd:
                # constructor accepted the configuration but forward fails: compare the declared shapes only
                g, exp = strip_scopes(g), strip_scopes(exp)
            n_cmp += 1
            if g != exp:
                bad += 1
                print('DISAGREE', m, '\n  model:', g, '\n  code :', exp)
    print('RAT-SPN configurations: %d (x2 oracle encodings x4 ops); DGC-SPN configurations: %d' % (n_rat, n_dgc))
    print('compared lines: %d, disagreements: %d' % (n_cmp, bad))
    print('RAT: repaired unpad (real unpad_samples with negated selection) returns features 0..n-1 in order, and real mpe / sample then return complete 0/1 rows of width n keeping observed entries: %s' % ident_ok)
    print('RAT: pinned unpad_samples raises on padded architectures: %d raise, %d do not, %d not applicable (pad = 0 or tree already repaired)'
          % (pinned[True], pinned[False], pinned[None]))
    dg = [m for m in meta if m[0] == 'dgc']
    divis = [m for m in dg if m[2] % (2 ** m[3]) == 0]
    print('DGC: forward works in %d / %d accepted configurations; among 2^p | D (%d): forward ok %d, product-form & channel-independent scopes %d, all-missing = 0 in %d, final cells cover all pixels in %d'
          % (sum(m[5] for m in dg), len(dg), len(divis), sum(m[5] for m in divis), sum(m[5] and m[6] for m in divis),
             sum(bool(m[7]) for m in divis), sum(bool(m[8]) for m in divis)))
    nondiv = [m for m in dg if m[2] % (2 ** m[3]) != 0]
    print('DGC: 2^p does not divide D in %d accepted configurations: forward ok %d, final cells cover all pixels in %d'
          % (len(nondiv), sum(m[5] for m in nondiv), sum(bool(m[8]) for m in nondiv)))
    bad += eval_section()
    sys.exit(1 if bad else 0)


if __name__ == '__main__':
    main()
