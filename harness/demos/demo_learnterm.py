#!/venv/bin/python
"""
Termination of the REAL `deeprob.spn.learning.learnspn.learn_spn` loop vs the Lean bound
`Deeprob.LearnTerm.B` (Props/C05Term.lean: `step_decreases`, `learn_terminates`, `learn_total`).

For random (rows <= 12, cols <= 5, min_rows_slice, min_cols_slice) and random PROPER splitter behaviours
(incl. adversarial ones: always fail, alternate fail/succeed, peel one item per split, every item its own
cluster) the real learner is driven through its public callables on self-describing data and

  (a) it must HALT: every loop iteration evaluates `np.isclose(np.var(...))` exactly once; the module-global
      `np` of learnspn.py is replaced by a proxy that counts these calls and aborts the run (Diverged) as soon
      as the count exceeds B + 10;
  (b) #iterations <= B and #splitter calls <= B, where B comes from the driver op `learnbound` (the Lean
      definition `B`) AND from the closed form 5*max(r,1)*max(c,1)-3 recomputed here (both must agree);
  (c) #iterations == the step count of the Lean machine on the recorded script (driver op `learncount`,
      i.e. `runCount`), the script is consumed exactly, the deque is empty, the Lean termination measure
      starts at B, strictly decreases in every iteration and ends at 0, and the returned structures agree
      (canonical text, as in demo_learn.py).

Usage: cd /verif && PYTHONPATH=/repo:/verif /venv/bin/python /root/work3/learnterm/demo_learnterm.py
            [--n 600] [--seed 0] [--driver PATH]
Exit status 0 iff model and implementation agree on everything generated.
"""
import argparse, inspect, json, os, random, re, subprocess, sys, types
import numpy as np

import deeprob.spn.learning.learnspn as LS
from deeprob.spn.structure.leaf import Leaf
from deeprob.spn.structure.node import Sum, Product

RecLeaf = type('RecLeaf', (Leaf,), {m: (lambda self, *a, **k: None) for m in Leaf.__abstractmethods__})

DEFAULT_DRIVER = os.environ.get('DEEPROB_DRIVER', __import__('os').path.join(__import__('os').path.dirname(__import__('os').path.dirname(__import__('os').path.dirname(__import__('os').path.abspath(__file__)))), 'lean', '.lake', 'build', 'bin', 'driver'))


class Diverged(Exception):
    pass


# ---------------------------------------------------------------------------------------------- driver
class Driver:
    """JSON line protocol (one object per line in, one answer line out)"""

    def __init__(self, exe):
        self.p = subprocess.Popen([exe], stdin=subprocess.PIPE, stdout=subprocess.PIPE, text=True, bufsize=1)
        self.lines = 0

    def ask(self, obj):
        self.p.stdin.write(json.dumps(obj) + '\n')
        self.p.stdin.flush()
        ans = self.p.stdout.readline()
        if not ans:
            raise RuntimeError('model driver died')
        self.lines += 1
        return ans.rstrip('\n')

    def close(self):
        try:
            self.p.stdin.close()
            self.p.wait(timeout=10)
        except Exception:
            self.p.kill()


# ---------------------------------------------------------------------------------------------- data
def make_data(n_rows, n_cols, stretches, exact_const):
    """data[r, c] = 1000*c + r; on `stretches` (col, rows) the cell is (near-)constant"""
    d = np.empty((n_rows, n_cols), dtype=np.float64)
    for c in range(n_cols):
        for r in range(n_rows):
            d[r, c] = 1000.0 * c + r
    for c, rows in stretches:
        for r in rows:
            d[r, c] = 1000.0 * c + 500.0 + (0.0 if exact_const else r * 1e-7)
    return d


def decode_cell(v):
    c = int(v // 1000)
    rem = v - 1000.0 * c
    if rem < 499.5:
        return c, int(round(rem))
    return c, int(round((rem - 500.0) * 1e7))


def decode_slice(data, exact_const):
    """-> (rows or None, cols); rows is None when no column of the slice reveals the row ids"""
    n, m = data.shape
    cols, rows = [], None
    for j in range(m):
        dec = [decode_cell(data[i, j]) for i in range(n)]
        cs = {c for c, _ in dec}
        assert len(cs) == 1
        cols.append(cs.pop())
        known = True
        if exact_const:
            known = all((data[i, j] - 1000.0 * cols[-1]) < 499.5 for i in range(n))
        if known:
            rj = [r for _, r in dec]
            if rows is None:
                rows = rj
            else:
                assert rows == rj
    return rows, cols


class NpProxy:
    """stands in for the module-global `np` of learnspn.py: logs the zero-variance vector of every loop
    iteration and enforces the bounded step counter"""

    def __init__(self, log, limit):
        self._log, self._limit, self.iterations = log, limit, 0

    def __getattr__(self, name):
        return getattr(np, name)

    def isclose(self, a, b, *args, **kw):
        self.iterations += 1
        if self.iterations > self._limit:
            raise Diverged(f"more than {self._limit} loop iterations")
        res = np.isclose(a, b, *args, **kw)
        self._log.append({"zero_var": [int(i) for i in np.flatnonzero(res)]})
        return res


def is_front(mod):
    src = getattr(mod, '__source__', None) or inspect.getsource(mod)
    return "tasks.appendleft(Task(task.parent," in src


def mutant_module():
    """SELF-TEST ONLY (--mutant): an in-memory copy of learnspn.py in which a failed row split forgets to set
    `no_rows_split` — the flag protocol is broken and an always-failing splitter makes the loop spin forever.
    The demo must report DIVERGED for it (shows that check (a) is not vacuous)."""
    src = inspect.getsource(LS)
    old = "no_cols_split=False, no_rows_split=True))"
    assert src.count(old) == 1
    src = src.replace(old, "no_cols_split=False, no_rows_split=False))")
    mod = types.ModuleType("learnspn_mutant")
    exec(compile(src, "learnspn_mutant.py", "exec"), mod.__dict__)
    mod.__source__ = src
    return mod


# ---------------------------------------------------------------------------------------------- oracles
POLICIES = ['always_fail', 'alternate', 'peel_first', 'peel_last', 'each', 'halves', 'random', 'fail_p']


def labels_for(policy, n, calls, rng, fail_p):
    """a PROPER answer: exactly n labels. `calls` = how often this splitter was called before."""
    def single():
        return [rng.choice([0, 3, -1])] * n
    if n == 1 or policy == 'always_fail':
        return single()
    if policy == 'alternate':
        if calls % 2 == 0:
            return single()
        k = rng.randrange(1, n)
        return [5] * k + [2] * (n - k)
    if policy == 'peel_first':
        return [0] + [1] * (n - 1)
    if policy == 'peel_last':
        return [4] * (n - 1) + [-2]
    if policy == 'each':
        lab = list(range(n))
        rng.shuffle(lab)
        return lab
    if policy == 'halves':
        return [0 if i < n // 2 else 1 for i in range(n)]
    if policy == 'fail_p':
        if rng.random() < fail_p:
            return single()
    k = rng.randint(2, min(4, n))
    vals = rng.sample(range(-3, 9), k)
    return [rng.choice(vals) for _ in range(n)]


class Scenario:
    def __init__(self, rng, exact_const, row_policy, col_policy, fail_p):
        self.rng, self.exact_const = rng, exact_const
        self.row_policy, self.col_policy, self.fail_p = row_policy, col_policy, fail_p
        self.log = []
        self.rows_calls = self.cols_calls = self.leaf_calls = 0

    def split_rows(self, data, dists, doms, random_state, **kw):
        lab = labels_for(self.row_policy, len(data), self.rows_calls, self.rng, self.fail_p)
        self.rows_calls += 1
        self.log.append({"rows": [int(x) for x in lab]})
        return np.array(lab)

    def split_cols(self, data, dists, doms, random_state, **kw):
        lab = labels_for(self.col_policy, data.shape[1], self.cols_calls, self.rng, self.fail_p)
        self.cols_calls += 1
        self.log.append({"cols": [int(x) for x in lab]})
        return np.array(lab)

    def learn_leaf(self, data, dists, doms, scope, **kw):
        rows, cols = decode_slice(data, self.exact_const)
        assert cols == list(scope)
        leaf = RecLeaf(list(scope))
        leaf.rec_rows, leaf.rec_n = rows, len(data)
        self.leaf_calls += 1
        return leaf


# ---------------------------------------------------------------------------------------------- rendering
def n_rows_of(node):
    if isinstance(node, RecLeaf):
        return node.rec_n
    if isinstance(node, Product):
        return n_rows_of(node.children[0])
    return sum(n_rows_of(c) for c in node.children)


def render_real(node):
    sc = " ".join(str(int(s)) for s in node.scope)
    if isinstance(node, RecLeaf):
        rows = ("?%d" % node.rec_n) if node.rec_rows is None else " ".join(str(r) for r in node.rec_rows)
        return "L(rows=%s;scope=%s)" % (rows, sc)
    if isinstance(node, Product):
        return "P{%s}(%s)" % (sc, ",".join(render_real(c) for c in node.children))
    n = n_rows_of(node)
    parts = []
    for w, c in zip(node.weights, node.children):
        k = int(round(float(w) * n))
        ws = "%d/%d" % (k, n) if np.float32(k / n) == np.float32(w) else repr(float(w))
        parts.append(ws + ":" + render_real(c))
    return "S{%s}[%s]" % (sc, ",".join(parts))


LEAF_RE = re.compile(r"L\(rows=([^;]*);scope=([^)]*)\)")


def blur_unknown(lean_txt, real_txt):
    """leaves whose rows the data could not reveal (exact constants) are compared by count"""
    it = iter(LEAF_RE.findall(real_txt))

    def sub(m):
        try:
            rr, _ = next(it)
        except StopIteration:
            return m.group(0)
        if rr.startswith("?"):
            return "L(rows=?%d;scope=%s)" % (len(m.group(1).split()), m.group(2))
        return m.group(0)
    return LEAF_RE.sub(sub, lean_txt)


# ---------------------------------------------------------------------------------------------- scenarios
def gen(n, seed):
    rng = random.Random(seed)
    out = []
    # adversarial grid first: every pair of deterministic policies on the largest shapes, smallest thresholds
    det = ['always_fail', 'alternate', 'peel_first', 'peel_last', 'each', 'halves']
    for rp in det:
        for cp in det:
            for (r, c) in ((12, 5), (12, 1), (7, 3)):
                out.append(dict(n_rows=r, n_cols=c, min_rows=1, min_cols=1, rp=rp, cp=cp, fam='A',
                                seed=rng.randrange(10 ** 9)))
    while len(out) < n:
        out.append(dict(n_rows=rng.randint(1, 12), n_cols=rng.randint(1, 5),
                        min_rows=rng.choice([1, 1, 2, 3, 5, 13]), min_cols=rng.choice([1, 1, 2, 3, 6]),
                        rp=rng.choice(POLICIES), cp=rng.choice(POLICIES),
                        fam=rng.choice(['A', 'A', 'B', 'B', 'C']), seed=rng.randrange(10 ** 9)))
    return out


def build_data(sc, rng):
    n_rows, n_cols, fam = sc['n_rows'], sc['n_cols'], sc['fam']
    stretches = []
    if fam in ('B', 'C'):
        for c in range(n_cols):
            u = rng.random()
            if u < 0.2:
                stretches.append((c, set(range(n_rows))))
            elif u < 0.6:
                a = rng.randrange(n_rows)
                b = rng.randrange(a, n_rows)
                stretches.append((c, set(range(a, b + 1))))
            elif u < 0.7:
                stretches.append((c, set(rng.sample(range(n_rows), rng.randint(1, n_rows)))))
    return make_data(n_rows, n_cols, stretches, fam == 'C')


def closed_form_B(n_rows, n_cols):
    return 5 * max(n_rows, 1) * max(n_cols, 1) - 3


def main():
    ap = argparse.ArgumentParser()
    ap.add_argument('--n', type=int, default=600)
    ap.add_argument('--seed', type=int, default=0)
    ap.add_argument('--driver', default=DEFAULT_DRIVER)
    ap.add_argument('--verbose', action='store_true')
    ap.add_argument('--mutant', action='store_true', help='self-test on a deliberately non-terminating copy')
    a = ap.parse_args()

    global LS
    if a.mutant:
        LS = mutant_module()
    front = is_front(LS)
    print(f"learn_spn under test: {'IN-MEMORY MUTANT (self-test)' if a.mutant else 'the /repo tree'}; single-slice re-queue is "
          f"{'appendleft' if front else 'append'}; Lean machine front={front}")
    drv = Driver(a.driver)
    scen = gen(a.n, a.seed)
    bad = []
    st = dict(runs=0, halted=0, iterations=0, splitter_calls=0, leaf_calls=0, requeues=0, rem=0,
              max_ratio=0.0, max_ratio_at=None, max_iter=0, bound_agree=0, count_agree=0, text_agree=0,
              trace_ok=0)
    per_policy = {}
    for sc in scen:
        rng = random.Random(sc['seed'])
        data = build_data(sc, rng)
        n_rows, n_cols = data.shape
        s = Scenario(rng, sc['fam'] == 'C', sc['rp'], sc['cp'], rng.choice([0.2, 0.5, 0.8]))
        cfgj = dict(n_rows=n_rows, n_cols=n_cols, min_rows_slice=sc['min_rows'], min_cols_slice=sc['min_cols'],
                    front=front)
        # the bound: Lean definition (driver) and closed form
        b_lean = drv.ask(dict(op='learnbound', **cfgj))
        b_py = closed_form_B(n_rows, n_cols)
        st['runs'] += 1
        if b_lean != str(b_py):
            bad.append(('BOUND-MISMATCH', sc, b_lean, b_py))
            continue
        st['bound_agree'] += 1
        B = b_py
        proxy = NpProxy(s.log, B + 10)
        LS.np = proxy
        try:
            root = LS.learn_spn(
                data, [RecLeaf] * n_cols, [(0, 1)] * n_cols,
                learn_leaf=s.learn_leaf, split_rows=s.split_rows, split_cols=s.split_cols,
                min_rows_slice=sc['min_rows'], min_cols_slice=sc['min_cols'], random_state=0, verbose=False)
        except Diverged as e:
            bad.append(('DIVERGED', sc, str(e), json.dumps(s.log)[:2000]))
            continue
        finally:
            LS.np = np
        st['halted'] += 1
        iters = proxy.iterations
        calls = s.rows_calls + s.cols_calls
        assert iters == sum(1 for e in s.log if 'zero_var' in e)
        assert calls == sum(1 for e in s.log if 'zero_var' not in e)
        st['iterations'] += iters
        st['splitter_calls'] += calls
        st['leaf_calls'] += s.leaf_calls
        st['requeues'] += sum(1 for e in s.log if ('rows' in e and len(set(e['rows'])) == 1)
                              or ('cols' in e and len(set(e['cols'])) == 1))
        st['rem'] += sum(1 for e in s.log if e.get('zero_var'))
        if iters > B or calls > B:
            bad.append(('BOUND-VIOLATED', sc, dict(iterations=iters, splitter_calls=calls, B=B),
                        json.dumps(s.log)[:2000]))
            continue
        key = (sc['rp'], sc['cp'])
        per_policy[key] = max(per_policy.get(key, 0.0), iters / B)
        if iters / B > st['max_ratio']:
            st['max_ratio'], st['max_ratio_at'] = iters / B, (n_rows, n_cols, sc['min_rows'], sc['min_cols'],
                                                               sc['rp'], sc['cp'], iters, B)
        st['max_iter'] = max(st['max_iter'], iters)
        # the Lean machine on the same script
        ans = drv.ask(dict(op='learncount', script=s.log, **cfgj))
        if ans.startswith('bad-op'):
            bad.append(('MODEL-REJECTS-SCRIPT', sc, ans, json.dumps(s.log)[:2000]))
            continue
        head, text = ans.split(';text=', 1)
        f = dict(kv.split('=', 1) for kv in head.split(';'))
        trace = [int(x) for x in f['trace'].split()]
        ok_count = (int(f['steps']) == iters and int(f['consumed']) == len(s.log) and int(f['pending']) == 0
                    and int(f['bound']) == B)
        ok_trace = (trace[0] == B and trace[-1] == 0 and len(trace) == iters + 1
                    and all(x > y for x, y in zip(trace, trace[1:])))
        real_txt = render_real(root)
        ok_text = blur_unknown(text, real_txt) == real_txt
        st['count_agree'] += ok_count
        st['trace_ok'] += ok_trace
        st['text_agree'] += ok_text
        if not (ok_count and ok_trace and ok_text):
            bad.append(('MODEL-MISMATCH', sc, dict(real_iterations=iters, lean=head, real=real_txt, lean_text=text),
                        json.dumps(s.log)[:2000]))
        if a.verbose:
            print(sc, iters, calls, B)
    drv.close()

    print(f"runs: {st['runs']} (rows <= 12, cols <= 5; {6 * 6 * 3} adversarial policy pairs x shapes with "
          f"min_rows_slice = min_cols_slice = 1, the rest random cfg / policies / data families A,B,C)")
    print(f"(a) halted within the step counter B+10: {st['halted']} / {st['runs']}")
    print(f"    loop iterations: {st['iterations']}; splitter calls: {st['splitter_calls']}; learn_leaf calls: "
          f"{st['leaf_calls']}; single-cluster answers (re-queues): {st['requeues']}; "
          f"non-empty zero-variance answers: {st['rem']}")
    print(f"(b) Lean `B` (op learnbound) == closed form: {st['bound_agree']} / {st['runs']}; "
          f"iterations <= B and splitter calls <= B in all halted runs: "
          f"{'yes' if not any(b[0] == 'BOUND-VIOLATED' for b in bad) else 'NO'}; "
          f"largest iterations/B = {st['max_ratio']:.3f} at (rows, cols, min_rows, min_cols, row policy, col policy, "
          f"iterations, B) = {st['max_ratio_at']}; largest iteration count {st['max_iter']}")
    print(f"(c) iteration count == Lean `runCount`, script consumed exactly, deque empty: {st['count_agree']} / "
          f"{st['halted']}; measure trace starts at B, strictly decreasing, ends at 0: {st['trace_ok']} / "
          f"{st['halted']}; structures equal: {st['text_agree']} / {st['halted']}")
    worst = sorted(per_policy.items(), key=lambda kv: -kv[1])[:5]
    print("    worst policy pairs (rows, cols) by iterations/B: " +
          ", ".join(f"{k[0]}/{k[1]}={v:.2f}" for k, v in worst))
    print(f"driver lines: {drv.lines}")
    for b in bad[:8]:
        print(b[0], json.dumps(b[1]))
        for x in b[2:]:
            print("   ", x)
    print("AGREE" if not bad else f"DISAGREE ({len(bad)})")
    return 0 if not bad else 1


if __name__ == '__main__':
    sys.exit(main())
