#!/venv/bin/python
"""
Leaf families demo / correspondence run for Model/LeafQ.lean (driver op `leafq`).

run:  cd /verif && PYTHONPATH=/repo:/verif /venv/bin/python harness/demos/demo_leaves.py [seed]

The library is found through PYTHONPATH only; the model driver through DEEPROB_DRIVER
(default /verif/lean/.lake/build/bin/driver).

For random leaves of every family the exact rational model is compared with the implementation:
 A  Isotonic (histograms with EQUAL, NEARLY EQUAL (within np.allclose) and UNEQUAL bin widths, zero-height bins, 1..6
    bins; parameters passed as lists (stored float32) and as float64 arrays): `likelihood` / `log_likelihood` inside
    the bins, at every break point, at both end points and outside; `distribution.pdf/cdf/ppf`; `moment(k)`, k = 0..4,
    through `leaf.moment` and through `deeprob.spn.algorithms.moments.moment` on the single-leaf circuit; `mpe` on NaN;
    the empirical cdf of 200000 draws of `leaf.sample` against `isoCdf` (DKW band, family-wise level 1e-9).
 B  Uniform: the same list with `scipy.stats.uniform(start, width)` for cdf / ppf (what the leaf calls).
 C  Bernoulli, p in {0, 0.5, 1, random}: pmf at integers and non-integers, moments, mpe (tie at 0.5), sample law.
 D  Categorical, categories with gaps / unsorted / negative, ties in the probabilities: pmf by category value (inputs
    are truncated towards zero by the leaf), moments, mpe (category of the FIRST maximal probability), sample law.
Tolerances: 1e-6 relative (to the natural scale of the quantity) for float64 quantities, 1e-5 for float32 ones.
Exit status 0 iff model and implementation agree on everything generated; the counts are printed.
"""
import json, math, os, subprocess, sys, warnings
from fractions import Fraction as Fr

import numpy as np
import scipy.stats as ss

from deeprob.spn.structure.leaf import Bernoulli, Categorical, Uniform, Isotonic
from deeprob.spn.algorithms import moments as M

warnings.simplefilter('ignore')
EXE = os.environ.get('DEEPROB_DRIVER', __import__('os').path.join(__import__('os').path.dirname(__import__('os').path.dirname(__import__('os').path.dirname(__import__('os').path.abspath(__file__)))), 'lean', '.lake', 'build', 'bin', 'driver'))
SEED = int(sys.argv[1]) if len(sys.argv) > 1 else 20260929
rs = np.random.RandomState(SEED % (2 ** 32))
np.random.seed((SEED * 7919 + 13) % (2 ** 32))      # `Isotonic.sample` and SciPy's `rvs` draw from the global state

N_DRAWS = 200000
FWER = 1e-9
TOL64, TOL32 = 1e-6, 1e-5


class Driver:
    def __init__(self):
        if not os.path.exists(EXE):
            sys.exit('model driver is not built: ' + EXE)
        self.p = subprocess.Popen([EXE], stdin=subprocess.PIPE, stdout=subprocess.PIPE, text=True, bufsize=1)
        self.lines = 0

    def ask(self, obj):
        self.p.stdin.write(json.dumps(obj) + '\n')
        self.p.stdin.flush()
        ans = self.p.stdout.readline()
        if not ans:
            sys.exit('model driver died')
        self.lines += 1
        ans = ans.rstrip('\n')
        if ans.startswith('bad-op'):
            sys.exit(f'driver: {ans} for {json.dumps(obj)[:400]}')
        return ans

    def close(self):
        self.p.stdin.close()
        self.p.wait(timeout=10)


def fx(x):
    """exact rational of a Python / NumPy float"""
    return Fr(float(x))


def fs(q):
    q = Fr(q)
    return f"{q.numerator}/{q.denominator}"


def pq(s):
    if s == 'nan':
        return None
    n, d = s.split('/')
    return Fr(int(n), int(d))


DRV = None
COUNTS = {}
MISMATCH = []
NOTES = []


def count(kind, n=1):
    COUNTS[kind] = COUNTS.get(kind, 0) + n


def leafq(params, fn, args=None, nout=None):
    o = dict(op='leafq', fn=fn)
    o.update(params)
    if args is not None:
        o['args'] = [a if isinstance(a, int) else fs(a) for a in args]
    ans = DRV.ask(o)
    if args is None:
        return ans
    out = ans.split(' ') if ans else []
    if len(out) != (len(args) if nout is None else nout):
        sys.exit(f'driver answered {len(out)} values for {len(args)} arguments: {json.dumps(o)[:300]}')
    return [pq(t) for t in out]


def check(kind, params, fn, arg, impl, model, tol, scale=0.0, desc=''):
    """|impl - model| <= tol * max(|model|, scale); `model` None = NaN expected; infinities compared as such"""
    count(kind)
    impl = float(impl)
    ok = False
    if model is None:
        ok = math.isnan(impl)
    elif isinstance(model, float) and math.isinf(model):
        ok = (impl == model)
    else:
        m = float(model)
        ok = (not math.isnan(impl)) and abs(impl - m) <= tol * max(abs(m), scale)
    if not ok:
        MISMATCH.append(dict(kind=kind, desc=desc, params=params, fn=fn, arg=(arg if isinstance(arg, int) else fs(arg)),
                             impl=impl, model=(None if model is None else (model if isinstance(model, float) else fs(model))),
                             tol=tol, scale=scale))
    return ok


def dkw_eps(n, m_tests):
    return math.sqrt(math.log(2.0 * m_tests / FWER) / (2.0 * n))


N_SAMPLING_TESTS = 40        # upper bound on the number of sampling cases of one run (union bound)
EPS = dkw_eps(N_DRAWS, N_SAMPLING_TESTS)
sampling_cases = 0
worst_dkw = 0.0


def ecdf_check(kind, params, desc, draws, grid, model_cdf_at_grid):
    """|F_n(t) - F(t)| <= EPS on the grid (t exact floats, F exact rationals)"""
    global sampling_cases, worst_dkw
    sampling_cases += 1
    if sampling_cases > N_SAMPLING_TESTS:
        sys.exit('more sampling cases than budgeted in the union bound')
    draws = np.sort(np.asarray(draws, dtype=np.float64))
    n = len(draws)
    fn_at = np.searchsorted(draws, np.asarray(grid, dtype=np.float64), side='right') / n
    dev = max(abs(float(a) - float(b)) for a, b in zip(fn_at, model_cdf_at_grid))
    worst_dkw = max(worst_dkw, dev)
    count(kind)
    if dev > EPS:
        i = int(np.argmax([abs(float(a) - float(b)) for a, b in zip(fn_at, model_cdf_at_grid)]))
        MISMATCH.append(dict(kind=kind, desc=desc, params=params, fn='sample-ecdf', arg=repr(float(grid[i])),
                             impl=float(fn_at[i]), model=fs(model_cdf_at_grid[i]), tol=EPS, scale=1.0, n=n))
        return False
    return True


# ----------------------------------------------------------------------------------------------- A. Isotonic
def iso_params_model(leaf):
    return dict(family='isotonic', d=[fs(fx(t)) for t in leaf.densities], b=[fs(fx(t)) for t in leaf.breaks])


def gen_hist(kind, nb):
    """densities (sum 1, possibly with zero-height bins) and breaks of one of the width regimes"""
    d = rs.dirichlet(np.ones(nb))
    zero = False
    if nb >= 2 and rs.rand() < 0.5:
        k = rs.randint(1, nb)            # number of zero bins (at least one bin keeps mass)
        idx = rs.choice(nb, size=min(k, nb - 1), replace=False)
        d[idx] = 0.0
        d = d / d.sum()
        zero = True
    b0 = float(rs.uniform(-3, 3))
    if kind == 'equal':
        w = float(rs.uniform(0.2, 2.0))
        b = b0 + w * np.arange(nb + 1)
    elif kind == 'near':
        # widths differ by < 1e-5 relative: np.allclose says "constant", SciPy reads the numbers as counts
        w = float(rs.uniform(0.2, 2.0))
        ws = w * (1.0 + rs.uniform(-4e-6, 4e-6, nb))
        b = b0 + np.r_[0.0, np.cumsum(ws)]
    else:
        ws = rs.uniform(0.1, 1.0, nb) * rs.choice([0.2, 1.0, 5.0], nb)
        b = b0 + np.r_[0.0, np.cumsum(ws)]
    return d, b, zero


brk_right = brk_left = brk_other = brk_same = end_ood = 0
heights_reading_dev = {}


def isotonic_case(kind, nb, as64, sample):
    global brk_right, brk_left, brk_other, brk_same, end_ood
    d, b, zero = gen_hist(kind, nb)
    if as64:
        leaf = Isotonic(0, np.asarray(d, dtype=np.float64), np.asarray(b, dtype=np.float64))
        tolp = TOL64
        xdt = np.float64
    else:
        leaf = Isotonic(0, [float(t) for t in d], [float(t) for t in b])      # lists: stored as float32
        tolp = TOL32
        xdt = np.float32
    leaf.id = 0
    P = iso_params_model(leaf)
    desc = f'isotonic {kind} nb={nb} {"f64" if as64 else "f32"} zero={zero}'
    bb = [float(t) for t in leaf.breaks]
    dist = leaf.distribution
    span = bb[-1] - bb[0]
    amax = max(abs(bb[0]), abs(bb[-1]), 1e-3)
    vary_model = leafq(P, 'vary') == 'true'
    vary_impl = not np.allclose(dist._hbin_widths, dist._hbin_widths[0])
    count('iso.vary')
    if vary_model != vary_impl:
        MISMATCH.append(dict(kind='iso.vary', desc=desc, params=P, fn='vary', arg='-', impl=vary_impl, model=vary_model))
    if kind == 'unequal' and not vary_impl and nb > 1:
        NOTES.append(f'{desc}: widths drawn as unequal but allclose')
    hs = [pq(t) for t in leafq(P, 'heights').split(' ')]
    z = pq(leafq(P, 'z'))
    pmax = float(max(hs) / z)
    # the other reading of `densities` (always heights: what /verif/harness/spn.py `iso_pdf_table`, c07 `leaf_cdf`, c19 use)
    global heights_reading_dev
    dq = [fx(t) for t in leaf.densities]
    bq = [fx(t) for t in leaf.breaks]
    zh = sum(di * (bq[i + 1] - bq[i]) for i, di in enumerate(dq))
    for i, di in enumerate(dq):
        if hs[i] > 0:
            heights_reading_dev[kind] = max(heights_reading_dev.get(kind, 0.0), abs(float((di / zh) / (hs[i] / z)) - 1.0))

    # points: inside every bin, every break, outside
    xs = []
    for i in range(nb):
        for _ in range(3):
            xs.append(xdt(rs.uniform(bb[i], bb[i + 1])))
    xs += [xdt(t) for t in bb]
    xs += [xdt(bb[0] - rs.uniform(1e-3, 2.0)), xdt(bb[-1] + rs.uniform(1e-3, 2.0)), xdt(bb[0] - 1e6), xdt(bb[-1] + 1e6)]
    xs = [x for x in xs if np.isfinite(x)]
    xq = [fx(x) for x in xs]
    xa = np.array(xs, dtype=xdt).reshape(-1, 1)
    lik = leaf.likelihood(xa).ravel()
    ll = leaf.log_likelihood(xa).ravel()
    m_lik = leafq(P, 'lik', xq)
    m_pdf = leafq(P, 'pdf', xq)
    i_pdf = dist.pdf(np.array(xs, dtype=xdt))
    m_cdf = leafq(P, 'cdf', xq)
    m_cdfraw = leafq(P, 'cdfraw', xq)
    i_cdf = dist.cdf(np.array(xs, dtype=xdt))
    for x, q, a, l, m, mp, ip, mc, mcr, ic in zip(xs, xq, lik, ll, m_lik, m_pdf, i_pdf, m_cdf, m_cdfraw, i_cdf):
        check('iso.likelihood', P, 'lik', q, a, m, TOL32, scale=0.0 if m > 0 else 1e-30, desc=desc)
        if m > 0:
            count('iso.log_likelihood')
            ref = math.log(m.numerator) - math.log(m.denominator)
            if not (abs(float(l) - ref) <= TOL32 * max(1.0, abs(ref))):
                MISMATCH.append(dict(kind='iso.log_likelihood', desc=desc, params=P, fn='lik', arg=fs(q), impl=float(l), model=ref))
        else:
            check('iso.log_likelihood', P, 'lik', q, l, -math.inf, 0.0, desc=desc)
        check('iso.pdf', P, 'pdf', q, ip, mp, tolp, scale=pmax * 1e-30, desc=desc)
        check('iso.cdf', P, 'cdf', q, ic, mc, tolp, scale=1.0, desc=desc)
        count('iso.cdf_closed_form')
        if mc != mcr:
            MISMATCH.append(dict(kind='iso.cdf_closed_form', desc=desc, params=P, fn='cdf vs cdfraw', arg=fs(q), impl=fs(mc), model=fs(mcr)))
    # how break points are assigned (implementation, observed)
    hpdf = [float(h / z) for h in hs]
    for j in range(nb + 1):
        xj = np.array([[leaf.breaks[j]]], dtype=xdt)
        v = float(leaf.likelihood(xj)[0, 0])
        if j == 0 or j == nb:
            if v == float(np.finfo(np.float32).eps):
                end_ood += 1
            else:
                brk_other += 1
        else:
            r, l_ = hpdf[j], hpdf[j - 1]
            if abs(r - l_) <= 1e-4 * max(r, l_, 1e-12):
                brk_same += 1
            elif abs(v - r) <= 2e-5 * max(r, 1e-12) and not abs(v - l_) <= 2e-5 * max(l_, 1e-12):
                brk_right += 1
            elif abs(v - l_) <= 2e-5 * max(l_, 1e-12):
                brk_left += 1
            else:
                brk_other += 1

    # ppf: away from the knot values when the cdf has flat pieces (a rounding of the knot decides the side there)
    knots = [float(t) for t in leafq(P, 'cdf', [fx(t) for t in bb])]
    us = [float(u) for u in rs.uniform(0, 1, 24)] + [0.0, 1.0, -0.25, 1.5, 1e-12, 1 - 1e-12]
    guard = 10 * tolp
    us2, skipped = [], 0
    for u in us:
        if 0.0 < u < 1.0 and any(abs(u - k) <= guard for k in knots):
            skipped += 1
        else:
            us2.append(u)
    count('iso.ppf.skipped_near_knot', skipped)
    m_ppf = leafq(P, 'ppf', [fx(u) for u in us2])
    i_ppf = dist.ppf(np.array(us2, dtype=np.float64))
    # local slope of the ppf amplifies the error of the stored cdf table: allow tol * span / (smallest positive mass)
    for u, ip, mp in zip(us2, i_ppf, m_ppf):
        check('iso.ppf', P, 'ppf', fx(u), ip, mp, tolp, scale=max(amax, span * ppf_amp(hs, z, bb)), desc=desc)

    # moments
    ks = [0, 1, 2, 3, 4]
    m_mom = leafq(P, 'moment', ks)
    for k, mm in zip(ks, m_mom):
        check('iso.moment', P, 'moment', k, leaf.moment(k), mm, tolp, scale=amax ** k, desc=desc)
        check('iso.moment.circuit', P, 'moment', k, np.asarray(M.moment(leaf, order=k))[0], mm, TOL32, scale=amax ** k, desc=desc)
    # mpe
    mode = pq(leafq(P, 'mode'))
    got = leaf.mpe(np.array([[np.nan]], dtype=np.float64))[0, 0]
    check('iso.mpe', P, 'mode', Fr(0), got, mode, tolp, scale=amax, desc=desc)
    keep = leaf.mpe(np.array([[0.125]], dtype=np.float64))[0, 0]
    count('iso.mpe.keeps_observed')
    if keep != 0.125:
        MISMATCH.append(dict(kind='iso.mpe.keeps_observed', desc=desc, params=P, fn='mpe', arg='1/8', impl=float(keep), model='1/8'))

    if sample:
        draws = leaf.sample(np.full((N_DRAWS, 1), np.nan, dtype=np.float64)).ravel()
        grid = sorted(set([float(np.float32(t)) for t in bb] +
                          [float(np.float32(t)) for i in range(nb) for t in np.linspace(bb[i], bb[i + 1], 34)[1:-1]]))
        F = leafq(P, 'cdf', [fx(t) for t in grid])
        ecdf_check('iso.sample', P, desc, draws, grid, F)
        count('iso.sample.in_support')
        if draws.min() < bb[0] or draws.max() > bb[-1]:
            MISMATCH.append(dict(kind='iso.sample.in_support', desc=desc, params=P, fn='sample', arg='-',
                                 impl=[float(draws.min()), float(draws.max())], model=[bb[0], bb[-1]]))


def ppf_amp(hs, z, bb):
    """1 / (smallest positive bin mass): how much an absolute error of the stored cdf is amplified by the ppf"""
    masses = [float(h / z) * (bb[i + 1] - bb[i]) for i, h in enumerate(hs) if h > 0]
    return 1.0 / min(masses) if masses else 1.0


# ----------------------------------------------------------------------------------------------- B. Uniform
def uniform_case(dyadic, sample):
    if dyadic:
        start = float(rs.randint(-256, 256)) / 64.0
        width = float(rs.randint(1, 512)) / 64.0
    else:
        start = float(rs.randn() * 2)
        width = float(rs.uniform(0.05, 4.0))
    leaf = Uniform(0, start, width)
    leaf.id = 0
    P = dict(family='uniform', start=fs(fx(start)), width=fs(fx(width)))
    desc = f'uniform start={start!r} width={width!r}'
    amax = max(abs(start), abs(start + width), 1e-3)
    xs = [float(rs.uniform(start, start + width)) for _ in range(6)]
    xs += [start - float(rs.uniform(1e-3, 2.0)), start + width + float(rs.uniform(1e-3, 2.0))]
    if dyadic:
        xs += [start, start + width]          # exact in binary64: both END POINTS are inside SciPy's closed support
    xq = [fx(x) for x in xs]
    xa = np.array(xs, dtype=np.float64).reshape(-1, 1)
    lik = leaf.likelihood(xa).ravel()
    ll = leaf.log_likelihood(xa).ravel()
    m_pdf = leafq(P, 'pdf', xq)
    m_cdf = leafq(P, 'cdf', xq)
    i_cdf = ss.uniform.cdf(np.array(xs), start, width)
    for x, q, a, l, m, mc, ic in zip(xs, xq, lik, ll, m_pdf, m_cdf, i_cdf):
        check('uni.likelihood', P, 'pdf', q, a, m, TOL32, desc=desc)
        if m > 0:
            count('uni.log_likelihood')
            ref = math.log(m.numerator) - math.log(m.denominator)
            if not (abs(float(l) - ref) <= TOL32 * max(1.0, abs(ref))):
                MISMATCH.append(dict(kind='uni.log_likelihood', desc=desc, params=P, fn='pdf', arg=fs(q), impl=float(l), model=ref))
        else:
            check('uni.log_likelihood', P, 'pdf', q, l, -math.inf, 0.0, desc=desc)
        check('uni.cdf', P, 'cdf', q, ic, mc, TOL64, scale=1.0, desc=desc)
    us = [float(u) for u in rs.uniform(0, 1, 8)] + [0.0, 1.0, -0.5, 2.0]
    m_ppf = leafq(P, 'ppf', [fx(u) for u in us])
    i_ppf = ss.uniform.ppf(np.array(us), start, width)
    for u, ip, mp in zip(us, i_ppf, m_ppf):
        check('uni.ppf', P, 'ppf', fx(u), ip, mp, TOL64, scale=amax, desc=desc)
    ks = [0, 1, 2, 3, 4]
    for k, mm in zip(ks, leafq(P, 'moment', ks)):
        check('uni.moment', P, 'moment', k, leaf.moment(k), mm, TOL64, scale=amax ** k, desc=desc)
        check('uni.moment.circuit', P, 'moment', k, np.asarray(M.moment(leaf, order=k))[0], mm, TOL32, scale=amax ** k, desc=desc)
    mode = pq(leafq(P, 'mode'))
    got = leaf.mpe(np.array([[np.nan]], dtype=np.float64))[0, 0]
    check('uni.mpe', P, 'mode', Fr(0), got, mode, TOL64, scale=amax, desc=desc)
    if sample:
        draws = leaf.sample(np.full((N_DRAWS, 1), np.nan, dtype=np.float64)).ravel()
        grid = [float(np.float32(t)) for t in np.linspace(start, start + width, 66)]
        F = leafq(P, 'cdf', [fx(t) for t in grid])
        ecdf_check('uni.sample', P, desc, draws, grid, F)


def uniform_fit_case(constant):
    """`Uniform.fit` (F14: a constant column used to give width 0): the fitted leaf must be a distribution"""
    n = int(rs.randint(1, 40))
    data = np.full((n, 1), float(rs.randn())) if constant else rs.randn(n, 1) * float(rs.uniform(0.1, 3))
    data = data.astype(np.float32)
    leaf = Uniform(0)
    leaf.fit(data, (float(data.min()), float(data.max())))
    lo, hi = fx(data.min()), fx(data.max())
    P = dict(family='uniform', start=fs(fx(leaf.start)), width=fs(fx(leaf.width)))
    desc = f'uniform fit constant={constant} n={n}'
    count('uni.fit')
    ok = fx(leaf.start) == lo and leaf.width > 0 and abs(fx(leaf.width) - max(hi - lo, Fr(1, 100000))) <= Fr(1, 10 ** 6) * max(hi - lo, Fr(1, 100000))
    lik = leaf.likelihood(data).ravel()
    m = leafq(P, 'pdf', [fx(t) for t in data.ravel()])
    ok = ok and all(np.isfinite(lik)) and all(abs(float(a) - float(b)) <= TOL32 * float(b) for a, b in zip(lik, m) if b > 0)
    # (`ss.uniform.fit` works in the data's float32: width = fl32(max - min); the maximal data point may then lie one
    #  rounding outside the exact support [start, start+width] — points where the model answers 0 are not compared)
    mom0 = leafq(P, 'moment', [0, 1])
    ok = ok and mom0[0] == 1 and abs(float(leaf.moment(1)) - float(mom0[1])) <= TOL64 * max(abs(float(mom0[1])), 1e-3)
    if not ok:
        MISMATCH.append(dict(kind='uni.fit', desc=desc, params=P, fn='fit', arg='-', impl=[leaf.start, leaf.width], model=[fs(lo), fs(hi - lo)]))


# ----------------------------------------------------------------------------------------------- C. Bernoulli
def bernoulli_case(p, sample):
    leaf = Bernoulli(0, p)
    leaf.id = 0
    P = dict(family='bernoulli', p=fs(fx(p)))
    desc = f'bernoulli p={p!r}'
    xs = [0.0, 1.0, 2.0, -1.0, 0.5, 1.5]
    xa = np.array(xs, dtype=np.float32).reshape(-1, 1)
    lik = leaf.likelihood(xa).ravel()
    ll = leaf.log_likelihood(xa).ravel()
    m = leafq(P, 'pdf', [fx(x) for x in xs])
    for x, a, l, mm in zip(xs, lik, ll, m):
        check('bern.likelihood', P, 'pdf', fx(x), a, mm, TOL32, desc=desc)
        if mm > 0:
            count('bern.log_likelihood')
            ref = math.log(mm.numerator) - math.log(mm.denominator)
            if not (abs(float(l) - ref) <= TOL32 * max(1.0, abs(ref))):
                MISMATCH.append(dict(kind='bern.log_likelihood', desc=desc, params=P, fn='pdf', arg=fs(fx(x)), impl=float(l), model=ref))
        else:
            check('bern.log_likelihood', P, 'pdf', fx(x), l, -math.inf, 0.0, desc=desc)
    ks = [0, 1, 2, 3, 4]
    for k, mm in zip(ks, leafq(P, 'moment', ks)):
        check('bern.moment', P, 'moment', k, leaf.moment(k), mm, TOL64, scale=1e-30, desc=desc)
        check('bern.moment.circuit', P, 'moment', k, np.asarray(M.moment(leaf, order=k))[0], mm, TOL32, scale=1e-30, desc=desc)
    mode = int(leafq(P, 'mode'))
    got = leaf.mpe(np.array([[np.nan]], dtype=np.float32))[0, 0]
    count('bern.mpe')
    if float(got) != float(mode):
        MISMATCH.append(dict(kind='bern.mpe', desc=desc, params=P, fn='mode', arg='-', impl=float(got), model=mode))
    xsc = [-1.0, 0.0, 0.5, 1.0, 2.0]
    mc = leafq(P, 'cdf', [fx(x) for x in xsc])
    for x, ic, mm in zip(xsc, ss.bernoulli.cdf(xsc, p), mc):
        check('bern.cdf', P, 'cdf', fx(x), ic, mm, TOL64, scale=1.0, desc=desc)
    if sample:
        draws = leaf.sample(np.full((N_DRAWS, 1), np.nan, dtype=np.float64)).ravel()
        grid = [-1.0, 0.0, 1.0]
        ecdf_check('bern.sample', P, desc, draws, grid, leafq(P, 'cdf', [fx(t) for t in grid]))
        count('bern.sample.in_support')
        if not set(np.unique(draws)).issubset({0.0, 1.0}):
            MISMATCH.append(dict(kind='bern.sample.in_support', desc=desc, params=P, fn='sample', arg='-', impl=sorted(set(draws))[:5], model=[0, 1]))


# ----------------------------------------------------------------------------------------------- D. Categorical
def categorical_case(mode_kind, sample):
    n = int(rs.randint(1, 7))
    if mode_kind == 'range':
        cats = list(range(n))
    elif mode_kind == 'gaps':
        cats = [int(t) for t in rs.permutation(12)[:n]]                # unsorted, with gaps
    else:
        cats = [int(t) for t in (rs.permutation(15)[:n] - 6)]          # unsorted, gaps, negative categories
    if mode_kind == 'ties' or rs.rand() < 0.3:
        # exact ties between maximal probabilities (dyadic numbers: exact in float32)
        w = rs.randint(1, 4, n).astype(float)
        w[rs.randint(n)] = w.max()
        w[rs.randint(n)] = w.max()
        p = w / w.sum()
        tot = 2 ** 10
        pi = np.floor(p * tot)
        # keep ties exact: distribute the remainder on a non-maximal entry or on all maximal ones alike
        p = pi / tot
        rest = 1.0 - p.sum()
        j = int(np.argmin(p))
        p[j] += rest
    else:
        p = rs.dirichlet(np.ones(n))
    leaf = Categorical(0, cats, [float(t) for t in p])
    leaf.id = 0
    P = dict(family='categorical', cats=[int(c) for c in leaf.categories], ps=[fs(fx(t)) for t in leaf.probabilities])
    desc = f'categorical cats={cats}'
    cmax = max(max(abs(c) for c in cats), 1)
    xs = [float(c) for c in cats] + [float(c) + 0.7 for c in cats] + [float(c) - 0.7 for c in cats]
    xs += [float(min(cats) - 1), float(max(cats) + 1), float(min(cats) - 3), 0.0, 0.4, -0.4]
    xa = np.array(xs, dtype=np.float32).reshape(-1, 1)
    lik = leaf.likelihood(xa).ravel()
    ll = leaf.log_likelihood(xa).ravel()
    m = leafq(P, 'pdf', [fx(np.float32(x)) for x in xs])
    for x, a, l, mm in zip(xs, lik, ll, m):
        check('cat.likelihood', P, 'pdf', fx(np.float32(x)), a, mm, TOL32, desc=desc)
        if mm > 0:
            count('cat.log_likelihood')
            ref = math.log(mm.numerator) - math.log(mm.denominator)
            if not (abs(float(l) - ref) <= TOL32 * max(1.0, abs(ref))):
                MISMATCH.append(dict(kind='cat.log_likelihood', desc=desc, params=P, fn='pdf', arg=fs(fx(np.float32(x))), impl=float(l), model=ref))
        else:
            check('cat.log_likelihood', P, 'pdf', fx(np.float32(x)), l, -math.inf, 0.0, desc=desc)
    ks = [0, 1, 2, 3, 4]
    for k, mm in zip(ks, leafq(P, 'moment', ks)):
        check('cat.moment', P, 'moment', k, leaf.moment(k), mm, TOL32, scale=float(cmax) ** k, desc=desc)
        check('cat.moment.circuit', P, 'moment', k, np.asarray(M.moment(leaf, order=k))[0], mm, TOL32, scale=float(cmax) ** k, desc=desc)
    mode = int(leafq(P, 'mode'))
    got = leaf.mpe(np.array([[np.nan]], dtype=np.float32))[0, 0]
    count('cat.mpe')
    if float(got) != float(mode):
        MISMATCH.append(dict(kind='cat.mpe', desc=desc, params=P, fn='mode', arg='-', impl=float(got), model=mode))
    # the dense value-indexed table of the circuit theory (non-negative categories): entry j = pmf(j)
    if min(cats) >= 0:
        nd = max(cats) + 1
        tbl = leafq(P, 'dense', [nd], nout=nd)
        lk = leaf.likelihood(np.arange(nd, dtype=np.float32).reshape(-1, 1)).ravel()
        for j in range(nd):
            check('cat.dense_table', P, 'dense', j, lk[j], tbl[j], TOL32, desc=desc)
    xsc = sorted(set([float(c) for c in cats] + [float(c) + 0.5 for c in cats] + [float(min(cats) - 1)]))
    mc = leafq(P, 'cdf', [fx(x) for x in xsc])
    for x, ic, mm in zip(xsc, leaf.distribution.cdf(xsc), mc):
        check('cat.cdf', P, 'cdf', fx(x), ic, mm, TOL32, scale=1.0, desc=desc)
    if sample:
        draws = leaf.sample(np.full((N_DRAWS, 1), np.nan, dtype=np.float64)).ravel()
        grid = sorted(float(c) for c in cats) + [float(min(cats) - 1)]
        grid = sorted(grid)
        ecdf_check('cat.sample', P, desc, draws, grid, leafq(P, 'cdf', [fx(t) for t in grid]))
        count('cat.sample.in_support')
        if not set(np.unique(draws)).issubset({float(c) for c in cats}):
            MISMATCH.append(dict(kind='cat.sample.in_support', desc=desc, params=P, fn='sample', arg='-',
                                 impl=sorted(set(draws))[:8], model=cats))


# ----------------------------------------------------------------------------------------------- fixed cases
# ----------------------------------------------------------------------------------------------- E. Gaussian
def gaussian_case(mu, sd, as32):
    """`Props/GaussTheory.lean`: the density as SciPy evaluates it (`gaussPdf`, `gaussLogPdf`), `exp(logpdf) = pdf`
    (`gauss_exp_logpdf`), the mean is the mode (`gauss_mode`), raw moments of every order are the polynomial
    `GaussQ.gaussRawMoment` (`gauss_moment_is_integral`) — evaluated exactly by the driver on the stored parameters."""
    from deeprob.spn.structure.leaf import Gaussian
    if as32:
        mu, sd = float(np.float32(mu)), float(np.float32(sd))
    leaf = Gaussian(0, mu, sd)
    leaf.id = 0
    P = dict(family='gaussian', mean=fs(fx(mu)), stddev=fs(fx(sd)))
    desc = f'gaussian mean={mu!r} stddev={sd!r}'
    ks = [0, 1, 2, 3, 4, 5, 6]
    for k, mm in zip(ks, leafq(P, 'moment', ks)):
        sc = max(abs(mu), sd) ** k
        check('gauss.moment', P, 'moment', k, leaf.moment(k), mm, 1e-9, scale=sc, desc=desc)
        if k <= 4 and sc < 1e30:
            check('gauss.moment.circuit', P, 'moment', k, np.asarray(M.moment(leaf, order=k))[0], mm, TOL32, scale=sc, desc=desc)
    # density and log-density at points spread over +-6 sigma, in the form of gaussPdf / gaussLogPdf, in float64
    zs = [0.0, 0.5, -1.0, 2.5, -4.0, 6.0] + [float(t) for t in rs.uniform(-5, 5, 4)]
    xs = [mu + z * sd for z in zs]
    xa = np.array(xs, dtype=np.float64).reshape(-1, 1)
    lik = leaf.likelihood(xa).ravel()
    ll = leaf.log_likelihood(xa).ravel()
    for x, a, l in zip(xs, lik, ll):
        y = (x - mu) / sd
        ref_l = -y * y / 2.0 - math.log(math.sqrt(2.0 * math.pi)) - math.log(sd)
        ref = math.exp(-y * y / 2.0) / math.sqrt(2.0 * math.pi) / sd
        count('gauss.log_likelihood')
        if not (abs(float(l) - ref_l) <= TOL32 * max(1.0, abs(ref_l))):
            MISMATCH.append(dict(kind='gauss.log_likelihood', desc=desc, params=P, fn='logpdf', arg=repr(x), impl=float(l), model=ref_l))
        count('gauss.likelihood')
        if not (abs(float(a) - ref) <= 4 * TOL32 * max(abs(ref), 1e-30)) and ref < 3e38:
            MISMATCH.append(dict(kind='gauss.likelihood', desc=desc, params=P, fn='pdf', arg=repr(x), impl=float(a), model=ref))
        count('gauss.exp_loglik')
        if 1e-30 < ref < 3e38 and not (abs(math.exp(float(l)) - float(a)) <= 1e-4 * max(abs(float(a)), 1e-30)):
            MISMATCH.append(dict(kind='gauss.exp_loglik', desc=desc, params=P, fn='pdf', arg=repr(x), impl=float(a), model=math.exp(float(l))))
    # mpe fills the mean, which maximises the density
    got = leaf.mpe(np.array([[np.nan], [xs[1]]], dtype=np.float64))
    count('gauss.mpe')
    mode = leafq(P, 'mode')
    if Fr(float(got[0, 0])) != pq(mode) or float(got[1, 0]) != xs[1]:
        MISMATCH.append(dict(kind='gauss.mpe', desc=desc, params=P, fn='mode', arg='-', impl=[float(got[0, 0]), float(got[1, 0])], model=mode))
    others = np.array([mu + float(t) * sd for t in rs.uniform(-6, 6, 200)], dtype=np.float64).reshape(-1, 1)
    count('gauss.mode_maximal')
    top = float(leaf.log_likelihood(np.array([[mu]], dtype=np.float64))[0, 0])
    if float(np.max(leaf.log_likelihood(others))) > top + 1e-6 * max(1.0, abs(top)):
        MISMATCH.append(dict(kind='gauss.mode_maximal', desc=desc, params=P, fn='logpdf', arg='-', impl=float(np.max(leaf.log_likelihood(others))), model=top))


def fixed_cases():
    """the objects of the Lean examples, against the implementation (exact numbers of Props/LeafTheory.lean)"""
    leaf = Isotonic(0, np.array([0.2, 0.0, 0.5, 0.3]), np.array([0.0, 1.0, 1.5, 3.5, 4.0]))
    P = dict(family='isotonic', d=['1/5', '0', '1/2', '3/10'], b=['0', '1', '3/2', '7/2', '4'])
    d = leaf.distribution
    count('fixed')
    ok = (leafq(P, 'cdf', [Fr(1)])[0] == Fr(4, 27) and leafq(P, 'ppf', [Fr(4, 27)])[0] == Fr(3, 2)
          and leafq(P, 'moment', [1])[0] == Fr(253, 108))
    ok = ok and abs(d.cdf(1.0) - 4 / 27) < 1e-12 and abs(leaf.moment(1) - 253 / 108) < 1e-12
    # the flat piece: np.interp on the repeated knot answers the RIGHT end of the zero-height bin
    ok = ok and float(d.ppf(float(d._hcdf[1]))) == 1.5
    if not ok:
        MISMATCH.append(dict(kind='fixed', desc='Lean example histogram', params=P, fn='-', arg='-', impl='-', model='-'))
    # witness height_proportional_sampling_is_wrong: unequal widths, the leaf is the uniform law on [0,3]
    leaf = Isotonic(0, [0.5, 0.5], [0.0, 1.0, 3.0])
    P = iso_params_model(leaf)
    count('fixed')
    if not (leafq(P, 'cdf', [Fr(1)])[0] == Fr(1, 3) and abs(leaf.distribution.cdf(1.0) - 1 / 3) < 1e-6
            and abs(leaf.moment(1) - 1.5) < 1e-6 and leafq(P, 'moment', [1])[0] == Fr(3, 2)):
        MISMATCH.append(dict(kind='fixed', desc='witness [1/2,1/2] on [0,1,3]', params=P, fn='-', arg='-', impl='-', model='-'))
    # index vs category
    leaf = Categorical(0, [5, 2, 9], [0.25, 0.5, 0.25])
    P = dict(family='categorical', cats=[5, 2, 9], ps=['1/4', '1/2', '1/4'])
    count('fixed')
    if not (int(leafq(P, 'mode')) == 2 and leaf.mpe(np.array([[np.nan]]))[0, 0] == 2.0
            and leafq(P, 'moment', [1])[0] == Fr(9, 2) and abs(leaf.moment(1) - 4.5) < 1e-6):
        MISMATCH.append(dict(kind='fixed', desc='categories [5,2,9]', params=P, fn='-', arg='-', impl='-', model='-'))


def finding_float32_moments():
    """KNOWN FINDING (printed, not counted): `rv_histogram._munp` evaluates `b**(k+1)` differences in the dtype of
    `breaks`; for the float32 breaks of every list-constructed / fitted Isotonic leaf, narrow bins far from zero lose all
    digits (the reported mean lies outside the support)"""
    leaf = Isotonic(0, [0.5, 0.5], [30000.0, 30000.01, 30000.02])
    P = iso_params_model(leaf)
    m = leafq(P, 'moment', [1, 2])
    i1, i2 = float(leaf.moment(1)), float(leaf.moment(2))
    lo, hi = float(leaf.breaks[0]), float(leaf.breaks[-1])
    bad = not (lo <= i1 <= hi)
    print(f'finding float32-moments: Isotonic(0, [0.5, 0.5], [30000.0, 30000.01, 30000.02]).moment(1) = {i1!r} '
          f'(support [{lo!r}, {hi!r}]; exact {float(m[0])!r} = {fs(m[0])}), moment(2) = {i2!r} (exact {float(m[1])!r}): '
          f'{"REPRODUCED" if bad else "not reproduced"}')


def main():
    global DRV
    DRV = Driver()
    fixed_cases()
    finding_float32_moments()
    n_iso = 0
    for kind in ('equal', 'near', 'unequal'):
        for nb in range(1, 7):
            for as64 in (False, True):
                # sampling cases: a spread of shapes (unequal widths and zero bins are where a wrong bin law shows)
                sample = (kind == 'unequal' and nb in (2, 3, 4, 6)) or (kind == 'equal' and nb in (3,) and as64) or \
                         (kind == 'near' and nb == 5 and not as64)
                sample = sample and (as64 or kind != 'unequal' or nb in (2, 4))
                isotonic_case(kind, nb, as64, sample)
                n_iso += 1
    for i in range(8):
        uniform_case(dyadic=(i % 2 == 0), sample=(i < 2))
    for i in range(6):
        uniform_fit_case(constant=(i % 2 == 0))
    ps = [0.0, 0.5, 1.0] + [float(t) for t in rs.uniform(0, 1, 5)] + [float(np.float32(rs.uniform(0, 1)))]
    for i, p in enumerate(ps):
        bernoulli_case(p, sample=(i in (1, 3, 4)))
    for i, mk in enumerate(['range', 'gaps', 'neg', 'ties'] * 5):
        categorical_case(mk, sample=(i in (1, 2, 3, 5)))
    n_gauss = 0
    for sd in (1e-5, 3e-3, 0.5, 1.0, 2.0, 37.5, 1e3):
        for mu in (0.0, 1.0, -2.5, 1e2, -1e4, float(rs.normal(0, 3))):
            gaussian_case(mu, sd * float(rs.uniform(1.0, 1.5)), as32=(n_gauss % 2 == 0))
            n_gauss += 1
    DRV.close()

    print(f'seed {SEED}  driver {EXE}  driver lines {DRV.lines}')
    print(f'leaves: isotonic {n_iso}, uniform 8, bernoulli {len(ps)}, categorical 20, gaussian {n_gauss}; sampling cases {sampling_cases} '
          f'x {N_DRAWS} draws, DKW band {EPS:.5f} (family-wise level {FWER:g}), worst deviation {worst_dkw:.5f}')
    for k in sorted(COUNTS):
        print(f'  {k:32s} {COUNTS[k]}')
    print(f'break points (implementation, observed): interior breaks answered with the RIGHT bin {brk_right}, with the LEFT bin '
          f'{brk_left}, equal neighbours (undecidable) {brk_same}, other {brk_other}; end points answered with the '
          f'out-of-support constant {end_ood}')
    print('reading `densities` always as heights (harness/spn.py iso_pdf_table, c07 leaf_cdf, c19) instead of as SciPy does '
          '(counts when np.allclose(widths)): largest relative deviation of a bin density — ' +
          ', '.join(f'{k} widths {v:.2e}' for k, v in sorted(heights_reading_dev.items())))
    for n in NOTES:
        print('note:', n)
    total = sum(v for k, v in COUNTS.items() if not k.endswith('skipped_near_knot'))
    if MISMATCH:
        print(f'MISMATCH: {len(MISMATCH)} of {total} comparisons')
        for m in MISMATCH[:25]:
            print('  ', json.dumps(m, default=str)[:900])
        sys.exit(1)
    print(f'OK: model and implementation agree on all {total} comparisons')
    sys.exit(0)


if __name__ == '__main__':
    main()
