"""Fourth wave of translated fragments (tr4): implementation = generated definition = hand-written model, on concrete inputs.

    cd /verif && PYTHONPATH=/repo:/verif /venv/bin/python harness/demos/demo_tr4.py [seed]

Talks to the driver named by DEEPROB_DRIVER (default: /verif/lean; JSON line protocol, exact
rationals as "n/d").  The library is found through PYTHONPATH only.  For every case the REAL code is run, the driver
evaluates the definition GENERATED from the current source (`Gen.S4…`) and the hand-written model definition next to it;
all three must agree (exactly where the quantities are exact, within a float tolerance otherwise).  Exit status 0 iff no
disagreement; the counts per section are printed.  DEMO_SECTIONS=a,b,… restricts the sections that are reported.
"""
import collections, json, math, os, random, subprocess, sys
from fractions import Fraction as Fr
import numpy as np

import deeprob.spn.learning.learnspn as learnspn
from deeprob.spn.structure.leaf import Bernoulli, Categorical
from deeprob.spn.structure.node import Sum, Product, assign_ids, topological_order
from deeprob.spn.structure.cltree import BinaryCLT
from deeprob.spn.structure.cnet import BinaryCNet
from deeprob.spn.algorithms import structure as structure_mod
from deeprob.spn.algorithms import sampling as sampling_mod
from deeprob.spn.learning import cnet_bayesian
from deeprob.utils.graph import compute_bfs_ordering
from deeprob.utils.statistics import estimate_priors_joints, compute_mutual_information

EXE = os.environ.get('DEEPROB_DRIVER', __import__('os').path.join(__import__('os').path.dirname(__import__('os').path.dirname(__import__('os').path.dirname(__import__('os').path.abspath(__file__)))), 'lean', '.lake', 'build', 'bin', 'driver'))
WANT = set(filter(None, os.environ.get('DEMO_SECTIONS', '').split(',')))
seed = int(sys.argv[1]) if len(sys.argv) > 1 else 1
rnd = random.Random(seed)
np.random.seed(seed)


class Driver:
    def __init__(self):
        if not os.path.exists(EXE):
            sys.exit('driver is not built: ' + EXE)
        self.p = subprocess.Popen([EXE], stdin=subprocess.PIPE, stdout=subprocess.PIPE, text=True, bufsize=1)

    def ask(self, obj):
        self.p.stdin.write(json.dumps(obj) + '\n')
        self.p.stdin.flush()
        a = self.p.stdout.readline().rstrip('\n')
        if not a or a.startswith('bad-op'):
            raise RuntimeError(f'driver: {a!r} for {json.dumps(obj)[:300]}')
        return a


D = Driver()
counts = collections.Counter()
bad = []


def fs(x):
    q = Fr(float(x))
    return f'{q.numerator}/{q.denominator}'


def pq(s):
    n, d = s.split('/')
    return Fr(int(n), int(d))


def close(a, b, tol=1e-5):
    a, b = float(a), float(b)
    return abs(a - b) <= tol * (1 + abs(b))


def check(section, ok, info):
    if WANT and section.split('.')[0] not in WANT:
        return
    counts[section] += 1
    if not ok:
        bad.append((section, info))
        if len(bad) <= 20:
            print('MISMATCH', section, info)


def on(section):
    return not WANT or section in WANT


# ------------------------------------------------------------------ (a) learn_spn: the operation selected for every task
if on('a'):
    code = learnspn.learn_spn.__code__
    for trial in range(40):
        nrows, ncols = rnd.randrange(4, 16), rnd.randrange(1, 6)
        data = np.random.randint(0, 2, size=(nrows, ncols)).astype(np.float32)
        for j in range(ncols):
            if rnd.random() < 0.25:
                data[:, j] = rnd.randrange(2)                      # an uninformative column
        min_rows, min_cols = rnd.randrange(1, 6), rnd.randrange(1, 4)
        seen = []              # (task, shape, mask, op) per popped task
        cur = {'task': None}

        def local_trace(frame, event, arg):
            loc = frame.f_locals
            task = next((v for v in loc.values() if isinstance(v, learnspn.Task)), None)
            if task is None:
                return local_trace
            if task is not cur['task']:
                cur['task'] = task
                seen.append([task, None, None])
            op = next((v for v in loc.values() if isinstance(v, learnspn.OperationKind)), None)
            mask = next((v for v in loc.values() if isinstance(v, np.ndarray) and v.dtype == np.bool_ and v.ndim == 1
                         and len(v) == task.data.shape[1]), None)
            seen[-1][1], seen[-1][2] = (None if mask is None else mask.copy()), op
            return local_trace

        def tracer(frame, event, arg):
            return local_trace if frame.f_code is code else None

        def my_rows(d, dists, doms, rs, **kw):
            return np.array([rnd.randrange(rnd.choice([1, 2, 3])) for _ in range(len(d))])

        def my_cols(d, dists, doms, rs, **kw):
            return np.array([rnd.randrange(rnd.choice([1, 2])) for _ in range(d.shape[1])])

        sys.settrace(tracer)
        try:
            learnspn.learn_spn(data, [Bernoulli] * ncols, [[0, 1]] * ncols, learn_leaf='mle', split_rows=my_rows, split_cols=my_cols,
                               min_rows_slice=min_rows, min_cols_slice=min_cols, random_state=seed, verbose=False)
        finally:
            sys.settrace(None)
        for task, mask, op in seen:
            if mask is None or op is None:
                check('a.select_op', False, ('no observation', task))
                continue
            n, m = task.data.shape
            ans = D.ask({'op': 's4_select_op', 'rows': n, 'cols': m, 'ncs': bool(task.no_cols_split), 'nrs': bool(task.no_rows_split),
                         'first': bool(task.is_first), 'zv': [bool(b) for b in mask], 'min_rows': min_rows, 'min_cols': min_cols})
            g, md = ans.split()
            check('a.select_op', g == md == op.name, (n, m, task.no_cols_split, task.no_rows_split, task.is_first, mask.tolist(), ans, op.name))


# ------------------------------------------------------------------ (b) Chow-Liu trees: BFS ordering, log_likelihood, mpe
def rand_pred(n):
    order = list(range(n))
    rnd.shuffle(order)
    pred = [0] * n
    pred[order[0]] = -1
    for k in range(1, n):
        pred[order[k]] = order[rnd.randrange(k)]
    return pred


def fitted_clt(n, scope=None):
    scope = scope or list(range(n))
    train = np.random.randint(0, 2, size=(rnd.randrange(8, 40), n)).astype(np.float32)
    clt = BinaryCLT(scope, root=scope[rnd.randrange(n)])
    clt.fit(train, [[0, 1]] * n, alpha=rnd.choice([0.01, 0.1, 1.0]), random_state=rnd.randrange(10 ** 6))
    return clt


def clt_json(clt):
    cpt = np.exp(clt.params.astype(np.float64))
    return {'scope': [int(s) for s in clt.scope], 'pred': [int(t) for t in clt.tree],
            'cpt': [[[fs(cpt[i, l, k]) for k in (0, 1)] for l in (0, 1)] for i in range(len(clt.scope))]}


if on('b'):
    for _ in range(120):
        n = rnd.randrange(1, 9)
        pred = rand_pred(n)
        impl = compute_bfs_ordering(list(pred))
        g, md = D.ask({'op': 's4_bfs', 'pred': pred}).split(' | ')
        check('b.bfs', g == md == ' '.join(map(str, impl)), (pred, g, md, impl))
        impl_arr = compute_bfs_ordering(np.array(pred, dtype=np.int64))
        check('b.bfs', list(impl_arr) == list(impl), (pred, impl_arr))
    for _ in range(40):
        n = rnd.randrange(1, 6)
        clt = fitted_clt(n)
        cj = clt_json(clt)
        nrows = rnd.randrange(1, 7)
        x = np.random.randint(0, 2, size=(nrows, n)).astype(np.float32)
        if rnd.random() < 0.6:
            x[np.random.rand(nrows, n) < 0.3] = np.nan
        batch_any = bool(np.isnan(x).any())
        ll = clt.log_likelihood(x)[:, 0]
        for r in range(nrows):
            row = [None if np.isnan(v) else int(v) for v in x[r]]
            g, md = D.ask(dict(cj, op='s4_clt_ll', row=row, batch_any=batch_any)).split()
            check('b.log_likelihood', g == md and close(math.log(pq(g)), ll[r], 1e-4), (cj, row, g, md, ll[r]))
        # the upward pass itself: messages of both reductions, and the value returned with return_lls=True
        obs_mask = ~np.isnan(x)
        for reduce in ('mar', 'mpe'):
            msgs = clt.message_passing(x, obs_mask, return_lls=False, reduce=reduce)          # (n_features, n_samples, 2)
            rv = clt.message_passing(x, obs_mask, return_lls=True, reduce=reduce)
            for r in range(nrows):
                row = [None if np.isnan(v) else int(v) for v in x[r]]
                g, md, vals = D.ask(dict(cj, op='s4_clt_messages', row=row, reduce=reduce)).split(' | ')
                gv = [math.log(pq(t)) for t in g.split()]
                ok = g == md and np.allclose(gv, msgs[:, r, :].reshape(-1), atol=1e-4)
                if reduce == 'mar':
                    a, b = vals.split()
                    ok = ok and a == b and close(math.log(pq(a)), rv[r], 1e-4)
                check('b.message_passing', ok, (cj, row, reduce, g, md, vals, msgs[:, r, :].reshape(-1), rv[r]))
        comp = clt.mpe(x)
        for r in range(nrows):
            row = [None if np.isnan(v) else int(v) for v in x[r]]
            g, md = D.ask(dict(cj, op='s4_clt_mpe', row=row)).split(' | ')
            impl = ' '.join(str(int(v)) for v in comp[r])
            ok = g == md
            if ok and impl != g:
                # a tie within float accuracy: both completions must attain the maximum
                best = D.ask(dict(cj, op='clt_mpe', row=row)).split(' | ')[2]
                ok = close(pq(D.ask(dict(cj, op='clt_value', row=[int(v) for v in comp[r]]))), pq(best), 1e-6)
                counts['b.mpe.ties'] += 1
            check('b.mpe', ok, (cj, row, g, md, impl))


# ------------------------------------------------------------------ (c) marginalize: the pass before the final prune
def rand_spn(nvars, depth):
    def leaf(v):
        if rnd.random() < 0.5:
            return Bernoulli(v, rnd.uniform(0.05, 0.95))
        K = rnd.randrange(2, 4)
        return Categorical(v, list(range(K)), np.random.dirichlet(np.ones(K)).astype(np.float32))
    def build(scope, d):
        if len(scope) == 1 and (d <= 0 or rnd.random() < 0.5):
            return leaf(scope[0])
        if len(scope) > 1 and (d % 2 == 0 or d <= 0):
            cut = rnd.randrange(1, len(scope))
            sc = scope[:]
            rnd.shuffle(sc)
            return Product(children=[build(sorted(sc[:cut]), d - 1), build(sorted(sc[cut:]), d - 1)])
        k = rnd.randrange(2, 4)
        return Sum(children=[build(scope, d - 1) for _ in range(k)], weights=np.random.dirichlet(np.ones(k)).astype(np.float32))
    return assign_ids(build(list(range(nvars)), depth))


def export(root):
    order = list(reversed(topological_order(root)))        # children first
    idx = {id(n): i for i, n in enumerate(order)}
    nodes = []
    for n in order:
        sc = [int(s) for s in n.scope]
        if isinstance(n, Sum):
            nodes.append({'kind': 'sum', 'id': idx[id(n)], 'scope': sc, 'ch': [idx[id(c)] for c in n.children], 'w': [fs(w) for w in n.weights]})
        elif isinstance(n, Product):
            nodes.append({'kind': 'prod', 'id': idx[id(n)], 'scope': sc, 'ch': [idx[id(c)] for c in n.children]})
        elif isinstance(n, Bernoulli):
            nodes.append({'kind': 'cat', 'id': idx[id(n)], 'scope': sc, 'v': sc[0], 'tbl': [fs(1 - n.p), fs(n.p)]})
        else:
            nodes.append({'kind': 'cat', 'id': idx[id(n)], 'scope': sc, 'v': sc[0], 'tbl': [fs(p) for p in n.probabilities]})
    return nodes, idx[id(root)]


def render_impl(n):
    sc = ' '.join(str(int(s)) for s in n.scope)
    if isinstance(n, Sum):
        return 'S{' + sc + '}(' + ','.join(render_impl(c) for c in n.children) + ')'
    if isinstance(n, Product):
        return 'P{' + sc + '}(' + ','.join(render_impl(c) for c in n.children) + ')'
    return 'L{' + sc + '}'


def render_pass(text, kinds, root):
    cells = [c.split(';') for c in text.split(',')]
    def rec(i):
        rep, sc, ch = cells[i]
        if kinds[i] == 'cat':
            return 'L{' + sc + '}'
        return ('S' if kinds[i] == 'sum' else 'P') + '{' + sc + '}(' + ','.join(rec(int(cells[int(c)][0])) for c in ch.split()) + ')'
    r = cells[root][0]
    return None if r == '-' else rec(int(r))


if on('c'):
    real_prune = structure_mod.prune
    for _ in range(80):
        nv = rnd.randrange(2, 6)
        root = rand_spn(nv, rnd.randrange(1, 4))
        nodes, ridx = export(root)
        D.ask({'op': 'net', 'nodes': nodes, 'root': ridx})
        keep = rnd.sample(range(nv), rnd.randrange(1, nv + 1))
        g, md = D.ask({'op': 's4_marg', 'keep': keep}).split(' | ')
        captured = []
        structure_mod.prune = lambda r, copy=True: (captured.append(render_impl(r)), real_prune(r, copy=copy))[1]
        try:
            structure_mod.marginalize(root, keep)
        finally:
            structure_mod.prune = real_prune
        impl = captured[0] if captured else None
        mine = render_pass(g, [n['kind'] for n in nodes], ridx)
        check('c.marginalize', g == md and impl == mine, (keep, g, md, impl, mine))


# ------------------------------------------------------------------ (d) Chow-Liu parameters, mutual information
if on('d'):
    for _ in range(40):
        n = rnd.randrange(2, 6)
        X = np.random.randint(0, 2, size=(rnd.randrange(5, 30), n)).astype(np.float32)
        alpha = rnd.choice([0.01, 0.1, 0.5, 1.0])
        clt = BinaryCLT(list(range(n)), root=rnd.randrange(n))
        clt.fit(X, [[0, 1]] * n, alpha=alpha, random_state=rnd.randrange(10 ** 6))
        priors, joints = estimate_priors_joints(X, alpha=alpha)
        params = BinaryCLT.compute_clt_parameters(clt.bfs, clt.tree, priors, joints)
        g, md = D.ask({'op': 's4_clt_param', 'X': X.astype(int).tolist(), 'alpha': fs(np.float32(alpha)) if False else str(Fr(str(alpha))),
                       'pred': [int(t) for t in clt.tree], 'root': int(clt.bfs[0])}).split(' | ')
        gv = [float(pq(t)) for t in g.split()]
        check('d.clt_parameters', g == md and np.allclose(gv, params.reshape(-1), atol=1e-4), (alpha, clt.tree, g, md, params.reshape(-1)))
        mi = compute_mutual_information(priors, joints)
        pj = [[fs(p) for p in row] for row in priors.astype(np.float64)]
        for _k in range(4):
            i, j = rnd.randrange(n), rnd.randrange(n)
            if i == j:
                check('d.mutual_information', mi[i, j] == 0.0, (i, j, mi[i, j]))
                continue
            tot = 0.0
            for k in (0, 1):
                for l in (0, 1):
                    outer = float(pq(D.ask({'op': 's4_mi_outers', 'priors': pj, 'i': i, 'j': j, 'k': k, 'l': l})))
                    jt = float(joints[i, j, k, l])
                    tot += jt * (math.log(jt) - math.log(outer))
            check('d.mutual_information', close(tot, mi[i, j], 1e-4), (i, j, tot, mi[i, j]))


# ------------------------------------------------------------------ (e) the three cutset-network learners
def walk(node, depth=0):
    yield node, depth
    if not node.clt and getattr(node, 'children', None):
        for c in node.children:
            yield from walk(c, depth + 1)


def cnet_check(section, kind, root, data, par0, extra):
    for node, depth in walk(root):
        rows, scope = [int(r) for r in node.row_indices], [int(s) for s in node.scope]
        par = par0 / (2 ** depth) if kind == 'bd' else par0
        is_leaf = bool(node.clt) or not node.children
        req = dict(op='s4_cnet_step', kind=kind, data=data.astype(int).tolist(), rows=rows, scope=scope, par=str(Fr(str(par))),
                   cut=None if is_leaf else int(node.or_id), **extra)
        ans = D.ask(req)
        g, md = ans.split(' | ')
        md = md.split(' crash=')[0]
        ok = g == md
        if ok and not is_leaf:
            v, ws, l, r = g.split(';')
            w0, w1 = [float(pq(t)) for t in ws.split()]
            def cell(c):
                return ':'.join([' '.join(str(int(t)) for t in c.row_indices), ' '.join(str(int(t)) for t in c.scope),
                                 ' '.join(str(int(t)) for t in c.col_indices)])
            ok = int(v) == int(node.or_id) and close(w0, node.weights[0]) and close(w1, node.weights[1]) \
                and l == cell(node.children[0]) and r == cell(node.children[1])
        if ok and is_leaf:
            ok = g == 'leaf'
        check(section, ok, (kind, rows, scope, par, ans, None if is_leaf else (node.or_id, node.weights)))


if on('e'):
    for _ in range(12):
        n = rnd.randrange(2, 6)
        data = np.random.randint(0, 2, size=(rnd.randrange(20, 70), n)).astype(np.float32)
        data[:, 0] = (data[:, 1 % n] + (np.random.rand(len(data)) < 0.15)) % 2          # some structure to cut on
        alpha = rnd.choice([0.01, 0.1])
        ms, mf = rnd.randrange(3, 12), 1
        cn = BinaryCNet(list(range(n)))
        cn.fit(data, alpha=alpha, min_n_samples=ms, min_n_features=mf, min_mean_entropy=0.01)
        cn.row_indices, cn.col_indices = np.arange(len(data)), np.arange(n)
        cnet_check('e.fit', 'fit', cn, data, alpha, dict(min_samples=ms, min_features=mf))
    for _ in range(8):
        n = rnd.randrange(3, 6)
        data = np.random.randint(0, 2, size=(rnd.randrange(60, 160), n)).astype(np.float32)
        # context-specific dependence (no single tree captures it): x2 = x1 when x0 = 0, x2 = 1 - x1 when x0 = 1
        flip = (np.random.rand(len(data)) < 0.05)
        data[:, 2] = np.where(data[:, 0] == 0, data[:, 1], 1 - data[:, 1])
        data[flip, 2] = 1 - data[flip, 2]
        ess = rnd.choice([0.1, 0.5, 1.0])
        try:
            root = cnet_bayesian.learn_cnet_bd(data, ess=ess, n_cand_cuts=3)
            cnet_check('e.bd', 'bd', root, data, ess, dict(ncand=3))
        except TypeError:
            counts['e.bd.typeerror'] += 1
        alpha = rnd.choice([0.01, 0.1])
        try:
            root = cnet_bayesian.learn_cnet_bic(data, alpha=alpha, n_cand_cuts=3)
            cnet_check('e.bic', 'bic', root, data, alpha, dict(ncand=3))
        except TypeError:
            counts['e.bic.typeerror'] += 1
    # n_cand_cuts == 1: the code raises TypeError; generated predicate and model agree that it does
    data = np.random.randint(0, 2, size=(30, 3)).astype(np.float32)
    for fn, kind in ((cnet_bayesian.learn_cnet_bd, 'bd'), (cnet_bayesian.learn_cnet_bic, 'bic')):
        try:
            fn(data, n_cand_cuts=1)
            raised = False
        except TypeError:
            raised = True
        ans = D.ask(dict(op='s4_cnet_step', kind=kind, data=data.astype(int).tolist(), rows=list(range(30)), scope=[0, 1, 2], par='1/10', ncand=1, cut=None))
        check('e.cand_crash', raised and ans.endswith('crash=true/true'), (kind, raised, ans))


# ------------------------------------------------------------------ (f) RAT-SPN layers: index propagation, arg-max, unpadding
if on('f'):
    import torch
    from deeprob.spn.layers.ratspn import ProductLayer, SumLayer, RootLayer, BernoulliLayer
    torch.manual_seed(seed)
    torch.set_num_threads(1)
    for _ in range(60):
        in_nodes, m, rows = rnd.randrange(1, 5), rnd.randrange(1, 4), rnd.randrange(1, 4)
        pl = ProductLayer(in_regions=8, in_nodes=in_nodes)
        g = torch.randint(0, 4, (rows, m))
        o = torch.randint(0, in_nodes * in_nodes, (rows, m))
        g2, o2 = pl.sample(g, o)
        g3, o3 = pl.mpe(None, g, o)
        for r in range(rows):
            a, b = D.ask({'op': 's4_rat_prod', 'in_nodes': in_nodes, 'g': g[r].tolist(), 'o': o[r].tolist()}).split(' | ')
            impl = ' '.join(map(str, g2[r].tolist())) + ';' + ' '.join(map(str, o2[r].tolist()))
            impl3 = ' '.join(map(str, g3[r].tolist())) + ';' + ' '.join(map(str, o3[r].tolist()))
            check('f.product', a == b == impl == impl3, (in_nodes, g[r].tolist(), o[r].tolist(), a, b, impl))
    skipped = 0
    for _ in range(60):
        parts, in_nodes, out_nodes, rows, m = rnd.randrange(1, 4), rnd.randrange(1, 5), rnd.randrange(1, 4), rnd.randrange(1, 4), rnd.randrange(1, 4)
        sl = SumLayer(parts, in_nodes, out_nodes)
        with torch.no_grad():
            sl.weight.normal_()
        x = torch.randn(rows, parts, in_nodes)
        g = torch.randint(0, parts, (rows, m))
        o = torch.randint(0, out_nodes, (rows, m))
        with torch.no_grad():
            g2, o2 = sl.mpe(x, g, o)
            w = torch.softmax(sl.weight.double(), dim=2)
        for r in range(rows):
            a, b = D.ask({'op': 's4_rat_sum_mpe', 'x': [[fs(math.exp(v)) for v in row] for row in x[r].double().tolist()],
                          'w': [[[fs(v) for v in vv] for vv in ww] for ww in w.tolist()], 'g': g[r].tolist(), 'o': o[r].tolist()}).split(' | ')
            impl = ' '.join(map(str, g2[r].tolist())) + ';' + ' '.join(map(str, o2[r].tolist()))
            if a == b and a != impl:
                skipped += 1          # float32 near-tie
                continue
            check('f.sum_mpe', a == b == impl, (a, b, impl))
    counts['f.sum_mpe.near_ties'] = skipped
    for _ in range(40):
        parts, in_nodes, classes, rows = rnd.randrange(1, 4), rnd.randrange(1, 5), rnd.randrange(1, 4), rnd.randrange(1, 4)
        rl = RootLayer(parts, in_nodes, classes)
        with torch.no_grad():
            rl.weight.normal_()
        x = torch.randn(rows, parts, in_nodes)
        y = torch.randint(0, classes, (rows,))
        with torch.no_grad():
            g2, o2 = rl.mpe(x, y)
            w = torch.softmax(rl.weight.double(), dim=1)
        for r in range(rows):
            a, b = D.ask({'op': 's4_rat_root_mpe', 'x': [[fs(math.exp(v)) for v in row] for row in x[r].double().tolist()],
                          'w': [fs(v) for v in w[int(y[r])].tolist()]}).split(' | ')
            impl = ' '.join(map(str, g2[r].tolist())) + ';' + ' '.join(map(str, o2[r].tolist()))
            check('f.root_mpe', a == b == impl, (a, b, impl))
    for _ in range(40):
        n, d, reps, rows = rnd.randrange(2, 8), 1, rnd.randrange(1, 3), rnd.randrange(1, 4)
        d = rnd.randrange(1, int(math.floor(math.log2(n))) + 1)
        regions = []
        for _t in range(reps):
            perm = list(np.random.permutation(n))
            regions += [tuple(int(v) for v in part) for part in np.array_split(perm, 2 ** d)]
        bl = BernoulliLayer(n, 2, regions, d)
        width = n + bl.pad
        x = torch.randint(0, 9, (rows, width)).float()
        g = torch.stack([torch.arange(2 ** d) + 2 ** d * rnd.randrange(reps) for _ in range(rows)])
        out = bl.unpad_samples(x, g)
        for r in range(rows):
            a, b = D.ask({'op': 's4_rat_unpad', 'n': n, 'd': d, 'regions': [list(t) for t in regions], 'x': [int(v) for v in x[r].tolist()],
                          'g': g[r].tolist()}).split(' | ')
            impl = ' '.join(str(int(v)) for v in out[r].tolist())
            check('f.unpad', a == b == impl, (n, d, regions, x[r].tolist(), g[r].tolist(), a, b, impl))

# ------------------------------------------------------------------ (g) sum_sample: scores, noise, branch law
if on('g'):
    real_rvs = sampling_mod.stats.gumbel_r.rvs
    for _ in range(60):
        k, rows = rnd.randrange(1, 6), rnd.randrange(1, 5)
        w = np.random.dirichlet(np.ones(k)).astype(np.float32)
        node = Sum(children=[Bernoulli(0) for _ in range(k)], weights=w.copy())
        lls = np.log(np.random.rand(rows, k))
        noise = np.random.gumbel(size=(rows, k))
        sizes = []
        sampling_mod.stats.gumbel_r.rvs = lambda loc, scale, size=None: (sizes.append((loc, scale, size)), noise)[1]
        try:
            br = sampling_mod.sum_sample(node, lls)
        finally:
            sampling_mod.stats.gumbel_r.rvs = real_rvs
        want = np.argmax(lls + np.log(w) + noise, axis=1)               # the generated entry `ll + log w + g`, arg-max over the children
        check('g.sum_sample', list(br) == list(want) and sizes == [(0.0, 1.0, (rows, k))], (w, lls, noise, br, want, sizes))
        for r in range(rows):
            pm = [float(pq(t)) for t in D.ask({'op': 's4_branch_pmf', 'w': [fs(t) for t in w], 'l': [fs(math.exp(v)) for v in lls[r]]}).split()]
            sc = lls[r] + np.log(w.astype(np.float64))
            sm = np.exp(sc - np.max(sc)); sm /= sm.sum()
            check('g.branch_law', np.allclose(pm, sm, atol=1e-6), (w, lls[r], pm, sm))
    b = Bernoulli(0, 0.3)
    xs = np.array([[np.nan], [1.0]])
    np.random.seed(7); a1 = sampling_mod.leaf_sample(b, xs.copy())
    np.random.seed(7); a2 = b.sample(xs.copy())
    check('g.leaf_sample', np.array_equal(a1, a2), (a1, a2))

print('counts:', dict(sorted(counts.items())))
print('mismatches:', len(bad))
sys.exit(1 if bad else 0)
