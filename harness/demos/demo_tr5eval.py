"""Fifth wave, (c): the LOOPS of the serial evaluation passes as the translator extracts them — implementation = generated loop =
hand-written model, on concrete circuits.

    cd /verif && VERIF_SEED=<n> PYTHONPATH=/repo:/verif /venv/bin/python harness/demos/demo_tr5eval.py [seed]

For random circuits with sharing-free structure and table leaves (Bernoulli / Categorical) the REAL code of /repo is run
(`likelihood(..., return_results=True)`, `mpe`, `moment`: the serial paths of `eval_bottom_up` / `eval_top_down`), the driver
executes the loops GENERATED from the current source (`Gen.S5evalUp…`, `Gen.S5evalDown…`, `Gen.S5momentLoop`; tables indexed by
the code's own node ids, visiting order = the generated `topological_order`) and the hand-written model (`evalNet`,
`mpeNetOrd`, `momentNet`) next to them.  generated = model exactly; implementation = generated within float tolerance
(completions: exactly, when the arg-max margin of the row exceeds 1e-4).
Exit 0 on agreement; `DISAGREE` lines and exit 1 otherwise.  Seeded by VERIF_SEED (or argv[1]).
"""
import json, os, subprocess, sys, random, collections
from fractions import Fraction as Fr
import numpy as np

from deeprob.spn.structure.leaf import Bernoulli, Categorical
from deeprob.spn.structure.node import Sum, Product, assign_ids, topological_order
from deeprob.spn.algorithms.inference import likelihood, mpe
from deeprob.spn.algorithms import moments as moments_mod

HERE = os.path.dirname(os.path.abspath(__file__))
EXE = os.environ.get('DEEPROB_DRIVER', os.path.join(os.path.dirname(os.path.dirname(HERE)), 'lean', '.lake', 'build', 'bin', 'driver'))
seed = int(sys.argv[1]) if len(sys.argv) > 1 else int(os.environ.get('VERIF_SEED', '1'))
rnd = random.Random(seed)
np.random.seed(seed % (2 ** 32))


class Driver:
    def __init__(self):
        if not os.path.exists(EXE):
            sys.exit('driver is not built: ' + EXE)
        self.p = subprocess.Popen([EXE], stdin=subprocess.PIPE, stdout=subprocess.PIPE, text=True, bufsize=1)

    def ask(self, obj):
        self.p.stdin.write(json.dumps(obj) + '\n')
        self.p.stdin.flush()
        a = self.p.stdout.readline().rstrip('\n')
        if not a or a.startswith('bad-op'):
            raise RuntimeError(f'driver: {a!r} for {json.dumps(obj)[:300]}')
        return a


D = Driver()
counts = collections.Counter()
bad = []


def fs(x):
    q = Fr(float(x))
    return f'{q.numerator}/{q.denominator}'


def pq(s):
    n, d = s.split('/')
    return Fr(int(n), int(d))


def close(a, b, tol=1e-5):
    a, b = float(a), float(b)
    return abs(a - b) <= tol * (1 + abs(b))


def check(section, ok, info):
    counts[section] += 1
    if not ok:
        bad.append((section, info))
        if len(bad) <= 20:
            print('DISAGREE', section, info)


def rand_spn(nvars, depth, share):
    pool = {}

    def leaf(v):
        if share and v in pool and rnd.random() < 0.4:
            return pool[v]                                  # a leaf object shared by several parents (a DAG)
        if rnd.random() < 0.5:
            l = Bernoulli(v, rnd.uniform(0.05, 0.95))
        else:
            K = rnd.randrange(2, 4)
            l = Categorical(v, list(range(K)), np.random.dirichlet(np.ones(K)).astype(np.float32))
        pool[v] = l
        return l

    def build(scope, d):
        if len(scope) == 1 and (d <= 0 or rnd.random() < 0.5):
            return leaf(scope[0])
        if len(scope) > 1 and (d % 2 == 0 or d <= 0):
            cut = rnd.randrange(1, len(scope))
            sc = scope[:]
            rnd.shuffle(sc)
            return Product(children=[build(sorted(sc[:cut]), d - 1), build(sorted(sc[cut:]), d - 1)])
        k = rnd.randrange(2, 4)
        return Sum(children=[build(scope, d - 1) for _ in range(k)], weights=np.random.dirichlet(np.ones(k)).astype(np.float32))
    return assign_ids(build(list(range(nvars)), depth))


def export(root):
    order = list(reversed(topological_order(root)))        # children first
    pos = {id(n): i for i, n in enumerate(order)}
    nodes = []
    for n in order:
        d = {'id': n.id, 'scope': list(map(int, n.scope)), 'ch': [pos[id(c)] for c in n.children]}
        if isinstance(n, Sum):
            d.update(kind='sum', w=[fs(t) for t in n.weights])
        elif isinstance(n, Product):
            d.update(kind='prod')
        elif isinstance(n, Bernoulli):
            d.update(kind='cat', v=int(n.scope[0]), tbl=[fs(1 - Fr(float(n.p))), fs(n.p)])
        else:
            d.update(kind='cat', v=int(n.scope[0]), tbl=[fs(t) for t in n.probabilities])
        nodes.append(d)
    return order, pos, nodes


for trial in range(30):
    nv = rnd.randrange(2, 5)
    root = rand_spn(nv, rnd.randrange(2, 5), share=trial % 2 == 1)
    order, pos, nodes = export(root)
    a = D.ask({'op': 'net', 'nodes': nodes, 'root': pos[id(root)], 'dom': [4] * nv})
    if 'wellOrdered=true' not in a:
        raise RuntimeError('export is not children-first: ' + a)
    bern = [pos[id(n)] for n in order if isinstance(n, Bernoulli)]
    # the generated `topological_order` must be the code's own (positions)
    gen_topo = D.ask({'op': 's5_topo'}).split(' queueempty')[0]
    check('topo', gen_topo == ' '.join(str(pos[id(n)]) for n in topological_order(root)), (gen_topo,))
    for _ in range(6):
        # ---- (a) eval_bottom_up: likelihood with all node values
        row = [None if rnd.random() < 0.3 else rnd.randrange(2) for _ in range(nv)]
        x = np.array([[np.nan if v is None else float(v) for v in row]])
        out, ls = likelihood(root, x, return_results=True)
        ret, gen, model = D.ask({'op': 's5_eval_up', 'row': row}).split(' | ')
        gv, mv = [pq(t) for t in gen.split()], [pq(t) for t in model.split()]
        ok = ret != 'none' and len(gv) == len(order) and all(gv[n.id] == mv[pos[id(n)]] for n in order) and pq(ret) == gv[root.id]
        check('a.eval_up gen=model', ok, (row, ret, gen, model))
        check('a.eval_up impl=gen', ok and all(close(gv[n.id], ls[n.id][0]) for n in order) and close(pq(ret), out[0]), (row, gen, ls[:, 0]))
        # ---- (b) eval_top_down: mpe (rows with a missing entry)
        if all(v is not None for v in row):
            row[rnd.randrange(nv)] = None
            x = np.array([[np.nan if v is None else float(v) for v in row]])
        gen, model = D.ask({'op': 's5_eval_down', 'row': row, 'bern': bern}).split(' | ')
        check('b.eval_down gen=model', gen == model and 'nan' not in gen, (row, gen, model))
        mg = D.ask({'op': 'mpe', 'row': row, 'bern': bern}).split(' | ')[1]
        comp = mpe(root, x)[0]
        impl = ' '.join(str(int(v)) for v in comp)
        if mg == 'inf' or pq(mg) > Fr(1, 10000):
            check('b.eval_down impl=gen', impl == gen, (row, impl, gen, mg))
        else:
            counts['b.eval_down (tie, not compared)'] += 1
    # ---- (c) moments.moment
    for k in (1, 2, 3):
        m = moments_mod.moment(root, order=k)
        gen, model = D.ask({'op': 's5_moment', 'order': k, 'nvars': nv}).split(' | ')
        check('c.moment gen=model', gen == model and not gen.startswith('none'), (k, gen, model))
        check('c.moment impl=gen', gen != 'none' and all(close(pq(t), mv_, 1e-4) for t, mv_ in zip(gen.split(), m)) and len(gen.split()) == len(m), (k, gen, m))

print('cases per section:', dict(sorted(counts.items())))
print(f'total {sum(counts.values())} cases, {len(bad)} disagreements')
sys.exit(1 if bad else 0)
