#!/venv/bin/python
"""
Correspondence demo for the Lean model of the XPC learner (Model/Xpc.lean, Driver/OpsXpc.lean).

Learns XPCs / ensembles with the REAL `learn_xpc` / `learn_expc`, exports `utils['part_root']` together with
the oracle values `build_leaf` computed (recorded by wrapping `xpc.build_leaf`, never taken from the returned
circuit) and the spanning trees `build_trees_dict` computed (recorded by wrapping `xpc.maximum_spanning_tree`),
replays `buildXpc` in the Lean driver and compares:
  * canonical text of the built circuit vs the circuit the library returned (structure, scopes, child order,
    leaf parameters exactly; horizontal-split weights: the model's exact |rows_i|/|rows| must round to the
    stored float32 / float64 weight);
  * `partinv` verdict must be true on every returned tree;
  * product scopes and `get_scopes()` of the CLT leaves vs the model's `prodScopes` / `cltScopes`; with sd the
    family must be laminar (model verdict and an independent Python check);
  * `build_trees_dict` vs `Xpc.treesDict`; the sd discipline `sdInvB`.
Run:  PYTHONPATH=/repo /venv/bin/python /root/work2/xpc/demo_xpc.py [n_configs]
"""
import sys, json, subprocess, itertools, io, contextlib, collections
from fractions import Fraction
import numpy as np

sys.path.insert(0, __import__('os').environ.get('DEEPROB_REPO', '/repo'))
from deeprob.spn.learning import xpc as X
from deeprob.spn.structure.node import Sum, Product
from deeprob.spn.structure.leaf import Bernoulli
from deeprob.spn.structure.cltree import BinaryCLT

LEAN_DIR = '/root/work2/xpc/lean'


def frac(x):
    return Fraction(float(x))


def fstr(q):
    q = Fraction(q)
    return f"{q.numerator}/{q.denominator}"


class Driver:
    def __init__(self):
        import os
        # XPC_DRIVER=<native driver with handleXpc registered in Driver/Main.lean>; default: interpreted stand-alone loop
        cmd = [os.environ['XPC_DRIVER']] if os.environ.get('XPC_DRIVER') else ['lake', 'env', 'lean', '--run', 'Driver/XpcMain.lean']
        self.p = subprocess.Popen(cmd, cwd=LEAN_DIR,
                                  stdin=subprocess.PIPE, stdout=subprocess.PIPE, text=True, bufsize=1)

    def ask(self, obj):
        self.p.stdin.write(json.dumps(obj) + '\n')
        self.p.stdin.flush()
        a = self.p.stdout.readline()
        if not a:
            raise RuntimeError('driver died')
        a = a.rstrip('\n')
        if a.startswith('bad-op'):
            raise RuntimeError(a)
        return a

    def close(self):
        self.p.stdin.close()
        self.p.wait()


# ---------------------------------------------------------------- real circuit -> text / tree
def sc_text(scope):
    return '[' + ', '.join(str(int(v)) for v in scope) + ']'


def circ_text(n):
    """same format as harness/clt.py circ_text, plus CLT[scope]"""
    sc = sc_text(n.scope)
    if isinstance(n, Sum):
        return f"S{sc}[" + ','.join(fstr(frac(w)) + ':' + circ_text(c) for w, c in zip(n.weights, n.children)) + ']'
    if isinstance(n, Product):
        return f"P{sc}[" + ','.join(circ_text(c) for c in n.children) + ']'
    if isinstance(n, Bernoulli):
        p = float(n.p)
        return f"L{sc}({fstr(frac(1.0 - p))},{fstr(frac(p))},1/1)"
    if isinstance(n, BinaryCLT):
        return f"CLT{sc}"
    raise ValueError(type(n))


def parse_text(s):
    """parse the canonical text into nested tuples"""
    pos = [0]

    def scope():
        assert s[pos[0]] == '[', (s[pos[0]:pos[0] + 20])
        j = s.index(']', pos[0])
        body = s[pos[0] + 1:j]
        pos[0] = j + 1
        return [int(t) for t in body.split(', ')] if body else []

    def node():
        if s.startswith('CLT', pos[0]):
            pos[0] += 3
            return ('CLT', scope())
        k = s[pos[0]]
        pos[0] += 1
        sc = scope()
        if k == 'L':
            j = s.index(')', pos[0])
            qs = s[pos[0] + 1:j].split(',')
            pos[0] = j + 1
            return ('L', sc, [Fraction(q) for q in qs])
        assert s[pos[0]] == '['
        pos[0] += 1
        ws, cs = [], []
        while s[pos[0]] != ']':
            if s[pos[0]] == ',':
                pos[0] += 1
            if k == 'S':
                j = s.index(':', pos[0])
                ws.append(Fraction(s[pos[0]:j]))
                pos[0] = j + 1
            cs.append(node())
        pos[0] += 1
        return (k, sc, ws, cs) if k == 'S' else (k, sc, cs)

    r = node()
    assert pos[0] == len(s), 'trailing text'
    return r


def compare(model, real, path='root'):
    """model tree (parsed driver text) vs real node; returns None or a description of the first difference"""
    sc = [int(v) for v in real.scope]
    if isinstance(real, Sum):
        if model[0] != 'S':
            return f'{path}: real Sum, model {model[0]}'
        if model[1] != sc:
            return f'{path}: Sum scope {sc} vs model {model[1]}'
        if len(model[3]) != len(real.children) or len(model[2]) != len(real.weights):
            return f'{path}: Sum arity {len(real.children)} vs model {len(model[3])}'
        w = np.asarray(real.weights)
        for i, (mw, rw) in enumerate(zip(model[2], w)):
            # exact model weight must round (float64 division, then the dtype the library stores) to the stored weight
            if w.dtype.type(mw.numerator / mw.denominator) != rw:
                return f'{path}: weight {i}: stored {float(rw)!r} ({w.dtype}) vs model {mw}'
        for i, (m, c) in enumerate(zip(model[3], real.children)):
            d = compare(m, c, f'{path}.{i}')
            if d:
                return d
        return None
    if isinstance(real, Product):
        if model[0] != 'P':
            return f'{path}: real Product, model {model[0]}'
        if model[1] != sc:
            return f'{path}: Product scope {sc} vs model {model[1]}'
        if len(model[2]) != len(real.children):
            return f'{path}: Product arity {len(real.children)} vs model {len(model[2])}'
        for i, (m, c) in enumerate(zip(model[2], real.children)):
            d = compare(m, c, f'{path}.{i}')
            if d:
                return d
        return None
    if isinstance(real, Bernoulli):
        p = float(real.p)
        want = [frac(1.0 - p), frac(p), Fraction(1)]
        if model[0] != 'L' or model[1] != sc or model[2] != want:
            return f'{path}: Bernoulli {sc} p={p} vs model {model}'
        return None
    if isinstance(real, BinaryCLT):
        if model[0] != 'CLT' or model[1] != sc:
            return f'{path}: CLT {sc} vs model {model[:2]}'
        return None
    return f'{path}: unexpected node {type(real)}'


# ---------------------------------------------------------------- recorders and exporter
class Recorder:
    """wraps xpc.build_leaf and xpc.maximum_spanning_tree (the oracles of the model)"""

    def __init__(self):
        self.leaves = {}
        self.mst_calls = []          # one list of trees per build_trees_dict call
        self._bl, self._mst, self._btd = X.build_leaf, X.maximum_spanning_tree, X.build_trees_dict

    def __enter__(self):
        rec = self

        def build_leaf(data, part, use_clt, trees_dict, det, alpha):
            leaf = rec._bl(data, part, use_clt, trees_dict, det, alpha)
            rec.leaves[id(part)] = leaf
            return leaf

        def mst(adj_matrix, root):
            r = rec._mst(adj_matrix=adj_matrix, root=root)
            rec.mst_calls[-1].append([int(t) for t in r[1]])
            return r

        def btd(*a, **k):
            rec.mst_calls.append([])
            return rec._btd(*a, **k)

        X.build_leaf, X.maximum_spanning_tree, X.build_trees_dict = build_leaf, mst, btd
        return self

    def __exit__(self, *a):
        X.build_leaf, X.maximum_spanning_tree, X.build_trees_dict = self._bl, self._mst, self._btd


def export_leaf_par(leaf, part, data):
    d = dict(row0=[int(v) for v in part.get_slice(data)[0]])
    bern = None
    if isinstance(leaf, Bernoulli):
        bern = [leaf]
    elif isinstance(leaf, Product) and all(isinstance(c, Bernoulli) for c in leaf.children):
        bern = leaf.children
    if bern is not None:
        d['tbl'] = [[fstr(frac(1.0 - float(b.p))), fstr(frac(float(b.p)))] for b in bern]
    if isinstance(leaf, Sum):
        d['ws'] = [fstr(frac(w)) for w in leaf.weights]
    if isinstance(leaf, BinaryCLT):
        cpt = np.exp(np.asarray(leaf.params, dtype=np.float64))
        d['clt'] = dict(scope=[int(v) for v in leaf.scope], pred=[int(t) for t in leaf.tree],
                        cpt=[[[fstr(frac(cpt[i, l, k])) for k in range(2)] for l in range(2)] for i in range(cpt.shape[0])])
    return d


def export_part(part, rec, data):
    rows = [int(r) for r in part.row_ids]
    cols = [int(c) for c in part.col_ids]
    if part.is_partitioned():
        return dict(kind='H' if part.is_horizontally_partitioned() else 'V', rows=rows, cols=cols,
                    subs=[export_part(s, rec, data) for s in part.sub_partitions])
    d = dict(kind='L', rows=rows, cols=cols, is_conj=bool(part.is_conj), is_naive=bool(part.is_naive),
             disc=None if part.disc_assignments is None else [[int(v) for v in a] for a in part.disc_assignments])
    d.update(export_leaf_par(rec.leaves[id(part)], part, data))
    return d


PAR_DEV = dict(tbl=Fraction(0), ws=Fraction(0), cpt=Fraction(0), neg=0)


def par_deviation(j):
    """ParOK holds in exact arithmetic; record how far the exported float parameters are from it"""
    if j['kind'] == 'L':
        for a, b in j.get('tbl', []):
            PAR_DEV['tbl'] = max(PAR_DEV['tbl'], abs(Fraction(a) + Fraction(b) - 1))
            PAR_DEV['neg'] += (Fraction(a) < 0) + (Fraction(b) < 0)
        if 'ws' in j:
            PAR_DEV['ws'] = max(PAR_DEV['ws'], abs(sum(Fraction(w) for w in j['ws']) - 1))
            PAR_DEV['neg'] += sum(Fraction(w) <= 0 for w in j['ws'])
        if 'clt' in j:
            for node in j['clt']['cpt']:
                for row in node:
                    PAR_DEV['cpt'] = max(PAR_DEV['cpt'], abs(Fraction(row[0]) + Fraction(row[1]) - 1))
    for s in j.get('subs', []):
        par_deviation(s)


def count_parts(j, c):
    c[j['kind']] += 1
    if j['kind'] == 'L':
        if j['is_conj']:
            c['leaf:conj'] += 1
        elif 'clt' in j:
            c['leaf:clt'] += 1
        elif 'ws' in j:
            c['leaf:disj'] += 1
        elif j['disc'] is not None and 'tbl' in j and 'clt' not in j:
            c['leaf:mle(naive)'] += 1
        else:
            c['leaf:mle(other)'] += 1
        if 'tbl' in j and len(j['cols']) == 1 and not j['is_conj']:
            c['leaf:single-bernoulli'] += 1
    for s in j.get('subs', []):
        if j['kind'] == 'V' and len(j['subs']) == 1:
            c['V:single-sub'] += 1
        count_parts(s, c)


def bfs_nodes(root):
    out, q = [], collections.deque([root])
    while q:
        n = q.popleft()
        out.append(n)
        q.extend(getattr(n, 'children', None) or [])
    return out


def laminar_py(scopes):
    ss = [set(s) for s in scopes]
    for a, b in itertools.combinations(ss, 2):
        i = len(a & b)
        if i != 0 and i != min(len(a), len(b)):
            return False
    return True


def parse_lists(txt):
    return json.loads(txt)



# ---------------------------------------------------------------- seeded corruptions (negative controls)
def _first(j, pred):
    if pred(j):
        return j
    for s in j.get('subs', []):
        r = _first(s, pred)
        if r is not None:
            return r
    return None


def mut_drop_row(j):
    n = _first(j, lambda x: x['kind'] == 'H' and len(x['subs'][0]['rows']) > 1)
    if n is None:
        return False
    def drop(x, r):
        if r in x['rows']:
            x['rows'].remove(r)
        for s in x.get('subs', []):
            drop(s, r)
    drop(n['subs'][0], n['subs'][0]['rows'][0])       # the row disappears below the split: union != rows
    return True


def mut_dup_col(j):
    n = _first(j, lambda x: x['kind'] == 'V' and len(x['subs']) == 2)
    if n is None:
        return False
    n['subs'][1]['cols'] = n['subs'][1]['cols'] + [n['subs'][0]['cols'][0]]   # overlapping column sets
    return True


def mut_swap_children(j):
    n = _first(j, lambda x: x['kind'] == 'H' and len(x['subs']) >= 2 and len(x['subs'][0]['rows']) != len(x['subs'][-1]['rows']))
    if n is None:
        return False
    n['subs'][0], n['subs'][-1] = n['subs'][-1], n['subs'][0]                 # still a valid tree, different circuit
    return True


def mut_flip_conj(j):
    n = _first(j, lambda x: x['kind'] == 'L' and x['is_conj'])
    if n is None:
        return False
    n['row0'][0] = 1 - n['row0'][0]                                             # different indicator
    return True


def mut_short_tbl(j):
    n = _first(j, lambda x: x['kind'] == 'L' and not x['is_conj'] and 'tbl' in x and 'clt' not in x and 'ws' not in x and len(x['cols']) >= 2)
    if n is None:
        return False
    n['tbl'] = n['tbl'][:-1]                                                    # shape the code would raise on
    return True


MUTATIONS = [('drop-row', mut_drop_row), ('dup-col', mut_dup_col), ('swap-children', mut_swap_children),
             ('flip-conj', mut_flip_conj), ('short-tbl', mut_short_tbl)]

# ---------------------------------------------------------------- data / configurations
def gen_data(rs, nr, nv, fam):
    if fam == 0:
        Xd = (rs.rand(nr, nv) < 0.5)
    elif fam == 1:                       # correlated chain
        Xd = np.zeros((nr, nv), dtype=bool)
        Xd[:, 0] = rs.rand(nr) < 0.5
        for j in range(1, nv):
            flip = rs.rand(nr) < 0.2
            Xd[:, j] = np.where(flip, ~Xd[:, j - 1], Xd[:, j - 1])
    elif fam == 2:                       # skewed marginals
        Xd = rs.rand(nr, nv) < rs.choice([0.05, 0.3, 0.9], size=nv)
    else:                                # two clusters
        z = rs.rand(nr) < 0.5
        pa, pb = rs.rand(nv), rs.rand(nv)
        Xd = rs.rand(nr, nv) < np.where(z[:, None], pa[None, :], pb[None, :])
    Xd = Xd.astype(np.float32)
    if nv >= 3 and rs.rand() < 0.5:
        Xd[:, rs.randint(nv)] = float(rs.randint(2))          # constant column
    if nv >= 3 and rs.rand() < 0.5:
        a, b = rs.choice(nv, size=2, replace=False)
        Xd[:, a] = Xd[:, b]                                    # duplicated column
    return Xd


def main():
    n_cfg = int(sys.argv[1]) if len(sys.argv) > 1 else 144
    drv = Driver()
    stats = collections.Counter()
    parts_seen = collections.Counter()
    raised = collections.Counter()
    problems = []
    sample = None
    combos = list(itertools.product([False, True], [False, True], [False, True], [1, 2, 3]))   # det, sd, use_clt, conj_len
    k = 0
    while stats['xpc-returned'] < n_cfg and k < 6 * n_cfg:
        rs = np.random.RandomState(1000 + k)
        det, sd, use_clt, conj_len = combos[k % len(combos)]
        k += 1
        nv = int(rs.randint(5, 11))
        nr = int(rs.choice([40, 80, 150, 300]))
        data = gen_data(rs, nr, nv, int(rs.randint(4)))
        cfg = dict(det=det, sd=sd, min_part_inst=int(rs.choice([3, 5, 10, 30])), conj_len=conj_len,
                   arity=int(rs.choice([2, 3, 4])), use_clt=use_clt, random_seed=int(rs.randint(1000)))
        if rs.rand() < 0.15:
            cfg['n_max_parts'] = int(rs.choice([4, 8, 16]))
        if sd and rs.rand() < 0.3:
            cfg['use_greedy_ordering'] = True
        tag = f'cfg#{k - 1} {cfg} data={nr}x{nv}'
        with Recorder() as rec:
            try:
                root, utils = X.learn_xpc(data, **cfg)
            except Exception as ex:
                raised[f'{type(ex).__name__}: {str(ex)[:60]}'] += 1
                stats['xpc-raised'] += 1
                continue
        stats['xpc-returned'] += 1
        pj = export_part(utils['part_root'], rec, data)
        count_parts(pj, parts_seen)
        par_deviation(pj)
        ans = drv.ask(dict(op='xpc', use_clt=use_clt, det=det, part=pj))
        verdict, text = ans.split(' ', 1)
        if verdict != 'partinv=true':
            problems.append(f'{tag}: {verdict}')
        diff = compare(parse_text(text), root)
        if diff:
            problems.append(f'{tag}: TEXT {diff}')
        else:
            stats['text-agree'] += 1
        if sorted(int(v) for v in root.scope) != list(range(nv)):
            problems.append(f'{tag}: root scope {root.scope}')
        if sample is None and det and sd and use_clt and len(text) < 900:
            sample = (cfg, pj, ans, circ_text(root))

        # negative controls: seeded corruptions of the exported tree must flip the verdicts
        if stats['xpc-returned'] % 8 == 1:
            for name, mut in MUTATIONS:
                pj2 = json.loads(json.dumps(pj))
                if not mut(pj2):
                    continue
                stats['neg-tried:' + name] += 1
                try:
                    a5 = drv.ask(dict(op='xpc', use_clt=use_clt, det=det, part=pj2))
                except RuntimeError as ex:          # e.g. kind mismatch reported by the parser
                    stats['neg-caught:' + name] += 1
                    continue
                v5, t5 = a5.split(' ', 1)
                if v5 == 'partinv=false' or compare(parse_text(t5), root):
                    stats['neg-caught:' + name] += 1
                else:
                    problems.append(f'{tag}: corruption {name} not noticed')
        # scopes
        nodes = bfs_nodes(root)
        real_prod = sorted(sorted(int(v) for v in n.scope) for n in nodes if isinstance(n, Product))
        real_clt = sorted(sorted(int(v) for v in s) for n in nodes if isinstance(n, BinaryCLT) for s in n.get_scopes())
        a2 = drv.ask(dict(op='xpc_scopes', use_clt=use_clt, det=det, part=pj))
        lam, rest = a2.split(' prod=')
        mp, mc = rest.split(' clt=')
        mprod = sorted(sorted(s) for s in parse_lists(mp))
        mclt = sorted(sorted(s) for s in parse_lists(mc))
        if mprod != real_prod or mclt != real_clt:
            problems.append(f'{tag}: SCOPES prod {mprod == real_prod} clt {mclt == real_clt}')
        else:
            stats['scopes-agree'] += 1
        lam_py = laminar_py(real_prod + real_clt)
        if (lam == 'laminar=true') != lam_py:
            problems.append(f'{tag}: laminar verdicts differ: model {lam}, python {lam_py}')
        if sd:
            stats['sd-returned'] += 1
            if lam != 'laminar=true':
                problems.append(f'{tag}: sd requested but product/CLT scopes are NOT laminar')
            else:
                stats['sd-laminar'] += 1
            scopes = [[int(v) for v in c] for c in utils['conj_vars_l']]
            free = list(set(np.arange(nv)) - set(v for c in scopes for v in c))     # as build_trees_dict computes it
            if free:
                scopes = scopes + [[int(v) for v in free]]
            if utils['trees_dict'] is not None:
                trees = rec.mst_calls[-1]
                a3 = drv.ask(dict(op='xpc_trees', trees=trees, scopes=scopes))
                real_dict = ';'.join(f"{key}:[{', '.join(str(int(t)) for t in v[0])}]:[{', '.join(str(int(t)) for t in v[1])}]"
                                     for key, v in utils['trees_dict'].items())
                if a3 != real_dict:
                    problems.append(f'{tag}: TREES_DICT model {a3} real {real_dict}')
                else:
                    stats['trees-dict-agree'] += 1
            else:
                # no CLT leaves: the discipline does not need the trees; use path trees
                trees = [[-1] + list(range(len(s) - 1)) for s in scopes]
            a4 = drv.ask(dict(op='xpc_sd', use_clt=use_clt, det=det, part=pj, trees=trees, scopes=scopes))
            if a4 != 'sdinv=true blocksok=true':
                problems.append(f'{tag}: SD discipline: {a4}')
            else:
                stats['sdinv-true'] += 1
        else:
            stats['nonsd-laminar' if lam_py else 'nonsd-not-laminar'] += 1

    # ------------------------------------------------------------ ensembles
    n_ens = max(8, n_cfg // 8)
    k = 0
    while stats['expc-returned'] < n_ens and k < 6 * n_ens:
        rs = np.random.RandomState(5000 + k)
        np.random.seed(7000 + k)            # learn_expc shuffles the ordering with the global generator
        k += 1
        nv = int(rs.randint(5, 9))
        nr = int(rs.choice([80, 150, 300]))
        data = gen_data(rs, nr, nv, int(rs.randint(4)))
        sd_level = int(k % 3)
        cfg = dict(ensemble_dim=int(rs.randint(2, 5)), det=bool(rs.rand() < 0.5), sd_level=sd_level,
                   min_part_inst=int(rs.choice([5, 10, 30])), conj_len=int(rs.choice([2, 3]) if sd_level == 2 else rs.choice([1, 2, 3])),
                   arity=int(rs.choice([2, 3, 4])), use_clt=bool(rs.rand() < 0.7), random_seed=int(rs.randint(1000)))
        tag = f'ens#{k - 1} {cfg} data={nr}x{nv}'
        with Recorder() as rec:
            try:
                with contextlib.redirect_stdout(io.StringIO()):
                    root, utils = X.learn_expc(data, **cfg)
            except Exception as ex:
                raised[f'expc {type(ex).__name__}: {str(ex)[:60]}'] += 1
                stats['expc-raised'] += 1
                continue
        stats['expc-returned'] += 1
        pjs = [export_part(u['part_root'], rec, data) for u in utils]
        ans = drv.ask(dict(op='expc', use_clt=cfg['use_clt'], det=cfg['det'], parts=pjs))
        verdict, text = ans.split(' ', 1)
        # a member whose partitioning found nothing is a single leaf partition: still a valid tree for PartInv
        if verdict != 'partinv=true':
            problems.append(f'{tag}: {verdict}')
        diff = compare(parse_text(text), root)
        if diff:
            problems.append(f'{tag}: TEXT {diff}')
        else:
            stats['expc-text-agree'] += 1
        if sd_level == 2:
            nodes = bfs_nodes(root)
            fam = [sorted(int(v) for v in n.scope) for n in nodes if isinstance(n, Product)] + \
                  [sorted(int(v) for v in s) for n in nodes if isinstance(n, BinaryCLT) for s in n.get_scopes()]
            stats['expc-sd2-laminar' if laminar_py(fam) else 'expc-sd2-NOT-laminar'] += 1
            if not laminar_py(fam):
                problems.append(f'{tag}: sd_level 2 ensemble is not laminar')
            scopes = [[int(v) for v in c] for c in max((u['conj_vars_l'] for u in utils), key=len)]
            free = list(set(np.arange(nv)) - set(v for c in scopes for v in c))
            if free:
                scopes = scopes + [[int(v) for v in free]]
            trees = rec.mst_calls[-1] if (cfg['use_clt'] and rec.mst_calls) else [[-1] + list(range(len(sc) - 1)) for sc in scopes]
            for i, pj in enumerate(pjs):
                a4 = drv.ask(dict(op='xpc_sd', use_clt=cfg['use_clt'], det=cfg['det'], part=pj, trees=trees, scopes=scopes))
                if a4 != 'sdinv=true blocksok=true':
                    problems.append(f'{tag}: member {i}: SD discipline w.r.t. the common dictionary: {a4}')
                else:
                    stats['expc-sd2-member-sdinv-true'] += 1
    drv.close()

    print('== results ==')
    for key in sorted(stats):
        print(f'  {key}: {stats[key]}')
    print('== partition kinds seen ==')
    for key in sorted(parts_seen):
        print(f'  {key}: {parts_seen[key]}')
    print('== ParOK on the exported float parameters (exact in Q; here: max deviation) ==')
    print(f"  |q0+q1-1| <= {float(PAR_DEV['tbl']):.3g}   |sum(ws)-1| <= {float(PAR_DEV['ws']):.3g}   |cpt row sum-1| <= {float(PAR_DEV['cpt']):.3g}   non-positive weights / negative table entries: {PAR_DEV['neg']}")
    print('== configurations that raised (not returns) ==')
    for key, v in raised.most_common():
        print(f'  {v:4d}  {key}')
    print('== problems ==')
    for p in problems[:40]:
        print('  ' + p)
    print(f'  total: {len(problems)}')
    if sample:
        cfg, pj, ans, real = sample
        print('== sample ==')
        print('cfg', cfg)
        print('op  ', json.dumps(dict(op='xpc', use_clt=cfg['use_clt'], det=cfg['det'], part=pj))[:1500], '...')
        print('ans ', ans)
        print('real', real)
    return 1 if problems else 0


if __name__ == '__main__':
    sys.exit(main())
