"""Differential check of the algebra driver ops against the real code (scratch; PYTHONPATH=/repo)."""
import sys, json, subprocess, random, math, io, copy
from fractions import Fraction as Fr
import numpy as np
from deeprob.spn.structure.leaf import Bernoulli, Categorical, Gaussian
from deeprob.spn.structure.node import Sum, Product, assign_ids, topological_order
from deeprob.spn.structure.cltree import BinaryCLT
from deeprob.spn.structure.cnet import BinaryCNet
from deeprob.spn.algorithms.moments import moment
from deeprob.spn.algorithms.inference import log_likelihood, likelihood
from deeprob.spn.algorithms.gradient import eval_backward

LEAN = '/root/work/algebra/lean'
rnd = random.Random(int(sys.argv[1]) if len(sys.argv) > 1 else 1)
np.random.seed(rnd.randrange(2**31))

def fs(x): q = Fr(float(x)); return f"{q.numerator}/{q.denominator}"
def pq(s): n, d = s.split('/'); return Fr(int(n), int(d))
ops, checks = [], []
def add(op, check): ops.append(op); checks.append(check)
def close(a, b, tol=2e-5): return abs(float(a) - float(b)) <= tol * (1 + abs(float(b)))

# ---------------- round8: exact
for _ in range(300):
    x = rnd.choice([rnd.random(), rnd.uniform(-5, 5), rnd.randrange(1, 4000) / 512, rnd.randrange(1, 99999) / 2**rnd.randrange(1, 30),
                    1e-5, float(np.float32(rnd.random()))])
    def ck(out, x=x):
        q = pq(out)
        return float(q) == round(x, 8) and float(q) == float(np.around(np.float64(x), 8)), (x, out, round(x, 8))
    add({"op": "round8", "x": fs(x)}, ck)

# ---------------- EM steps
for _ in range(60):
    k = rnd.randrange(2, 6); n = rnd.randrange(2, 7); eta = rnd.uniform(0.05, 0.95)
    w = np.random.dirichlet(np.ones(k)).astype(np.float32)
    s = Sum(children=[Bernoulli(0) for _ in range(k)], weights=w.copy())
    stats = np.random.rand(k, n)
    old = s.weights.copy(); s.em_step(stats, eta)
    def ck(out, new=s.weights.copy()):
        v = [pq(t) for t in out.split()]
        return len(v) == len(new) and all(close(a, b) for a, b in zip(v, new)), (out, new)
    add({"op": "emstep", "kind": "sum", "old": [fs(x) for x in old], "eta": fs(eta), "stats": [fs(x) for x in stats.sum(axis=1)]}, ck)

    b = Bernoulli(0, rnd.random()); st = np.random.rand(n); data = np.random.randint(0, 2, size=(n, 1)).astype(np.float32)
    old = b.p; b.em_step(st, data, eta)
    add({"op": "emstep", "kind": "bern", "old": fs(old), "eta": fs(eta), "stats": [fs(x) for x in st], "data": [fs(x) for x in data[:, 0]]},
        lambda out, new=b.p: (close(pq(out), new), (out, new)))

    K = rnd.randrange(2, 5); pr = np.random.dirichlet(np.ones(K))
    c = Categorical(0, list(range(K)), list(pr)); dat = np.random.randint(0, K, size=(n, 1)).astype(np.float32)
    old = c.probabilities.copy(); c.em_step(st, dat, eta)
    def ck(out, new=c.probabilities.copy()):
        v = [pq(t) for t in out.split()]
        return len(v) == len(new) and all(close(a, b) for a, b in zip(v, new)), (out, new)
    add({"op": "emstep", "kind": "cat", "old": [fs(x) for x in old], "eta": fs(eta), "stats": [fs(x) for x in st], "data": [int(x) for x in dat[:, 0]]}, ck)

    g = Gaussian(0, rnd.uniform(-1, 1), rnd.uniform(0.2, 2)); gd = np.random.randn(n, 1)
    om, os_ = g.mean, g.stddev
    T = st.sum() + np.finfo(np.float32).eps; mean = (st * gd[:, 0]).sum() / T
    arg = (st * (gd[:, 0] - mean) ** 2).sum() / T
    g.em_step(st, gd, eta)
    def ck(out, nm=g.mean, ns=g.stddev, arg=arg):
        v = [pq(t) for t in out.split()]
        return len(v) == 3 and close(v[0], nm, 1e-9) and close(v[1], arg, 1e-9) and close(v[2], ns, 1e-9), (out, nm, arg, ns)
    add({"op": "emstep", "kind": "gauss", "mean": fs(om), "std": fs(os_), "eta": fs(eta), "stats": [fs(x) for x in st],
         "data": [fs(x) for x in gd[:, 0]], "sqrt": fs(math.sqrt(arg))}, ck)

    nv = rnd.randrange(2, 5); X = np.random.randint(0, 2, size=(40, nv)).astype(np.float32)
    clt = BinaryCLT(list(range(nv))); clt.fit(X, [[0, 1]] * nv, alpha=0.1, random_state=rnd.randrange(1000))
    m = rnd.randrange(2, 8); bd = np.random.randint(0, 2, size=(m, nv)).astype(np.float32); st2 = np.random.rand(m)
    oldp = np.exp(clt.params.astype(np.float64)); clt.em_step(st2, bd, eta)
    def ck(out, new=np.exp(clt.params.astype(np.float64))):
        rows = [[pq(t) for t in r.split()] for r in out.split(';')]
        flat = new.reshape(-1, 2)
        return len(rows) == len(flat) and all(close(a, b, 1e-4) for r, f in zip(rows, flat) for a, b in zip(r, f)), (out, flat)
    add({"op": "emstep", "kind": "clt", "pred": [int(t) for t in clt.tree], "old": [[[fs(x) for x in r] for r in blk] for blk in oldp],
         "eta": fs(eta), "stats": [fs(x) for x in st2], "data": [[fs(x) for x in r] for r in bd]}, ck)

# ---------------- random small SPNs: moments and backward
def rand_spn(nvars, depth, shared):
    def leaf(v):
        if v in shared and rnd.random() < 0.5: return shared[v]
        if rnd.random() < 0.5: l = Bernoulli(v, rnd.uniform(0.05, 0.95))
        else:
            K = rnd.randrange(2, 4); l = Categorical(v, list(range(K)), list(np.random.dirichlet(np.ones(K))))
        shared.setdefault(v, l); return l
    def build(vs, d):
        if len(vs) == 1 and (d == 0 or rnd.random() < 0.6): return leaf(vs[0])
        if d == 0 or (len(vs) > 1 and rnd.random() < 0.5):
            if len(vs) == 1: return leaf(vs[0])
            cut = rnd.randrange(1, len(vs)); vs2 = vs[:]; rnd.shuffle(vs2)
            return Product(children=[build(sorted(vs2[:cut]), max(d - 1, 0)), build(sorted(vs2[cut:]), max(d - 1, 0))])
        k = rnd.randrange(2, 4)
        return Sum(children=[build(vs, d - 1) for _ in range(k)], weights=list(np.random.dirichlet(np.ones(k))))
    r = build(list(range(nvars)), depth)
    if not isinstance(r, (Sum, Product)): r = Product(children=[r]) if nvars == 1 else r
    return assign_ids(r)

def export(root):
    order = topological_order(root); order = list(reversed(order)); pos = {id(n): i for i, n in enumerate(order)}
    nodes = []
    for n in order:
        if isinstance(n, Sum): nodes.append({"id": n.id, "kind": "sum", "scope": list(n.scope), "ch": [pos[id(c)] for c in n.children], "w": [fs(w) for w in n.weights]})
        elif isinstance(n, Product): nodes.append({"id": n.id, "kind": "prod", "scope": list(n.scope), "ch": [pos[id(c)] for c in n.children]})
        elif isinstance(n, Bernoulli): nodes.append({"id": n.id, "kind": "cat", "scope": list(n.scope), "v": n.scope[0], "tbl": [fs(1 - Fr(float(n.p))), fs(n.p)]})
        else: nodes.append({"id": n.id, "kind": "cat", "scope": list(n.scope), "v": n.scope[0], "tbl": [fs(p) for p in n.probabilities]})
    return nodes, pos[id(root)], order

for _ in range(60):
    nv = rnd.randrange(1, 4); root = rand_spn(nv, rnd.randrange(1, 4), {})
    nodes, r, order = export(root)
    for k in range(0, 5):
        mv = moment(root, k)
        def ck(out, mv=mv):
            v = [pq(t) for t in out.split()]
            return len(v) == len(mv) and all(close(a, b, 1e-5) for a, b in zip(v, mv)), (out, mv)
        add({"op": "momentnet", "nodes": nodes, "root": r, "k": k}, ck)
    row = [rnd.randrange(0, 2) for _ in range(nv)]
    x = np.array([row], dtype=np.float32)
    _, lls = log_likelihood(root, x, return_results=True)
    grads = eval_backward(root, lls)
    def ck(out, lls=lls, grads=grads, order=order):
        a, b = out.split(' | ')
        vals = [pq(t) for t in a.split()]; gr = [pq(t) for t in b.split()]
        ok = all(close(vals[i], math.exp(lls[n.id][0]), 1e-4) for i, n in enumerate(order))
        ok = ok and all(close(gr[i], math.exp(grads[n.id][0]), 1e-4) for i, n in enumerate(order))
        return ok, (out, [math.exp(grads[n.id][0]) for n in order])
    add({"op": "backward", "nodes": nodes, "root": r, "row": row}, ck)

# ---------------- cutset networks
def export_cnet(n):
    if n.clt is not None:
        return {"kind": "clt", "scope": [int(s) for s in n.scope], "pred": [int(t) for t in n.clt.tree],
                "cpt": [[[fs(x) for x in r] for r in blk] for blk in np.exp(n.clt.params.astype(np.float64))]}
    return {"kind": "or", "scope": [int(s) for s in n.scope], "v": int(n.or_id), "w": [fs(w) for w in n.weights],
            "ch": [export_cnet(c) for c in n.children]}
made = 0
for t in range(40):
    nv = rnd.randrange(3, 7); N = rnd.randrange(60, 200)
    base = np.random.randint(0, 2, size=(N, 1)); X = (np.random.rand(N, nv) < (0.2 + 0.6 * base)).astype(np.float32)
    cn = BinaryCNet(scope=list(range(nv)))
    cn.fit(X, alpha=0.01, min_n_samples=rnd.randrange(5, 30), min_n_features=1, min_mean_entropy=0.01)
    if not cn.children: continue
    made += 1
    T = np.random.randint(0, 2, size=(6, nv)).astype(np.float32)
    ll = cn.log_likelihood(T)
    def ck(out, ll=ll):
        v = [pq(t) for t in out.split()]
        return len(v) == len(ll) and all(close(math.log(a), b, 1e-4) for a, b in zip(v, ll)), (out, np.exp(ll))
    add({"op": "cnet", "tree": export_cnet(cn), "rows": [[int(x) for x in r] for r in T]}, ck)

# ---------------- posterior: pinned table vs the real pinned code (rows = classes)
from deeprob.spn.models.sklearn import SPNClassifier
for _ in range(30):
    C = rnd.randrange(2, 5)
    brs = [Product(children=[Bernoulli(0, rnd.uniform(.1, .9)), Bernoulli(1, rnd.uniform(.1, .9)), Categorical(2, list(range(C)), list(np.random.dirichlet(np.ones(C))))]) for _ in range(C)]
    w = np.random.dirichlet(np.ones(C)); root = assign_ids(Sum(children=brs, weights=list(w)))
    clf = SPNClassifier([Bernoulli, Bernoulli]); clf.spn_ = root; clf.n_features_ = 2; clf.n_classes_ = C
    X = np.random.randint(0, 2, size=(C, 2)).astype(np.float32)
    data = np.hstack([X, np.full([C, 1], np.nan)])
    _, lls_all = log_likelihood(root, data, return_results=True)
    L = [[float(np.exp(np.float64(lls_all[b.id][r]))) for r in range(C)] for b in brs]
    try:
        P = clf.predict_proba(X)
    except Exception as ex:
        P = None
    pred = clf.predict(X)
    def ck(out, P=P):
        rows = [[pq(t) for t in r.split()] for r in out.split(';')]
        return P is not None and all(close(a, b, 1e-4) for r, f in zip(rows, P) for a, b in zip(r, f)), (out, P)
    add({"op": "posteriorpinned", "w": [fs(x) for x in root.weights], "L": [[fs(x) for x in r] for r in L]}, ck)
    def ck2(out, w=root.weights, L=L, pred=pred):
        tab, am = out.split(' | ')
        rows = [[pq(t) for t in r.split()] for r in tab.split(';')]
        ref = [[w[k] * L[k][r] / sum(w[j] * L[j][r] for j in range(len(w))) for k in range(len(w))] for r in range(len(L[0]))]
        ok = all(close(a, b, 1e-6) for r, f in zip(rows, ref) for a, b in zip(r, f)) and all(abs(sum(r) - 1) == 0 for r in rows)
        return ok, (out, ref)
    add({"op": "posterior", "w": [fs(x) for x in root.weights], "L": [[fs(x) for x in r] for r in L], "rows": C}, ck2)

inp = '\n'.join(json.dumps(o) for o in ops) + '\n'
res = subprocess.run(['lake', 'env', 'lean', '--run', '/root/work/algebra/scratch/AlgMain.lean'], input=inp, capture_output=True, text=True, cwd=LEAN)
outs = res.stdout.strip().split('\n')
assert len(outs) == len(ops), (len(outs), len(ops), res.stderr[:500])
bad = 0; by = {}
for o, out, ck in zip(ops, outs, checks):
    key = o['op'] + (':' + o['kind'] if 'kind' in o else '')
    by.setdefault(key, [0, 0])
    if out.startswith('bad-op'): ok, info = False, out
    else: ok, info = ck(out)
    by[key][0] += 1
    if not ok:
        by[key][1] += 1; bad += 1
        if by[key][1] <= 2: print('MISMATCH', key, str(info)[:600])
print({k: f'{v[0]} cases, {v[1]} bad' for k, v in by.items()}, 'cnets', made)
sys.exit(1 if bad else 0)
