#!/venv/bin/python
"""Differential demo for the sampling / MPE clause of C16 (Driver/OpsRatSample.lean).

Small Bernoulli RAT-SPNs are built with the real library (features 2..6 with and without padding,
depth 1..2, repetitions 1..2, batch 1..2, sums 1..2, classes 1..2, random parameters), their
soft-max-normalised parameters are exported as exact rationals (float64 -> Fraction) together with the
permutations `RegionGraph.random_layers` actually drew, and the Lean driver is asked for

  ratcond : the exact pmf of the modelled evidence-conditioned layer-wise pass (`RatSample.condPmf`;
            the driver also checks it against `topDownPmf` on the unrolled circuit and `eval x / eval e`),
  ratlaw  : the exact law of the modelled `RatSpn.sample` (`RatSample.samplePmf`; for <= 4 features the driver
            also evaluates the row-level law `RatSample.sampleRowPmf` and compares),
  ratmpe  : the row of the modelled `RatSpn.mpe` (`RatSample.mpeRow`, cross-checked in the driver against
            `mpeDescent` on the unrolled circuit) with the smallest relative arg-max margin on its path.

(a) ratcond / ratlaw are compared with the exhaustive conditional computed from the implementation's own
    `log_prob` on complete rows (tolerance 1e-5);
(b) `model.mpe(x, y)` (y given, and y = None) must equal the model's row whenever the margin is > 1e-4;
(c) for a few models 20000 draws of `model.sample` are compared with `ratlaw` (Hoeffding, level 1e-9).

Run:  cd /verif && PYTHONPATH=/repo:/verif /venv/bin/python /root/work3/ratsample/demo_ratsample.py [seed]
Exit status 0 iff model and implementation agree on everything generated.
"""
import itertools, math, os, sys
from fractions import Fraction
import numpy as np
import torch

sys.path[:0] = [__import__('os').environ.get('DEEPROB_REPO', '/repo'), __import__('os').path.dirname(__import__('os').path.dirname(__import__('os').path.dirname(__import__('os').path.abspath(__file__))))]
import harness.common as common
from harness.common import Driver, Infra

from deeprob.spn.models.ratspn import BernoulliRatSpn
from deeprob.spn.layers.ratspn import SumLayer as RatSumLayer

torch.set_num_threads(1)
LEAN_DIR = os.environ.get('RATSAMPLE_LEAN', __import__('os').path.join(__import__('os').path.dirname(__import__('os').path.dirname(__import__('os').path.dirname(__import__('os').path.abspath(__file__)))), 'lean'))
TOL = 1e-5
MARGIN = Fraction(1, 10000)


class RecState(np.random.RandomState):
    """RandomState that records every permutation it hands out."""
    def __init__(self, seed):
        super().__init__(seed)
        self.draws = []

    def permutation(self, x):
        out = super().permutation(x)
        self.draws.append([int(v) for v in out])
        return out


def frac(x):
    f = Fraction(float(x))
    return '%d/%d' % (f.numerator, f.denominator)


def nested(t):
    if t.dim() == 0:
        return frac(t)
    return [nested(u) for u in t]


def build(n, d, reps, batch, sm, classes, seed):
    rs = RecState(seed)
    torch.manual_seed(seed)
    model = BernoulliRatSpn(n, out_classes=classes, rg_depth=d, rg_repetitions=reps, rg_batch=batch, rg_sum=sm,
                            random_state=rs)
    for p_ in model.parameters():
        p_.data.normal_()
    model.eval()
    per_rep = 2 ** d - 1
    assert len(rs.draws) == reps * per_rep
    draws = [rs.draws[t * per_rep:(t + 1) * per_rep] for t in range(reps)]
    perms = [sum(dr[per_rep - 2 ** (d - 1):], []) for dr in draws]
    with torch.no_grad():
        probs = torch.sigmoid(model.base_layer.logits.double())
        sumw = [torch.softmax(l.weight.double(), dim=2) for l in model.layers if isinstance(l, RatSumLayer)]
        rootw = torch.softmax(model.root_layer.weight.double(), dim=1)
    req = {'features': n, 'depth': d, 'perms': perms, 'draws': draws, 'batch': batch, 'sum': sm,
           'probs': nested(probs), 'sumw': [nested(w) for w in sumw], 'rootw': nested(rootw)}
    return model, req


def parse_pmf(line):
    out = {}
    for item in line.split():
        k, v = item.split(':')
        out[k] = Fraction(v)
    return out


def key_of(row):
    return ''.join(str(int(v)) for v in row)


def main():
    seed = int(sys.argv[1]) if len(sys.argv) > 1 else 2026
    common.LEAN = LEAN_DIR
    drv = Driver()
    rng = np.random.RandomState(seed)
    counts = dict(models=0, padded=0, unpadded=0, cond_queries=0, cond_entries=0, law_queries=0, law_entries=0,
                  mpe_queries=0, mpe_compared=0, mpe_skipped_margin=0, sample_stat=0, law_rowlevel=0)
    bad = []
    worst = 0.0
    cfgs = []
    for n in range(2, 7):
        for d in range(1, int(math.floor(math.log2(n))) + 1):
            for reps in (1, 2):
                for batch in (1, 2):
                    for sm in (1, 2):
                        for classes in (1, 2):
                            cfgs.append((n, d, reps, batch, sm, classes))
    cfgs = cfgs[(seed % 3)::int(os.environ.get('DEMO_STRIDE', '1'))]
    n_stat = 0
    for (n, d, reps, batch, sm, classes) in cfgs:
        mseed = int(rng.randint(0, 10 ** 6))
        model, req = build(n, d, reps, batch, sm, classes, mseed)
        tag = dict(features=n, depth=d, reps=reps, batch=batch, sum=sm, classes=classes, seed=mseed)
        pad = int(model.base_layer.pad)
        counts['models'] += 1
        counts['padded' if pad else 'unpadded'] += 1
        rows_all = torch.tensor(list(itertools.product([0.0, 1.0], repeat=n)))
        with torch.no_grad():
            p_all = torch.exp(model(rows_all).double()).numpy()          # (2^n, classes): complete rows only
        keys_all = [key_of(r) for r in rows_all.tolist()]
        # evidence rows: all missing, one complete, random patterns
        ev_rows = [[None] * n, [int(v) for v in rng.randint(0, 2, size=n)]]
        for _ in range(4):
            ev_rows.append([None if rng.rand() < 0.5 else int(rng.randint(0, 2)) for _ in range(n)])
        for y in range(classes):
            # ---- law of `sample`
            ans = drv.ask(dict(req, op='ratlaw', row=[None] * n, y=y, rowlevel=(n <= 4)))
            counts['law_queries'] += 1
            if n <= 4:
                counts['law_rowlevel'] += 1
            if ans.startswith('law-mismatch'):
                bad.append(('law-driver', tag, y, ans))
                continue
            law = parse_pmf(ans)
            for k, pk in zip(keys_all, p_all[:, y]):
                counts['law_entries'] += 1
                dev = abs(float(law[k]) - float(pk))
                worst = max(worst, dev)
                if dev > TOL:
                    bad.append(('law', tag, y, k, float(law[k]), float(pk)))
            # ---- conditional pmf given evidence
            for row in ev_rows:
                ans = drv.ask(dict(req, op='ratcond', row=row, y=y))
                counts['cond_queries'] += 1
                if ans.startswith('pmf-mismatch') or ans == 'zero-evidence':
                    bad.append(('cond-driver', tag, y, row, ans))
                    continue
                got = parse_pmf(ans)
                agree = [all(row[v] is None or int(r[v]) == row[v] for v in range(n)) for r in rows_all.tolist()]
                tot = sum(p_all[i, y] for i in range(len(agree)) if agree[i])
                ref = {keys_all[i]: p_all[i, y] / tot for i in range(len(agree)) if agree[i]}
                if set(ref) != set(got):
                    bad.append(('cond-support', tag, y, row, sorted(got), sorted(ref)))
                    continue
                for k in ref:
                    counts['cond_entries'] += 1
                    dev = abs(float(got[k]) - float(ref[k]))
                    worst = max(worst, dev)
                    if dev > TOL:
                        bad.append(('cond', tag, y, row, k, float(got[k]), float(ref[k])))
            # ---- MPE with the class given
            for row in ev_rows:
                x = torch.tensor([[float('nan') if v is None else float(v) for v in row]])
                ans = drv.ask(dict(req, op='ratmpe', row=row, y=y))
                counts['mpe_queries'] += 1
                if ans == 'mpe-mismatch':
                    bad.append(('mpe-driver', tag, y, row, ans))
                    continue
                mrow, mg, _ = [t.strip() for t in ans.split('|')]
                if mg != 'inf' and Fraction(mg) <= MARGIN:
                    counts['mpe_skipped_margin'] += 1
                    continue
                out = model.mpe(x, torch.tensor([y]))[0].long().tolist()
                counts['mpe_compared'] += 1
                if out != [int(t) for t in mrow.split()]:
                    bad.append(('mpe', tag, y, row, mrow, out))
        # ---- MPE without a class (arg-max class)
        for row in ev_rows:
            x = torch.tensor([[float('nan') if v is None else float(v) for v in row]])
            ans = drv.ask(dict(req, op='ratmpe', row=row))
            counts['mpe_queries'] += 1
            if ans == 'mpe-mismatch':
                bad.append(('mpe-driver', tag, None, row, ans))
                continue
            mrow, mg, _ = [t.strip() for t in ans.split('|')]
            if mg != 'inf' and Fraction(mg) <= MARGIN:
                counts['mpe_skipped_margin'] += 1
                continue
            out = model.mpe(x)[0].long().tolist()
            counts['mpe_compared'] += 1
            if out != [int(t) for t in mrow.split()]:
                bad.append(('mpe', tag, None, row, mrow, out))
        # ---- a few statistical checks of the real sampler against the modelled law
        if n_stat < 12 and (pad > 0 or n_stat % 2 == 0) and rng.rand() < 0.3:
            n_stat += 1
            N = 20000
            eps = math.sqrt(math.log(2.0 * 2 ** n * 64 / 1e-9) / (2.0 * N))
            for y in range(classes):
                law = parse_pmf(drv.ask(dict(req, op='ratlaw', row=[None] * n, y=y)))
                torch.manual_seed(int(rng.randint(2 ** 31 - 1)))
                s = model.sample(N, y=torch.full((N,), y, dtype=torch.long)).long().numpy()
                codes = np.zeros(N, dtype=np.int64)
                for v in range(n):
                    codes = codes * 2 + s[:, v]
                emp = np.bincount(codes, minlength=2 ** n) / N
                dev = max(abs(emp[i] - float(law[keys_all[i]])) for i in range(2 ** n))
                counts['sample_stat'] += 1
                if dev > eps:
                    bad.append(('sample-stat', tag, y, dev, eps))
    drv.close()
    print('RAT-SPN models: %(models)d (%(padded)d padded, %(unpadded)d unpadded)' % counts)
    print('conditional pmf (modelled pass, exact) vs exhaustive conditional of log_prob: %(cond_queries)d queries, %(cond_entries)d entries' % counts)
    print('law of sample (modelled pass, exact) vs exp(log_prob): %(law_queries)d queries, %(law_entries)d entries' % counts)
    print('  of which also checked in the driver against the row-level law (dummy columns drawn and dropped by unpad_samples): %(law_rowlevel)d' % counts)
    print('worst absolute difference: %.3e (tolerance %.0e)' % (worst, TOL))
    print('mpe: %(mpe_queries)d queries, %(mpe_compared)d compared exactly, %(mpe_skipped_margin)d skipped (margin <= 1e-4)' % counts)
    print('statistical checks of model.sample against the modelled law (N=20000, level 1e-9): %(sample_stat)d' % counts)
    print('driver lines: %d, disagreements: %d' % (drv.lines, len(bad)))
    for b in bad[:20]:
        print('DISAGREE', b)
    sys.exit(1 if bad else 0)


if __name__ == '__main__':
    try:
        main()
    except Infra as ex:
        print('INFRA', ex)
        sys.exit(2)
