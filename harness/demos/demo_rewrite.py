"""Differential demo for C09 / C10: real deeprob-kit `prune` / `marginalize` vs. the Lean net-level model.

Builds random valid circuits with the real library (DAGs with shared children, chains of single-child
nodes, nested same-kind nodes, sums whose merged children coincide; Bernoulli / Categorical leaves),
exports them with /verif/harness/spn.py `export_net`, runs the real code, exports the result with the same
exporter and compares it structurally with the driver's answer (kinds, ids, scopes, child order, node
identity, weights up to 1e-6).

Run:  cd /root/work/rewrite && PYTHONPATH=/repo:/verif /venv/bin/python demo_rewrite.py [N] [seed]
"""
import sys, os, json, subprocess, inspect, textwrap, itertools
from copy import deepcopy
from fractions import Fraction

sys.path.insert(0, __import__('os').path.dirname(__import__('os').path.dirname(__import__('os').path.dirname(__import__('os').path.abspath(__file__)))))
sys.path.insert(0, __import__('os').environ.get('DEEPROB_REPO', '/repo'))
import numpy as np
from harness.spn import export_net
from deeprob.spn.structure.node import Sum, Product, assign_ids
from deeprob.spn.structure.leaf import Bernoulli, Categorical
import deeprob.spn.algorithms.structure as S

LEAN = os.path.join(os.path.dirname(os.path.abspath(__file__)), 'lean')
TOL = 1e-6

# ------------------------------------------------------------------ the repaired prune (planned fix F7)
_src = textwrap.dedent(inspect.getsource(S.prune))
_anchor = "children, weights = zip(*children_weights.items())\n"
assert _anchor in _src
_indent = ' ' * 12
_src = _src.replace(_anchor, _anchor + _indent + "if len(children) == 1:\n" + _indent + "    nodes_map[node.id] = children[0]\n"
                    + _indent + "    continue\n").replace("def prune(", "def prune_repaired(")
exec(compile(_src, '<prune_repaired>', 'exec'), S.__dict__)
prune_old = S.prune
prune_new = S.__dict__['prune_repaired']
PINNED_HAS_DEFECT = "if len(children) == 1" not in inspect.getsource(prune_old).split(_anchor)[1][:200]


def marginalize_with(prune_fn, root, keep, copy=True):
    saved = S.prune
    S.prune = prune_fn
    try:
        return S.marginalize(root, keep, copy=copy)
    finally:
        S.prune = saved


# ------------------------------------------------------------------ generator
def rand_leaf(rs, v, card):
    if card[v] == 2 and rs.rand() < 0.6:
        return Bernoulli(int(v), float(rs.uniform(0.05, 0.95)))
    p = rs.dirichlet(np.ones(card[v]))
    return Categorical(int(v), list(range(card[v])), p.tolist())


def rand_weights(rs, k):
    w = rs.dirichlet(np.ones(k)).astype(np.float32)
    w = w / w.sum(dtype=np.float32)
    return w.astype(np.float32)


def gen(rs, scope, depth, pool, card, share):
    """random valid circuit over `scope` with the features C09 is about"""
    key = tuple(sorted(scope))
    if pool.get(key) and rs.rand() < share:
        return pool[key][rs.randint(len(pool[key]))]
    u = rs.rand()
    if len(scope) == 1 and (depth <= 0 or u < 0.35):
        node = rand_leaf(rs, scope[0], card)
    elif depth <= 0:
        node = Product(children=[rand_leaf(rs, v, card) for v in scope])
    elif u < 0.12:
        # chain link: single-child sum or product
        ch = gen(rs, scope, depth - 1, pool, card, share)
        if rs.rand() < 0.5:
            node = Sum(scope=[int(v) for v in rs.permutation(scope)], children=[ch], weights=np.array([1.0], dtype=np.float32))
        else:
            node = Product(scope=[int(v) for v in rs.permutation(scope)], children=[ch])
    elif len(scope) == 1 or u < 0.6:
        k = rs.randint(2, 5)
        ch = []
        for _ in range(k):
            r = rs.rand()
            if ch and r < 0.2:
                ch.append(ch[rs.randint(len(ch))])          # the same object twice
            elif ch and r < 0.35:
                # a single-child sum over an existing child: collapses onto the same object
                tgt = ch[rs.randint(len(ch))]
                ch.append(Sum(scope=list(tgt.scope), children=[tgt], weights=np.array([1.0], dtype=np.float32)))
            else:
                ch.append(gen(rs, [int(v) for v in rs.permutation(scope)], depth - 1, pool, card, share))
        node = Sum(scope=[int(v) for v in scope], children=ch, weights=rand_weights(rs, k))
    else:
        k = rs.randint(2, min(len(scope), 4) + 1)
        perm = [int(v) for v in rs.permutation(scope)]
        cuts = sorted(rs.choice(np.arange(1, len(scope)), k - 1, replace=False).tolist())
        parts = [perm[a:b] for a, b in zip([0] + cuts, cuts + [len(scope)])]
        ch = [gen(rs, p, depth - 1, pool, card, share) for p in parts]
        node = Product(scope=[int(v) for v in rs.permutation(scope)], children=ch)
    pool.setdefault(key, []).append(node)
    return node


def special_cases():
    """hand-made circuits: the witness of the defect and friends"""
    out = []
    l = Bernoulli(0, 0.3)
    s1 = Sum(scope=[0], children=[l], weights=np.array([1.0], dtype=np.float32))
    s2 = Sum(scope=[0], children=[l], weights=np.array([1.0], dtype=np.float32))
    out.append(('witness', Sum(scope=[0], children=[s1, s2], weights=np.array([0.5, 0.5], dtype=np.float32))))
    l = Bernoulli(0, 0.3)
    out.append(('same-child-twice', Sum(scope=[0], children=[l, l], weights=np.array([0.25, 0.75], dtype=np.float32))))
    a, b = Bernoulli(0, 0.3), Bernoulli(0, 0.6)
    inner = Sum(scope=[0], children=[a, b], weights=np.array([0.5, 0.5], dtype=np.float32))
    out.append(('merge-through-nested', Sum(scope=[0], children=[inner, a, inner], weights=np.array([0.25, 0.25, 0.5], dtype=np.float32))))
    x, y, z = Bernoulli(0, 0.3), Bernoulli(1, 0.6), Categorical(2, [0, 1, 2], [0.2, 0.3, 0.5])
    p1 = Product(children=[x, y])
    p2 = Product(children=[Product(children=[p1]), Product(children=[z])])
    out.append(('nested-products', p2))
    c = Bernoulli(0, 0.5)
    for _ in range(5):
        c = Sum(scope=[0], children=[c], weights=np.array([1.0], dtype=np.float32)) if _ % 2 else Product(scope=[0], children=[c])
    out.append(('chain', c))
    out.append(('single-leaf', Bernoulli(0, 0.5)))
    return out


# ------------------------------------------------------------------ canonical form of a Python result
def canon(root, origin=None):
    table, order, index, acyclic = export_net(root)
    assert acyclic
    items = []
    for e, n in zip(table, order):
        kind = e['kind'] if e['kind'] in ('sum', 'prod') else 'leaf'
        items.append(dict(kind=kind, id=e['id'], scope=e['scope'], ch=e.get('ch', []),
                          w=[Fraction(*map(int, s.split('/'))) for s in e.get('w', [])] if kind == 'sum' else [],
                          orig=(origin.get(id(n), -1) if origin is not None else None)))
    return items


def parse_table(s):
    items = []
    for it in s.split(';'):
        kind, nid, scope, ch, ws, orig = it.split(' ')
        lst = lambda x: [] if x == '-' else x.split(',')
        items.append(dict(kind=kind, id=int(nid), scope=[int(v) for v in lst(scope)], ch=[int(v) for v in lst(ch)],
                          w=[Fraction(*map(int, q.split('/'))) for q in lst(ws)], orig=int(orig)))
    return items


def same(py, ln, with_orig=True):
    """structural comparison; returns None or a reason"""
    if len(py) != len(ln):
        return f'node count {len(py)} vs {len(ln)}'
    for k, (a, b) in enumerate(zip(py, ln)):
        for f in ('kind', 'id', 'scope', 'ch'):
            if a[f] != b[f]:
                return f'node {k} field {f}: {a[f]} vs {b[f]}'
        if with_orig and a['orig'] is not None and a['orig'] != b['orig']:
            return f"node {k} identity: {a['orig']} vs {b['orig']}"
        if len(a['w']) != len(b['w']):
            return f'node {k} weight count'
        for x, y in zip(a['w'], b['w']):
            if abs(float(x) - float(y)) > TOL:
                return f'node {k} weight {float(x)} vs {float(y)}'
    return None


def normal_form(root):
    table, order, _, _ = export_net(root)
    for e in table:
        if e['kind'] in ('sum', 'prod'):
            if len(e['ch']) < 2:
                return False
            if any(table[c]['kind'] == e['kind'] for c in e['ch']):
                return False
    return True


def has_single_child_sum(root):
    table, _, _, _ = export_net(root)
    return any(e['kind'] == 'sum' and len(e['ch']) == 1 for e in table)


# ------------------------------------------------------------------ driver
class Driver:
    def __init__(self):
        self.ops, self.tags = [], []

    def add(self, op, tag):
        self.ops.append(json.dumps(op)); self.tags.append(tag)

    def run(self):
        # Driver/OpsRewrite.lean is not (yet) a root of the `Driver` library: compile its .olean by hand
        subprocess.run(['lake', 'build', 'DeeprobModel.Model.RewriteNet', 'Driver.Proto'], cwd=LEAN, check=True,
                       capture_output=True)
        os.makedirs(os.path.join(LEAN, '.lake/build/lib/lean/Driver'), exist_ok=True)
        subprocess.run(['lake', 'env', 'lean', '-o', '.lake/build/lib/lean/Driver/OpsRewrite.olean',
                        'Driver/OpsRewrite.lean'], cwd=LEAN, check=True, capture_output=True)
        p = subprocess.run(['lake', 'env', 'lean', '--run', 'Driver/MainRewrite.lean'], cwd=LEAN,
                           input='\n'.join(self.ops) + '\n', text=True, capture_output=True, timeout=3600)
        if p.returncode != 0:
            raise RuntimeError(p.stderr[-2000:])
        out = p.stdout.strip('\n').split('\n')
        assert len(out) == len(self.ops), (len(out), len(self.ops))
        return dict(zip(self.tags, out))


def main():
    N = int(sys.argv[1]) if len(sys.argv) > 1 else 200
    seed = int(sys.argv[2]) if len(sys.argv) > 2 else 20260929
    rs = np.random.RandomState(seed)
    cases = special_cases()
    while len(cases) < N:
        nv = rs.randint(1, 6)
        card = {v: int(rs.randint(2, 4)) for v in range(nv)}
        root = gen(rs, list(range(nv)), rs.randint(2, 6), {}, card, share=rs.choice([0.0, 0.3, 0.6]))
        if not isinstance(root, (Sum, Product)) and rs.rand() < 0.8:
            continue
        cases.append((f'rand{len(cases)}', root))

    drv = Driver()
    plan = []
    stats = dict(nodes=0, shared=0, maxn=0)
    for name, root in cases:
        assign_ids(root)
        table, order, index, _ = export_net(root)
        stats['nodes'] += len(table); stats['maxn'] = max(stats['maxn'], len(table))
        indeg = {}
        for e in table:
            for c in set(e.get('ch', [])):
                indeg[c] = indeg.get(c, 0) + 1
        stats['shared'] += any(v > 1 for v in indeg.values())
        drv.add(dict(op='net', nodes=table, root=len(table) - 1), (name, 'net'))
        for op in ('prune', 'pruneold'):
            drv.add(dict(op=op), (name, op))
            drv.add(dict(op=op, order='kahn'), (name, op + ':kahn'))
        drv.add(dict(op='normalform'), (name, 'normalform'))
        scope = sorted(root.scope)
        keeps = []
        subsets = [list(c) for r in range(1, len(scope) + 1) for c in itertools.combinations(scope, r)]
        for i in rs.permutation(len(subsets))[:3]:
            keeps.append([int(v) for v in rs.permutation(subsets[i])])
        bad = [[], [scope[0], scope[0]], [scope[0], max(scope) + 1]]
        for k in keeps + bad:
            drv.add(dict(op='marginalize', keep=k), (name, 'marg', tuple(k)))
            drv.add(dict(op='marginalizeold', keep=k), (name, 'margold', tuple(k)))
        plan.append((name, root, keeps, bad))
    ans = drv.run()

    # second round: prune applied to the (repaired) pruned circuits
    drv2 = Driver()
    disagreements = []
    cnt = dict(prune_checked=0, prune_new_checked=0, defect=0, order_agree=0, marg_checked=0, marg_defect=0,
               guards=0, copy_untouched=0, exact_differ=0, nf_in=0, nf_out=0, idem=0)
    second = []
    for name, root, keeps, bad in plan:
        def bad_(what, why):
            disagreements.append((name, what, why))
        if not ans[(name, 'net')].startswith('ok') or 'wellOrdered=true covers=true' not in ans[(name, 'net')]:
            bad_('net', ans[(name, 'net')]); continue
        # --- the two pass orders of the model agree
        for op in ('prune', 'pruneold'):
            if ans[(name, op)] == ans[(name, op + ':kahn')]:
                cnt['order_agree'] += 1
            else:
                bad_(op, 'storage-order pass and Kahn-order pass differ')
        # --- normal form of the input
        if (ans[(name, 'normalform')] == 'true') != normal_form(root):
            bad_('normalform', ans[(name, 'normalform')])
        cnt['nf_in'] += ans[(name, 'normalform')] == 'true'
        # --- copy=True leaves the original untouched
        before = export_net(root)[0]
        res_copy = prune_old(root, copy=True)
        res_copy_new = prune_new(root, copy=True)
        after = export_net(root)[0]
        if before == after:
            cnt['copy_untouched'] += 1
        else:
            bad_('copy', 'original modified by prune(copy=True)')
        # --- pinned prune (copy=False on our own copy, so that object identity can be followed)
        for label, fn, op, res_c in (('pinned', prune_old, 'pruneold', res_copy), ('repaired', prune_new, 'prune', res_copy_new)):
            r2 = deepcopy(root)
            order2 = export_net(r2)[1]
            origin = {id(n): i for i, n in enumerate(order2)}
            res = fn(r2, copy=False)
            py = canon(res, origin)
            why = same(py, parse_table(ans[(name, op)]))
            if why:
                bad_(op, f'{label} code vs model: {why}')
            why = same(canon(res_c), py, with_orig=False)
            if why:
                bad_(op, f'{label} copy=True vs copy=False: {why}')
            if label == 'pinned':
                cnt['prune_checked'] += 1
                # model: do `prune` and `pruneold` differ structurally (weights up to TOL: where an intermediate
                # single-child sum is absorbed further up, the two differ only by the factor sum(weights) ~ 1)
                differ = same(parse_table(ans[(name, 'prune')]), parse_table(ans[(name, 'pruneold')])) is not None
                if has_single_child_sum(res):
                    cnt['defect'] += 1
                    if not differ:
                        bad_('prune', 'code shows single-child sum but model prune == pruneold')
                elif differ:
                    bad_('prune', 'model prune != pruneold but code result has no single-child sum')
                cnt['exact_differ'] += ans[(name, 'prune')] != ans[(name, 'pruneold')]
            else:
                cnt['prune_new_checked'] += 1
                cnt['nf_out'] += normal_form(res)
                if not normal_form(res):
                    bad_('prune', 'repaired code result not in normal form')
                second.append((name, res, py))
                t2 = export_net(res)[0]
                drv2.add(dict(op='net', nodes=t2, root=len(t2) - 1), (name, 'net'))
                drv2.add(dict(op='prune'), (name, 'prune'))
                drv2.add(dict(op='normalform'), (name, 'normalform'))
        # --- marginalize
        for k in keeps:
            for label, fn, tag in (('pinned', prune_old, 'margold'), ('repaired', prune_new, 'marg')):
                r2 = deepcopy(root)
                order2 = export_net(r2)[1]
                origin = {id(n): i for i, n in enumerate(order2)}
                res = marginalize_with(fn, r2, list(k), copy=False)
                py = canon(res, origin)
                a = ans[(name, tag, tuple(k))]
                why = same(py, parse_table(a)) if ' ' in a else f'model answered {a}'
                if why:
                    bad_(f'{tag}{k}', f'{label} code vs model: {why}')
                if sorted(res.scope) != sorted(k):
                    bad_(f'{tag}{k}', 'result scope is not the kept set')
                if label == 'pinned':
                    cnt['marg_checked'] += 1
                    cnt['marg_defect'] += has_single_child_sum(res)
            before = export_net(root)[0]
            S.marginalize(root, list(k), copy=True)
            if export_net(root)[0] != before:
                bad_(f'marg{k}', 'original modified by marginalize(copy=True)')
        for k, reason in zip(bad, ('empty', 'duplicates', 'subset')):
            try:
                S.marginalize(root, list(k), copy=True)
                raised = None
            except ValueError as ex:
                raised = str(ex)
            a = ans[(name, 'marg', tuple(k))]
            expect = {'empty': 'must not be empty', 'duplicates': 'duplicates', 'subset': 'subset'}[reason]
            if raised is None or expect not in raised or a != 'reject:' + reason:
                bad_(f'guard{k}', f'code: {raised}; model: {a}')
            else:
                cnt['guards'] += 1

    ans2 = drv2.run() if drv2.ops else {}
    for name, res, py in second:
        a = ans2[(name, 'prune')]
        why = same(py, parse_table(a), with_orig=False)
        if why:
            bad = f'prune(prune(x)) != prune(x) in the model: {why}'
            disagreements.append((name, 'idem', bad))
        elif ans2[(name, 'normalform')] != 'true':
            disagreements.append((name, 'idem', 'model says pruned circuit not in normal form'))
        else:
            cnt['idem'] += 1
        r3 = prune_new(res, copy=True)
        why = same(canon(r3), py, with_orig=False)
        if why:
            disagreements.append((name, 'idem-code', why))

    print(f'circuits: {len(cases)}  (nodes total {stats["nodes"]}, largest {stats["maxn"]}, with shared sub-circuits {stats["shared"]})')
    print(f'pinned tree has the single-child defect: {PINNED_HAS_DEFECT}')
    print(f'prune   : pinned code == model `pruneold` on {cnt["prune_checked"]} circuits; '
          f'repaired code == model `prune` on {cnt["prune_new_checked"]}')
    print(f'          pinned result keeps a single-child sum on {cnt["defect"]} of {cnt["prune_checked"]} circuits '
          f'(exactly where model prune and pruneold differ structurally;\n'
          f'          as exact rational tables they differ on {cnt["exact_differ"]}: intermediate single-child sums absorbed higher up '
          f'leave the factor sum(weights) ~ 1)')
    print(f'          storage-order pass == Kahn-order pass in {cnt["order_agree"]} of {2 * len(plan)} runs')
    print(f'          inputs already in normal form: {cnt["nf_in"]}; repaired results in normal form: {cnt["nf_out"]}; '
          f'model prune(prune(x)) == prune(x) and normalform: {cnt["idem"]}')
    print(f'          prune(copy=True) left the original untouched: {cnt["copy_untouched"]} of {len(plan)}')
    print(f'marginalize: {cnt["marg_checked"]} (circuit, kept set) pairs compared for each of pinned/repaired; '
          f'pinned result keeps a single-child sum on {cnt["marg_defect"]}; guards agree on {cnt["guards"]} rejected calls')
    print(f'disagreements: {len(disagreements)}')
    for d in disagreements[:40]:
        print('  ', d)
    return 1 if disagreements else 0


if __name__ == '__main__':
    sys.exit(main())
