#!/venv/bin/python
"""
C14 — the backward pass AS CODED next to its model (`lean/DeeprobModel/Model/EmBackward.lean`, theorems in
`Props/C14Backward.lean`) and next to exact rationals.

Random small valid circuits (DAGs with sharing) whose Bernoulli leaves include the parameters exactly 0 and 1, so that
zero-valued leaves, products and sums occur; all rows (complete, and some with NaN entries) of positive probability.

On the REAL code, per circuit:
 * `log_likelihood(return_results=True)` and `eval_backward` (deeprob/spn/algorithms/gradient.py);
 * ONE iteration of the real `expectation_maximization` (deeprob/spn/learning/em.py) with a batch-revealing
   RandomState and recording `em_step` methods: the `stats` arrays are the ones em.py computes
   (`np.exp(children_ll - root_ll + grads[node.id])`, `np.exp(lls[node.id] - root_ll + grads[node.id])`).
Compared (tolerance 1e-5 relative + absolute):
 (a) every sum-edge statistic and every leaf statistic against exact rationals computed here with
     `fractions.Fraction` from the linear-domain definition (value(child)·∂root/∂node/value(root), the derivative by the
     top-down recursion over all parents) — `resp_coded_exact`, `leaf_stat_coded_exact`. For a zero-WEIGHT edge below a
     zero-valued sum the raw `stats` entry may be anything (`raw_stat_zero_weight_witness`); there `weights * stats`
     (what `Sum.em_step` uses) is compared, and the raw difference is counted as a NOTE;
 (b) with the driver: the model's `forwardC` against the code's `lls` (finite entries by value, floored entries as `-1e31`),
     the model's `backwardC` against the code's `grads` INCLUDING the wrong entries (finite: by value; `l:k`: about
     `(k+1)·(-1e31)`; `b`: `-inf`), and the model's statistics against the exact rationals (equal as rationals).
Exit 0 on agreement; exit 1 with a `DISAGREE` line (circuit and row) otherwise. Seeded by VERIF_SEED.

Usage: PYTHONPATH=/repo:<verif> /venv/bin/python demo_embackward.py [--n 60] [--driver PATH | --no-driver]
"""
import argparse, copy, json, math, os, subprocess, sys, warnings
from fractions import Fraction
import numpy as np

warnings.filterwarnings('ignore')
np.seterr(all='ignore')

from deeprob.spn.structure.node import Sum, Product, assign_ids
from deeprob.spn.structure.leaf import Bernoulli
from deeprob.spn.algorithms.inference import log_likelihood
from deeprob.spn.algorithms.gradient import eval_backward
from deeprob.spn.learning.em import expectation_maximization
from harness.spn import export_net, rand_spn, children_first

TOL = 1e-5
FLOOR = 1e31


class RevealRS(np.random.RandomState):
    """remembers the batch indices EM samples"""
    def choice(self, a, size=None, replace=True, p=None):
        r = super().choice(a, size=size, replace=replace, p=p)
        self.last = np.array(r)
        return r


# ----------------------------------------------------------------------------- circuits
def ex_z():
    """the table `exZ` of Props/C14Backward.lean (children-first order of the object graph is the table order)"""
    l0 = Bernoulli(0, p=0.0); l1 = Bernoulli(1, p=2 / 3)
    p2 = Product(children=[l0, l1])
    l3 = Bernoulli(0, p=0.5)
    p4 = Product(children=[l3, l1])
    return Sum(children=[p2, p4], weights=[0.5, 0.5])


def ex_w():
    """the table `exW`: a zero-weight edge below a zero-valued sum"""
    a = Bernoulli(0, p=0.0); c = Bernoulli(0, p=0.5)
    s = Sum(children=[a, c], weights=[1.0, 0.0])
    b = Bernoulli(1, p=2 / 3)
    p4 = Product(children=[s, b])
    p7 = Product(children=[Bernoulli(0, p=0.5), Bernoulli(1, p=0.75)])
    return Sum(children=[p4, p7], weights=[0.5, 0.5])


def two_zero_children():
    """a product with two zero-valued children and a deeper chain below it (floor multiples accumulate in grads)"""
    a = Bernoulli(0, p=0.0); b = Bernoulli(1, p=0.0); c = Bernoulli(2, p=0.25)
    inner = Product(children=[b, c])
    s = Sum(children=[inner, Product(children=[Bernoulli(1, p=0.0), Bernoulli(2, p=0.5)])], weights=[0.25, 0.75])
    p = Product(children=[a, s])
    q = Product(children=[Bernoulli(0, p=0.5), Bernoulli(1, p=0.5), Bernoulli(2, p=0.5)])
    return Sum(children=[p, q], weights=[0.5, 0.5])


def rand_circuit(rs, zero_weights):
    nv = int(rs.randint(1, 5))
    root = rand_spn(rs, list(range(nv)), depth=int(rs.randint(1, 4)), kinds=('bern',),
                    share=float(rs.choice([0.0, 0.4, 0.8])), no_repeat=True)
    order, _ = children_first(root)
    for n in order:
        if isinstance(n, Bernoulli):
            u = rs.rand()
            if u < 0.25:
                n.p = 0.0
            elif u < 0.5:
                n.p = 1.0
        elif isinstance(n, Sum) and zero_weights and len(n.children) >= 2 and rs.rand() < 0.5:
            w = np.array(n.weights, dtype=np.float64)
            j = int(rs.randint(len(w)))
            w[j] = 0.0
            w = w / w.sum()
            n.weights = w.astype(np.float32)
            n.weights[j] = 0.0
    if not isinstance(root, (Sum, Product)):
        root = Sum(children=[root], weights=[1.0])
    return root


# ----------------------------------------------------------------------------- exact reference (linear domain)
def exact_tables(order, index, root, row):
    """values and derivatives of the root with respect to every node, as Fractions"""
    n = len(order)
    val = [None] * n
    for i, nd in enumerate(order):
        if isinstance(nd, Bernoulli):
            x = row[nd.scope[0]]
            # the same two table entries the exporter hands to the model (1 - p is taken in double precision)
            val[i] = Fraction(1) if x is None else (Fraction(float(nd.p)) if x == 1 else Fraction(1.0 - float(nd.p)))
        elif isinstance(nd, Sum):
            val[i] = sum((Fraction(float(w)) * val[index[id(c)]] for c, w in zip(nd.children, nd.weights)), Fraction(0))
        else:
            v = Fraction(1)
            for c in nd.children:
                v *= val[index[id(c)]]
            val[i] = v
    der = [Fraction(0)] * n
    der[index[id(root)]] = Fraction(1)
    for i in range(n - 1, -1, -1):            # parents before children
        nd = order[i]
        if isinstance(nd, Sum):
            for c, w in zip(nd.children, nd.weights):
                der[index[id(c)]] += der[i] * Fraction(float(w))
        elif isinstance(nd, Product):
            cs = [index[id(c)] for c in nd.children]
            for k, c in enumerate(cs):
                sib = Fraction(1)
                for k2, c2 in enumerate(cs):
                    if k2 != k:
                        sib *= val[c2]
                der[c] += der[i] * sib
    return val, der


def close(a, b):
    a = float(a); b = float(b)
    if a != a or b != b or math.isinf(a) or math.isinf(b):
        return False
    return abs(a - b) <= TOL + TOL * abs(b)


def parse_q(s):
    n, d = s.split('/')
    return Fraction(int(n), int(d))


def describe(table, row):
    return json.dumps(dict(nodes=table, row=row))


class Disagree(Exception):
    pass


# ----------------------------------------------------------------------------- one circuit
def check_circuit(root, rs, drv, cnt):
    assign_ids(root)
    table, order, index, acyclic = export_net(root)
    ri = index[id(root)]
    nv = 1 + max(v for n in order for v in n.scope)
    rows = []
    for m in range(2 ** nv):
        rows.append([(m >> v) & 1 for v in range(nv)])
    for _ in range(min(6, 2 ** nv)):
        r = [int(rs.randint(2)) for _ in range(nv)]
        for v in range(nv):
            if rs.rand() < 0.4:
                r[v] = None
        rows.append(r)
    keep = []
    for r in rows:
        val, der = exact_tables(order, index, root, r)
        if val[ri] > 0:
            keep.append((r, val, der))
    if not keep:
        cnt['circuits_without_positive_row'] += 1
        return
    cnt['circuits'] += 1
    data = np.array([[np.nan if x is None else float(x) for x in r] for r, _, _ in keep], dtype=np.float32)

    # --- the real passes
    root_ll, lls = log_likelihood(root, data, return_results=True)
    grads = eval_backward(root, lls)

    # --- the real EM statistics: one iteration on a copy whose em_step methods record what em.py hands them
    work = copy.deepcopy(root)
    worder, _ = children_first(work)
    rec = {}
    def rec_sum(self, stats, step_size):
        rec[self.id] = np.array(stats)
    def rec_leaf(self, stats, data, step_size):
        rec[self.id] = np.array(stats)
    old_s, old_b = Sum.em_step, Bernoulli.em_step
    Sum.em_step, Bernoulli.em_step = rec_sum, rec_leaf
    try:
        # batch_perc must be < 1: every row twice, half of the rows are drawn; the rows drawn are revealed
        data2 = np.concatenate([data, data], axis=0)
        rrs = RevealRS(int(rs.randint(1 << 30)))
        expectation_maximization(work, data2, num_iter=1, batch_perc=0.5, step_size=0.5, random_init=False,
                                 random_state=rrs, verbose=False)
    finally:
        Sum.em_step, Bernoulli.em_step = old_s, old_b
    batch_rows = [int(b) % len(keep) for b in rrs.last]

    if drv is not None:
        ans = drv.ask(dict(op='net', nodes=table, root=ri, dom=[2] * nv))
        if 'wellOrdered=true' not in ans:
            raise Disagree(f'exported table is not children-first: {ans}')

    for k, (r, val, der) in enumerate(keep):
        cnt['rows'] += 1
        where = describe(table, r)
        model = None
        if drv is not None:
            a = drv.ask(dict(op='embackward', row=r))
            f = [x.strip() for x in a.split(' | ')]
            if len(f) != 6:
                raise Disagree(f'model answer malformed: {a[:200]} at {where}')
            m_raw = {int(t.split('=')[0]): t.split('=')[1].split(',') for t in f[3].split()} if f[3] else {}
            m_resp = {int(t.split('=')[0]): t.split('=')[1].split(',') for t in f[4].split()} if f[4] else {}
            model = dict(lls=f[0].split(), grads=f[1].split(), leaf=f[2].split(), raw=m_raw, resp=m_resp,
                         D=[parse_q(t) for t in f[5].split()])
            if model['D'] != der:
                raise Disagree(f'model linear-domain backward differs from the demo\'s exact derivative at {where}')
        for i, nd in enumerate(order):
            ll = float(lls[nd.id][k]); g = float(grads[nd.id][k])
            # (b) model tables against the code's tables, wrong entries included
            if model is not None:
                for what, tok, x in (('lls', model['lls'][i], ll), ('grads', model['grads'][i], g)):
                    ok = False
                    if tok.startswith('f:'):
                        q = parse_q(tok[2:])
                        ok = q > 0 and abs(x - math.log(q)) <= 2e-5 + 1e-5 * abs(math.log(q))
                    elif tok.startswith('l:'):
                        ok = abs(x / -FLOOR - (int(tok[2:]) + 1)) < 0.01
                    elif tok == 'b':
                        ok = x == -math.inf
                    if not ok:
                        raise Disagree(f'{what}[{i}] code={x!r} model={tok} at {where}')
                    cnt[f'model_{what}_entries'] += 1
            # wrong grads entries (the observation of DESIGN §0.2 C14): counted, they are expected
            true_g = der[i]
            coded_lin = math.exp(g) if g > -700 else 0.0
            if not close(coded_lin, true_g):
                cnt['wrong_grads_entries'] += 1
                if val[i] != 0:
                    raise Disagree(f'grads[{i}] code={g!r} true derivative={true_g} at a node of NON-ZERO value at {where}')
            # (a) the statistics
            exact_node = val[i] * der[i] / val[ri]
            code_node = float(np.exp(lls[nd.id][k] - root_ll[k] + grads[nd.id][k]))     # the expression of em.py
            if isinstance(nd, Bernoulli):
                if not close(code_node, exact_node):
                    raise Disagree(f'leaf statistic node {i}: code={code_node!r} exact={exact_node} at {where}')
                cnt['leaf_stats'] += 1
            if model is not None:
                if model['leaf'][i] == 'nan' or parse_q(model['leaf'][i]) != exact_node:
                    raise Disagree(f'model node statistic {i}: {model["leaf"][i]} exact={exact_node} at {where}')
            if isinstance(nd, Sum):
                for j, (c, w) in enumerate(zip(nd.children, nd.weights)):
                    ci = index[id(c)]
                    exact_e = val[ci] * der[i] / val[ri]
                    code_e = float(np.exp(lls[c.id][k] - root_ll[k] + grads[nd.id][k]))
                    harmless = (float(w) == 0.0 and val[i] == 0 and val[ci] != 0)
                    if harmless:
                        if not close(float(w) * code_e, 0.0):
                            raise Disagree(f'weight*stat of zero-weight edge {i}->{ci}: {float(w) * code_e!r} at {where}')
                        if not close(code_e, exact_e):
                            cnt['NOTE_raw_stat_of_zero_weight_edge_differs'] += 1
                    elif not close(code_e, exact_e):
                        raise Disagree(f'sum-edge statistic {i}->{ci} (w={float(w)!r}): code={code_e!r} exact={exact_e} at {where}')
                    cnt['sum_edge_stats'] += 1
                    if model is not None:
                        mr, mp = model['raw'][i][j], model['resp'][i][j]
                        if mp == 'nan' or parse_q(mp) != Fraction(float(w)) * exact_e:
                            raise Disagree(f'model responsibility {i}->{ci}: {mp} exact={Fraction(float(w)) * exact_e} at {where}')
                        if not harmless and (mr == 'nan' or parse_q(mr) != exact_e):
                            raise Disagree(f'model raw statistic {i}->{ci}: {mr} exact={exact_e} at {where}')
                        if mr == 'nan' or not close(code_e, parse_q(mr)):
                            raise Disagree(f'raw statistic {i}->{ci}: code={code_e!r} model={mr} at {where}')

    # the arrays em.py itself handed to em_step, on the revealed batch
    for wn, nd in zip(worder, order):
        i = index[id(nd)]
        if wn.id not in rec:
            if isinstance(nd, (Sum, Bernoulli)):
                raise Disagree(f'em.py did not call em_step of node {i}: {describe(table, None)}')
            continue
        st = rec[wn.id]
        for b, k in enumerate(batch_rows):
            r, val, der = keep[k]
            if isinstance(nd, Bernoulli):
                ex = val[i] * der[i] / val[ri]
                if not close(st[b], ex):
                    raise Disagree(f'em.py leaf stats node {i}: {float(st[b])!r} exact={ex} at {describe(table, r)}')
                cnt['em_leaf_stats'] += 1
            else:
                for j, (c, w) in enumerate(zip(nd.children, nd.weights)):
                    ci = index[id(c)]
                    ex = val[ci] * der[i] / val[ri]
                    if float(w) == 0.0 and val[i] == 0 and val[ci] != 0:
                        if not close(float(w) * float(st[j][b]), 0.0):
                            raise Disagree(f'em.py weight*stats edge {i}->{ci} at {describe(table, r)}')
                    elif not close(st[j][b], ex):
                        raise Disagree(f'em.py sum stats edge {i}->{ci}: {float(st[j][b])!r} exact={ex} at {describe(table, r)}')
                    cnt['em_sum_stats'] += 1


class Drv:
    def __init__(self, exe):
        self.p = subprocess.Popen([exe], stdin=subprocess.PIPE, stdout=subprocess.PIPE, text=True, bufsize=1)

    def ask(self, obj):
        self.p.stdin.write(json.dumps(obj) + '\n')
        self.p.stdin.flush()
        a = self.p.stdout.readline()
        if not a:
            print('INFRA model driver died'); sys.exit(2)
        a = a.rstrip('\n')
        if a.startswith('bad-op'):
            print('INFRA driver:', a, json.dumps(obj)[:300]); sys.exit(2)
        return a

    def close(self):
        try:
            self.p.stdin.close(); self.p.wait(timeout=10)
        except Exception:
            self.p.kill()


def main():
    ap = argparse.ArgumentParser()
    ap.add_argument('--n', type=int, default=60)
    ap.add_argument('--driver', default=os.environ.get('DEEPROB_DRIVER', ''))
    ap.add_argument('--no-driver', action='store_true')
    a = ap.parse_args()
    seed = int(os.environ.get('VERIF_SEED', '0'))
    rs = np.random.RandomState((seed * 7919 + 14) % (1 << 31))
    drv = None
    if not a.no_driver:
        if not a.driver or not os.path.exists(a.driver):
            print('INFRA model driver not found (set DEEPROB_DRIVER or --driver, or pass --no-driver)'); sys.exit(2)
        drv = Drv(a.driver)
    from collections import Counter
    cnt = Counter()
    roots = [ex_z(), ex_w(), two_zero_children()]
    while len(roots) < a.n:
        roots.append(rand_circuit(rs, zero_weights=(len(roots) % 4 == 3)))
    try:
        for root in roots:
            check_circuit(root, rs, drv, cnt)
    except Disagree as d:
        print('DISAGREE', d)
        sys.exit(1)
    finally:
        if drv is not None:
            drv.close()
    if cnt['wrong_grads_entries'] == 0:
        print('DISAGREE no zero-valued product child with a wrong grads entry was generated (the hand-built circuits have some)')
        sys.exit(1)
    print('AGREE seed=%d ' % seed + ' '.join(f'{k}={v}' for k, v in sorted(cnt.items())))


if __name__ == '__main__':
    main()
