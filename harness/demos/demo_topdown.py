#!/venv/bin/python
"""Differential demo for the top-down model (C06 / C07).

~300 random valid circuits (DAGs with shared sub-circuits, Bernoulli + Categorical leaves, sum arity
1-5) are built with the real library, exported to the model's node table and sent to the Lean driver
(`Driver/MainTopDown.lean`, ops `mpe` and `pmf`).  The real `deeprob.spn.algorithms.inference.mpe` is
compared with the driver's `mpe` on every row whose smallest arg-max margin exceeds 1e-4; the driver's
exact conditional pmf is compared with `exp(ll(x) - ll(e))` of the real library.

Run:  PYTHONPATH=/repo:/verif /venv/bin/python /root/work/topdown/demo_topdown.py [n_circuits] [seed]
"""
import sys, os, json, math, subprocess, itertools, time
from fractions import Fraction
import numpy as np

sys.path[:0] = [__import__('os').environ.get('DEEPROB_REPO', '/repo'), __import__('os').path.dirname(__import__('os').path.dirname(__import__('os').path.dirname(__import__('os').path.abspath(__file__))))]
from harness.spn import rand_spn, export_net, domain_of
from harness.common import parse_q
from deeprob.spn.structure.node import assign_ids
from deeprob.spn.structure.leaf import Bernoulli, Categorical
from deeprob.spn.algorithms.inference import mpe, log_likelihood

LEAN_DIR = os.environ.get('TOPDOWN_LEAN', '/root/work/topdown/lean')
MARGIN = Fraction(1, 10000)


def build_driver():
    """build the model + ops; if `Driver.OpsTopDown` is not a target of the lakefile (old lakefile with
    explicit roots) compile its .olean by hand"""
    r = subprocess.run(['lake', 'build', 'DeeprobModel.Model.TopDownNet', 'Driver.Proto'], cwd=LEAN_DIR,
                       stdout=subprocess.PIPE, stderr=subprocess.STDOUT, text=True)
    if r.returncode != 0:
        raise SystemExit('lake build failed:\n' + r.stdout)
    r = subprocess.run(['lake', 'build', 'Driver.OpsTopDown'], cwd=LEAN_DIR,
                       stdout=subprocess.PIPE, stderr=subprocess.STDOUT, text=True)
    if r.returncode == 0:
        return
    out = os.path.join(LEAN_DIR, '.lake/build/lib/lean/Driver/OpsTopDown')
    r = subprocess.run(['lake', 'env', 'lean', '-o', out + '.olean', '-i', out + '.ilean', 'Driver/OpsTopDown.lean'],
                       cwd=LEAN_DIR, stdout=subprocess.PIPE, stderr=subprocess.STDOUT, text=True)
    if r.returncode != 0:
        raise SystemExit('OpsTopDown does not compile:\n' + r.stdout)


def run_driver(lines):
    p = subprocess.run(['lake', 'env', 'lean', '--run', 'Driver/MainTopDown.lean'], cwd=LEAN_DIR,
                       input='\n'.join(lines) + '\n', stdout=subprocess.PIPE, stderr=subprocess.PIPE, text=True)
    if p.returncode != 0:
        raise SystemExit('driver failed:\n' + p.stderr[-2000:])
    return p.stdout.splitlines()


def tie_some_leaves(rs, order):
    """make a few leaves exactly tied so that the tie rules are exercised
    (Bernoulli p = 0.5 -> 1 ; Categorical equal maxima -> first)"""
    n = 0
    for nd in order:
        if isinstance(nd, Bernoulli) and rs.rand() < 0.15:
            nd.p = 0.5
            n += 1
        elif isinstance(nd, Categorical) and rs.rand() < 0.15 and len(nd.categories) >= 2:
            k = len(nd.categories)
            p = np.full(k, 0.5 / (k - 1)) if k > 2 else np.array([0.5, 0.5])
            if k > 2:
                # two equal maxima at random positions i < j, rest share the remainder
                i, j = sorted(rs.choice(k, 2, replace=False).tolist())
                p = np.full(k, 0.2 / (k - 2))
                p[i] = p[j] = 0.4
            Categorical.__init__(nd, nd.scope[0], list(range(k)), p.tolist())
            n += 1
    return n


def main():
    n_circ = int(sys.argv[1]) if len(sys.argv) > 1 else 300
    seed = int(sys.argv[2]) if len(sys.argv) > 2 else 20260929
    rs = np.random.RandomState(seed)
    build_driver()

    cases, lines = [], []
    t0 = time.time()
    for ci in range(n_circ):
        nv = int(rs.randint(2, 6))
        depth = int(rs.randint(2, 5))
        root = rand_spn(rs, list(range(nv)), depth, kinds=('bern', 'cat'), share=0.35)
        table, order, index, acyclic = export_net(root)
        assert acyclic
        n_tied = tie_some_leaves(rs, order)
        assign_ids(root)
        table, order, index, acyclic = export_net(root)          # re-export after the edits
        dom = domain_of(order)
        bern = [i for i, nd in enumerate(order) if isinstance(nd, Bernoulli)]
        if os.environ.get('DEMO_NO_BERN'):      # sensitivity probe: treat Bernoulli leaves as Categorical (tie -> 0)
            bern = []
        shared = len(order) < sum(1 for _ in iter_tree(root))
        n_rows = 8
        X = np.full((n_rows, nv), np.nan)
        for r in range(n_rows):
            pm = [0.0, 0.3, 0.5, 0.8, 1.0][rs.randint(5)]
            for v in range(nv):
                if rs.rand() >= pm:
                    X[r, v] = rs.randint(dom[v])
        lines.append(json.dumps(dict(op='net', nodes=table, root=index[id(root)], dom=dom)))
        rows = [[None if math.isnan(x) else int(x) for x in X[r]] for r in range(n_rows)]
        for r in range(n_rows):
            lines.append(json.dumps(dict(op='mpe', row=rows[r], bern=bern, tree=True)))
        pmf_rows = [r for r in range(n_rows) if 1 <= sum(x is None for x in rows[r])][:2]
        for r in pmf_rows:
            lines.append(json.dumps(dict(op='pmf', row=rows[r], bern=bern)))
        cases.append(dict(root=root, X=X, rows=rows, pmf_rows=pmf_rows, nv=nv, dom=dom, n_nodes=len(order),
                          n_tied=n_tied, shared=shared,
                          arity=max([len(nd.children) for nd in order if hasattr(nd, 'weights') and getattr(nd, 'children', None)] or [0])))
    t_gen = time.time() - t0

    t0 = time.time()
    answers = run_driver(lines)
    t_lean = time.time() - t0
    if len(answers) != len(lines):
        raise SystemExit(f'driver answered {len(answers)} lines for {len(lines)} ops')

    it = iter(answers)
    stats = dict(circuits=0, shared=0, tied_leaves=0, rows=0, compared=0, skipped_margin=0, agree=0, disagree=0,
                 pmf_tables=0, pmf_entries=0, pmf_bad=0, keeps_bad=0, max_arity=0, zero_margin=0, pmf_total_dev=0.0, skipped_agree=0)
    disagreements = []
    for ci, c in enumerate(cases):
        a = next(it)
        if not a.startswith('ok ') or 'wellOrdered=true' not in a:
            raise SystemExit(f'circuit {ci}: net op answered {a}')
        stats['circuits'] += 1
        stats['shared'] += int(c['shared'])
        stats['tied_leaves'] += c['n_tied']
        stats['max_arity'] = max(stats['max_arity'], c['arity'])
        got = mpe(c['root'], c['X'])                     # the real library, all rows at once
        assert np.array_equal(np.isnan(c['X']), np.isnan(c['X']))
        for r in range(len(c['rows'])):
            a = next(it)
            stats['rows'] += 1
            if '|' not in a:
                raise SystemExit(f'circuit {ci} row {r}: mpe op answered {a}')
            comp, mg = a.split(' | ')
            model = [None if t == 'nan' else int(t) for t in comp.split()]
            # observed entries kept (model side; the theorem says so, the driver must agree)
            for v, x in enumerate(c['rows'][r]):
                if x is not None and model[v] != x:
                    stats['keeps_bad'] += 1
            margin = None if mg == 'inf' else parse_q(mg)
            if margin is not None and margin == 0:
                stats['zero_margin'] += 1
            if margin is not None and margin <= MARGIN:
                stats['skipped_margin'] += 1
                impl = [None if math.isnan(x) else int(x) for x in got[r]]
                stats['skipped_agree'] += int(impl == model)
                continue
            stats['compared'] += 1
            impl = [None if math.isnan(x) else int(x) for x in got[r]]
            if impl == model:
                stats['agree'] += 1
            else:
                stats['disagree'] += 1
                disagreements.append(dict(circuit=ci, row=c['rows'][r], impl=impl, model=model, margin=mg))
        for r in c['pmf_rows']:
            a = next(it)
            if a in ('zero-evidence',):
                continue
            if a in ('pmf-mismatch', 'unsupported-leaf') or a.startswith('bad-op'):
                stats['pmf_bad'] += 1
                disagreements.append(dict(circuit=ci, row=c['rows'][r], pmf=a))
                continue
            stats['pmf_tables'] += 1
            items = [t.split(':') for t in a.split()]
            tot = sum(parse_q(q) for _, q in items)
            # float32 weights / tables are normalised only up to rounding, so the exact total is 1 ± 1e-6
            stats['pmf_total_dev'] = max(stats['pmf_total_dev'], abs(float(tot - 1)))
            if abs(tot - 1) > Fraction(1, 100000):
                stats['pmf_bad'] += 1
                disagreements.append(dict(circuit=ci, row=c['rows'][r], pmf_total=str(tot)))
            xs = np.array([[int(ch) for ch in key] for key, _ in items], dtype=float)
            ll_x = log_likelihood(c['root'], xs)
            ll_e = log_likelihood(c['root'], c['X'][r:r + 1])[0]
            for (key, q), lx in zip(items, ll_x):
                stats['pmf_entries'] += 1
                ref = float(parse_q(q))
                val = math.exp(float(lx) - float(ll_e))
                if abs(val - ref) > 1e-4 + 1e-3 * ref:
                    stats['pmf_bad'] += 1
                    disagreements.append(dict(circuit=ci, row=c['rows'][r], key=key, impl=val, model=ref))

    print(json.dumps(dict(seed=seed, gen_seconds=round(t_gen, 1), lean_seconds=round(t_lean, 1), **stats), indent=1))
    for d in disagreements[:20]:
        print('DISAGREE', json.dumps(d))
    ok = stats['disagree'] == 0 and stats['pmf_bad'] == 0 and stats['keeps_bad'] == 0
    print('RESULT', 'agree' if ok else 'DISAGREEMENTS')
    return 0 if ok else 1


def iter_tree(n):
    yield n
    for c in getattr(n, 'children', []) or []:
        yield from iter_tree(c)


if __name__ == '__main__':
    sys.exit(main())
