#!/venv/bin/python
"""
Differential check of the modelled layered Kahn order (`Sched.layers`, driver op `layers`) against the REAL
`deeprob.spn.structure.node.topological_order_layered`, on random DAG circuits with shared sub-circuits,
k-parents/one-child fans, diamonds, repeated children and cyclic graphs; plus a few `trace` ops.

Usage: PYTHONPATH=/verif:/repo /venv/bin/python demo_sched.py [--n 150] [--driver PATH]
"""
import argparse, json, subprocess, sys
import numpy as np
from deeprob.spn.structure.node import Sum, Product, topological_order_layered, assign_ids
from deeprob.spn.structure.leaf import Bernoulli
from harness.spn import export_net, rand_spn


def fan(k):
    leaf = Bernoulli(0, p=0.3)
    ps = [Product(scope=[0], children=[leaf]) for _ in range(k)]
    return Sum(scope=[0], children=ps, weights=np.full(k, 1.0 / k, dtype=np.float32))


def diamond(depth):
    node = Bernoulli(0, p=0.5)
    for _ in range(depth):
        a = Product(scope=[0], children=[node])
        b = Product(scope=[0], children=[node])
        node = Sum(scope=[0], children=[a, b], weights=np.array([0.5, 0.5], dtype=np.float32))
    return node


def repeated_child():
    leaf = Bernoulli(0, p=0.5)
    p = Product(scope=[0], children=[leaf])
    return Sum(scope=[0], children=[p, p, leaf], weights=np.array([0.25, 0.25, 0.5], dtype=np.float32))


def cyclic(kind):
    leaf = Bernoulli(0, p=0.5)
    a = Product(scope=[0], children=[leaf])
    b = Sum(scope=[0], children=[a, leaf], weights=np.array([0.5, 0.5], dtype=np.float32))
    if kind == 0:
        a.children.append(b)          # cycle below the root
        return Product(scope=[0], children=[b])
    a.children.append(b)              # the root itself is on a cycle
    return b


def main():
    ap = argparse.ArgumentParser()
    ap.add_argument('--n', type=int, default=150)
    ap.add_argument('--driver', default='/root/work/learn/lean/.lake/build/bin/driver')
    a = ap.parse_args()
    rs = np.random.RandomState(7)
    roots = [fan(k) for k in (1, 2, 3, 16)] + [diamond(d) for d in (1, 2, 5)] + [repeated_child(), cyclic(0), cyclic(1)]
    while len(roots) < a.n:
        nv = rs.randint(1, 6)
        roots.append(rand_spn(rs, list(range(nv)), rs.randint(1, 5), share=0.5))
    ops, expect = [], []
    for r in roots:
        table, order, index, acyclic = export_net(r)
        L = topological_order_layered(r)
        exp = 'none' if L is None else "|".join(" ".join(str(index[id(n)]) for n in layer) for layer in L)
        ops.append(json.dumps(dict(op='net', nodes=table, root=index[id(r)])))
        ops.append(json.dumps(dict(op='layers')))
        expect.append((exp, len(order), acyclic))
    # a few trace ops
    tr = [
        (dict(op='trace', layers=[[dict(task=1, acts=[dict(kind='or', array='masks', rows=[3], locked=True)]),
                                   dict(task=2, acts=[dict(kind='or', array='masks', rows=[3], locked=True)])]]),
         'disciplined'),
        (dict(op='trace', layers=[[dict(task=1, acts=[dict(kind='or', array='masks', rows=[3], locked=False)]),
                                   dict(task=2, acts=[dict(kind='or', array='masks', rows=[3], locked=False)])]]),
         'violation layer=0 task=1 act=0 (or masks locked=false) task=2 act=0 (or masks locked=false)'),
        (dict(op='trace', layers=[[dict(task=1, acts=[dict(kind='write', array='x', cells=[[0, 1]])]),
                                   dict(task=2, acts=[dict(kind='write', array='x', cells=[[0, 2]])])],
                                  [dict(task=3, acts=[dict(kind='write', array='ls', rows=[3])]),
                                   dict(task=4, acts=[dict(kind='read', array='ls', rows=[3, 5])])]]),
         'violation layer=1 task=3 act=0 (write ls locked=false) task=4 act=0 (read ls locked=false)'),
    ]
    for op, _ in tr:
        ops.append(json.dumps(op))
    res = subprocess.run([a.driver], input="\n".join(ops) + "\n", capture_output=True, text=True)
    lines = res.stdout.splitlines()
    assert len(lines) == len(ops), (len(lines), len(ops))
    ok = bad = 0
    n_none = 0
    for i, (exp, n, acyclic) in enumerate(expect):
        got = lines[2 * i + 1]
        body, _, flag = got.rpartition(' reachOK=')
        if exp == 'none':
            n_none += 1
        if body == exp and flag == 'true':
            ok += 1
        else:
            bad += 1
            print("MISMATCH", n, acyclic, "real:", exp, "lean:", got)
    print(f"layers: AGREE {ok} / {len(expect)} nets ({n_none} cyclic -> None/none), sizes up to {max(e[1] for e in expect)} nodes")
    tok = 0
    for (op, exp), got in zip(tr, lines[2 * len(expect):]):
        if got == exp:
            tok += 1
        else:
            print("TRACE MISMATCH", exp, "|", got)
    print(f"trace ops: {tok} / {len(tr)} as expected")
    return 0 if bad == 0 and tok == len(tr) else 1


if __name__ == '__main__':
    sys.exit(main())
