import sys, json, math, subprocess
sys.path[:0]=[__import__('os').environ.get('DEEPROB_REPO', '/repo'), __import__('os').path.dirname(__import__('os').path.dirname(__import__('os').path.dirname(__import__('os').path.abspath(__file__)))), __import__('os').path.dirname(__import__('os').path.abspath(__file__))]
import numpy as np
from collections import Counter
from harness.spn import rand_spn, export_net, domain_of
from harness.common import parse_q
from deeprob.spn.structure.node import assign_ids
from deeprob.spn.structure.leaf import Bernoulli
from deeprob.spn.algorithms.sampling import sample
import demo_topdown as D
rs=np.random.RandomState(3)
lines=[];cases=[]
for ci in range(12):
    nv=3
    root=rand_spn(rs,list(range(nv)),3,kinds=('bern','cat'),share=0.3)
    assign_ids(root)
    table,order,index,_=export_net(root)
    dom=domain_of(order)
    bern=[i for i,n in enumerate(order) if isinstance(n,Bernoulli)]
    row=[None]*nv
    if ci%2: row[0]=0
    lines.append(json.dumps(dict(op='net',nodes=table,root=index[id(root)],dom=dom)))
    lines.append(json.dumps(dict(op='pmf',row=row,bern=bern)))
    cases.append((root,row,nv))
ans=D.run_driver(lines)
N=40000
for ci,(root,row,nv) in enumerate(cases):
    a=ans[2*ci+1]
    pm={k:float(parse_q(q)) for k,q in (t.split(':') for t in a.split())}
    X=np.array([[np.nan if x is None else x for x in row]]*N,dtype=float)
    np.random.seed(ci)
    S=sample(root,X)
    cnt=Counter(''.join(str(int(v)) for v in r) for r in S)
    dev=max(abs(cnt.get(k,0)/N-p) for k,p in pm.items())
    print(ci,row,'max|emp-exact|=%.4f'%dev, 'root',type(root).__name__, len(getattr(root,'children',[])))
print('--- with right-skewed Gumbel noise (in-process patch of sum_sample, /repo untouched)')
import deeprob.spn.algorithms.sampling as SM
from scipy import stats
def sum_sample_r(node,lls):
    g=stats.gumbel_r.rvs(0.0,1.0,size=lls.shape)
    return np.argmax(lls+np.log(node.weights)+g,axis=1)
SM.sum_sample=sum_sample_r
for ci,(root,row,nv) in enumerate(cases):
    a=ans[2*ci+1]
    pm={k:float(parse_q(q)) for k,q in (t.split(':') for t in a.split())}
    X=np.array([[np.nan if x is None else x for x in row]]*N,dtype=float)
    np.random.seed(ci)
    S=SM.sample(root,X)
    cnt=Counter(''.join(str(int(v)) for v in r) for r in S)
    dev=max(abs(cnt.get(k,0)/N-p) for k,p in pm.items())
    print(ci,row,'max|emp-exact|=%.4f'%dev)
