#!/venv/bin/python
"""
Correspondence demo for the Lean model of the three cutset-network learners
(DeeprobModel/Model/CnetLearn.lean, Driver/OpsCnetLearn.lean; theorems in Props/C18Learn.lean).

For every generated case the REAL learner runs (`BinaryCNet.fit`, `learn_cnet_bd`, `learn_cnet_bic`), the
decisions it took are read off the returned object in the code's visiting order (breadth-first: the FIFO
`node_stack`): one entry per node at which the code computes scores — `v` (the node was cut on `or_id = v`) or
"stop" (it kept its Chow-Liu tree).  The Lean machine replays them on the same data and parameters and the
demo compares
  * the canonical text of the OR tree (scopes, cut variables, child order, the ROW SETS and scopes of all leaves)
    exactly;
  * every branch weight: the model's exact rational vs the stored float and vs exp(log(float)), within 1e-6
    (and `w0 + w1 = 1`, `0 < w < 1` on the exact side);
  * the leaves with their paths (`cnetlearn_leaves`) vs the training rows agreeing with the path, computed
    here independently from the data (theorem `leaf_rows_are_path_filter`), and vs `node.row_indices`;
  * total mass of the learned network over all 2^n rows (theorem `learned_cnet_normalised`), within 1e-4;
  * `n_cand_cuts = 1`: the code raises TypeError at the first node with >= 2 variables — the model answers
    `raises: …` for exactly those runs;
  * F11: an in-memory copy of `fit` WITHOUT `self.clt = root.clt` (the pinned code) is run on the no-split
    cases: its `log_likelihood` must raise, and the model with `keep_root_clt=false` must answer `raises: …`.
Exit status 0 iff model and implementation agree on everything generated.

Run:  cd /verif && PYTHONPATH=/repo:/verif /venv/bin/python /root/work3/cnetlearn/demo_cnetlearn.py [--n 400] [--seed 0]
"""
import argparse, collections, inspect, itertools, json, math, os, re, subprocess, sys, types, warnings
from fractions import Fraction
import numpy as np

import deeprob.spn.structure.cnet as CN
from deeprob.spn.structure.cnet import BinaryCNet
from deeprob.spn.learning.cnet_bayesian import learn_cnet_bd, learn_cnet_bic

DRIVER = os.environ.get('DEEPROB_DRIVER', __import__('os').path.join(__import__('os').path.dirname(__import__('os').path.dirname(__import__('os').path.dirname(__import__('os').path.abspath(__file__)))), 'lean', '.lake', 'build', 'bin', 'driver'))


def fstr(q):
    q = Fraction(q)
    return f"{q.numerator}/{q.denominator}"


def parse_q(s):
    n, d = s.split('/')
    return Fraction(int(n), int(d))


class Driver:
    def __init__(self, exe):
        if not os.path.exists(exe):
            raise SystemExit(f'driver not built: {exe}')
        self.p = subprocess.Popen([exe], stdin=subprocess.PIPE, stdout=subprocess.PIPE, text=True, bufsize=1)
        self.lines = 0

    def ask(self, obj, raw=False):
        self.p.stdin.write(json.dumps(obj) + '\n')
        self.p.stdin.flush()
        a = self.p.stdout.readline()
        if not a:
            raise RuntimeError('driver died')
        self.lines += 1
        a = a.rstrip('\n')
        if a.startswith('bad-op') and not raw:
            raise RuntimeError(f'{a} for {json.dumps(obj)[:600]}')
        return a

    def close(self):
        try:
            self.p.stdin.close()
            self.p.wait(timeout=10)
        except Exception:
            self.p.kill()


# ------------------------------------------------------------------------------------------ data
FAMILIES = ['random', 'clustered', 'constant-column', 'duplicated-columns', 'identical-rows', 'sparse', 'context-specific',
            'two-distinct-rows', 'mixture']


def gen_data(rs, k):
    nv = int(rs.randint(2, 9))
    nr = int(rs.choice([3, 6, 12, 30, 80, 200, 500]))
    fam = k % len(FAMILIES)
    X = rs.randint(0, 2, size=(nr, nv))
    if fam == 1:
        z = rs.randint(0, 2, size=(nr, 2))
        X = np.stack([np.where(rs.rand(nr) < 0.15, 1 - z[:, j % 2], z[:, j % 2]) for j in range(nv)], axis=1)
    elif fam == 2:
        X[:, rs.randint(nv)] = rs.randint(2)
        if nv > 3:
            X[:, rs.randint(nv)] = rs.randint(2)
    elif fam == 3:
        src = rs.randint(nv)
        for j in rs.choice(nv, size=max(1, nv // 2), replace=False):
            X[:, j] = X[:, src] if rs.rand() < 0.7 else 1 - X[:, src]
    elif fam == 4:
        X = np.tile(rs.randint(0, 2, size=(1, nv)), (nr, 1))
    elif fam == 5:
        X = (rs.rand(nr, nv) < 0.1).astype(int)
    elif fam == 6:
        nv = max(nv, 4)
        nr = int(rs.choice([200, 500, 900]))
        X = rs.randint(0, 2, size=(nr, nv))
        X[:, 3] = np.where(X[:, 0] == 0, X[:, 1] ^ X[:, 2], X[:, 1])
        if nv > 4:
            X[:, 4] = np.where(X[:, 1] == 1, X[:, 0] ^ X[:, 2], X[:, 4])
    elif fam == 7:
        a, b = rs.randint(0, 2, size=(2, nv))
        X = np.where(rs.rand(nr, 1) < 0.5, a[None, :], b[None, :])
    elif fam == 8:
        # two regimes selected by one variable: copies of a hidden bit in one, independent noise in the other
        nr = int(rs.choice([60, 200, 500, 1000]))
        X = rs.randint(0, 2, size=(nr, nv))
        sel = int(rs.randint(nv))
        z = rs.randint(0, 2, size=nr)
        for j in range(nv):
            if j != sel:
                X[:, j] = np.where(X[:, sel] == 0, np.where(rs.rand(nr) < 0.05, 1 - z, z), X[:, j])
    return np.ascontiguousarray(X).astype(np.float32), FAMILIES[fam]


def choose_learner(rs, X, k):
    nr, nv = X.shape
    which = ['fit', 'bd', 'bic'][(k // len(FAMILIES)) % 3]
    if which == 'fit':
        kw = dict(alpha=float(rs.choice([0.01, 0.1, 1.0])),
                  min_n_samples=int(rs.choice([0, 1, 1, 5, 10, 40, nr])),       # nr: no node may be split
                  min_n_features=int(rs.choice([1, 1, 1, 2, nv])),              # nv: no node may be split
                  min_mean_entropy=float(rs.choice([0.0, 0.01, 0.3])))
    elif which == 'bd':
        kw = dict(ess=float(rs.choice([0.1, 1.0, 4.0])), n_cand_cuts=int(rs.choice([1, 2, 3, 10, 10, 10])))
    else:
        kw = dict(alpha=float(rs.choice([0.01, 0.1, 1.0])), n_cand_cuts=int(rs.choice([1, 2, 3, 10, 10, 10])))
    return which, kw


def run_learner(which, kw, X, mod=CN):
    if which == 'fit':
        c = mod.BinaryCNet(scope=list(range(X.shape[1])))
        c.fit(X, **kw)
        return c
    if which == 'bd':
        return learn_cnet_bd(X, **kw)
    return learn_cnet_bic(X, **kw)


def pinned_module():
    """in-memory copy of cnet.py without the F11 repair"""
    src = inspect.getsource(CN)
    if src.count("        self.clt = root.clt\n") != 1:
        return None     # fit no longer has that shape: the pinned-code self-test is skipped (it tests the model of the OLD code only)
    src = src.replace("        self.clt = root.clt\n", "")
    mod = types.ModuleType('cnet_pinned')
    exec(compile(src, 'cnet_pinned.py', 'exec'), mod.__dict__)
    return mod


# ------------------------------------------------------------------------------------------ export
def is_split(node):
    return bool(node.children)


def consulted(which, kw, node):
    """does the code compute scores at this node? (mirrors the two score-free stop rules)"""
    n_rows, n_scope = len(node.row_indices), len(node.scope)
    if which == 'fit':
        return not (n_rows <= kw['min_n_samples'] or n_scope <= kw['min_n_features'])
    return n_scope != 1


def extract_script(which, kw, root):
    """decisions in the code's visiting order (node_stack.pop(0) / append left, append right)"""
    script, queue, problems = [], [root], []
    while queue:
        node = queue.pop(0)
        if is_split(node):
            if not consulted(which, kw, node):
                problems.append(f'node over {list(node.scope)} with {len(node.row_indices)} rows was split although a score-free stop rule applies')
            script.append(int(node.or_id))
            queue.append(node.children[0])
            queue.append(node.children[1])
        else:
            if getattr(node, 'clt', None) is None:
                problems.append(f'unsplit node over {list(node.scope)} has no Chow-Liu tree')
            if consulted(which, kw, node):
                script.append('stop')
    return script, problems


def ints(a):
    return ' '.join(str(int(v)) for v in a)


def render_py(node, weights):
    """canonical text of the returned object with the weights masked; weights collected in pre-order"""
    if not is_split(node):
        if [int(v) for v in node.clt.scope] != [int(v) for v in node.scope]:
            raise AssertionError('leaf tree scope differs from node scope')
        return f"L(rows={ints(node.row_indices)};scope={ints(node.scope)})"
    weights.append((float(node.weights[0]), float(node.weights[1])))
    l = render_py(node.children[0], weights)
    r = render_py(node.children[1], weights)
    return "O{" + ints(node.scope) + "}[v=" + str(int(node.or_id)) + ";w=?](" + l + "," + r + ")"


def leaves_py(node, path, X, out):
    """leaves with paths; rows recomputed from the data, independently of row_indices"""
    if not is_split(node):
        rows = [r for r in range(X.shape[0]) if all(int(X[r, v]) == b for v, b in path)]
        scope = [v for v in range(X.shape[1]) if v not in {v for v, _ in path}]
        out.append((' '.join(f'{v}:{b}' for v, b in path), ints(rows), ints(scope), ints(node.row_indices), ints(node.scope)))
        return
    leaves_py(node.children[0], path + [(int(node.or_id), 0)], X, out)
    leaves_py(node.children[1], path + [(int(node.or_id), 1)], X, out)


def depth(node):
    return 0 if not is_split(node) else 1 + max(depth(c) for c in node.children)


W_RE = re.compile(r'w=(-?\d+/\d+),(-?\d+/\d+)\]')


# ------------------------------------------------------------------------------------------ main
def main():
    ap = argparse.ArgumentParser()
    ap.add_argument('--n', type=int, default=400)
    ap.add_argument('--seed', type=int, default=0)
    ap.add_argument('--driver', default=DRIVER)
    args = ap.parse_args()
    warnings.filterwarnings('ignore')
    np.seterr(all='ignore')

    drv = Driver(args.driver)
    pinned = pinned_module()
    cnt = collections.Counter()
    mismatches = []

    def bad(kind, msg, rep):
        mismatches.append((kind, msg, rep))
        cnt['MISMATCH:' + kind] += 1

    for k in range(args.n):
        rs = np.random.RandomState(args.seed * 100003 + k)
        X, fam = gen_data(rs, k)
        nr, nv = X.shape
        which, kw = choose_learner(rs, X, k)
        rep = dict(k=k, seed=args.seed, learner=which, args=kw, family=fam, data=X.astype(int).tolist())
        par = Fraction(kw['ess'] if which == 'bd' else kw['alpha'])
        base = dict(kind=which, data=X.astype(int).tolist(), n_cols=nv, par=fstr(par),
                    min_n_samples=kw.get('min_n_samples', 10), min_n_features=kw.get('min_n_features', 1),
                    n_cand_cuts=kw.get('n_cand_cuts', 10))
        cnt['cases'] += 1
        cnt['learner:' + which] += 1
        cnt['family:' + fam] += 1
        np.random.seed(args.seed * 7919 + k)          # BinaryCLT.fit draws its root from the global generator
        try:
            c = run_learner(which, kw, X)
        except Exception as ex:
            # the only raise the model predicts: n_cand_cuts == 1 at a node with >= 2 variables
            ans = drv.ask(dict(base, op='cnetlearn', script=[]), raw=True)
            cnt['python-raises:' + type(ex).__name__] += 1
            if ans.startswith('bad-op script exhausted'):
                # the learner machine wants to go on (it asks for the first decision): on this data set learning does not raise
                bad('raise', f'the learner raised {type(ex).__name__}: {ex} on a data set on which the learner machine proceeds to a decision '
                             f'(no network is learned at all)', rep)
            elif not ans.startswith('raises:'):
                bad('raise', f'python raised {type(ex).__name__}: {ex} but the model answers {ans[:120]}', rep)
            elif not (isinstance(ex, TypeError) and kw.get('n_cand_cuts') == 1):
                bad('raise', f'python raised {type(ex).__name__}: {ex}, not the predicted TypeError', rep)
            else:
                cnt['raises-agree'] += 1
            continue

        script, problems = extract_script(which, kw, c)
        for p in problems:
            bad('object', p, rep)
        if problems:
            continue
        cnt['decisions'] += len(script)
        cnt['decisions:stop'] += sum(1 for d in script if d == 'stop')
        cnt['decisions:cut'] += sum(1 for d in script if d != 'stop')
        cnt[f'or-depth:{which}={depth(c)}'] += 1
        cnt[('no-split-at-all:' if not is_split(c) else 'root-split:') + which] += 1
        if not is_split(c) and not script:
            cnt['no-split:forbidden-by-thresholds'] += 1

        ans = drv.ask(dict(base, op='cnetlearn', script=script))
        if ans.startswith('raises:'):
            bad('raise', f'model predicts a raise ({ans}) but python returned', rep)
            continue
        # ---- structure
        ws_py = []
        txt_py = render_py(c, ws_py)
        txt_model = W_RE.sub('w=?]', ans)
        if txt_py != txt_model:
            bad('structure', f'python {txt_py[:300]} / model {txt_model[:300]}', rep)
            continue
        cnt['trees-equal'] += 1
        # ---- weights
        ws_model = [(parse_q(a), parse_q(b)) for a, b in W_RE.findall(ans)]
        if len(ws_model) != len(ws_py):
            bad('weights', 'different number of OR nodes', rep)
            continue
        for (q0, q1), (f0, f1) in zip(ws_model, ws_py):
            cnt['weights-compared'] += 2
            ok = (q0 + q1 == 1 and 0 < q0 < 1 and 0 < q1 < 1
                  and abs(float(q0) - f0) <= 1e-6 and abs(float(q1) - f1) <= 1e-6
                  and abs(float(q0) - math.exp(math.log(f0))) <= 1e-6 and abs(float(q1) - math.exp(math.log(f1))) <= 1e-6)
            if not ok:
                bad('weights', f'model ({q0}, {q1}) vs python ({f0}, {f1})', rep)
                break
        # ---- leaves and paths
        lv = []
        leaves_py(c, [], X, lv)
        exp_leaves = ';'.join(f'path={p}|rows={r}|scope={s}' for p, r, s, _, _ in lv)
        ans_l = drv.ask(dict(base, op='cnetlearn_leaves', script=script))
        cnt['leaves-compared'] += len(lv)
        if ans_l != exp_leaves:
            bad('leaves', f'model {ans_l[:300]} / path filter on the data {exp_leaves[:300]}', rep)
        for p, r, s, r_obj, s_obj in lv:
            if r != r_obj or s != s_obj:
                bad('leaves', f'leaf at path {p}: row_indices {r_obj} / scope {s_obj} but the path filter gives {r} / {s}', rep)
                break
        if any(r == '' for _, r, _, _, _ in lv):
            cnt['trees-with-an-empty-leaf:' + which] += 1
        # ---- sensitivity: corrupted scripts must be rejected or give a different tree
        cuts = [i for i, d in enumerate(script) if d != 'stop']
        if cuts:
            i = cuts[-1]
            for label, sc2 in (('cut-outside-scope', script[:i] + [nv + 3] + script[i + 1:]),
                               ('script-too-short', script[:i]),
                               ('script-too-long', script + ['stop', 'stop', 'stop'] * (2 ** 3))):
                a2 = drv.ask(dict(base, op='cnetlearn', script=sc2), raw=True)
                cnt['corrupted-scripts'] += 1
                if not a2.startswith('bad-op'):
                    bad('sensitivity', f'{label}: the driver accepted a script that is not the record of this run: {a2[:120]}', rep)
                else:
                    cnt['corrupted-scripts-rejected'] += 1
            a3 = drv.ask(dict(base, op='cnetlearn', script=script[:i] + ['stop'] + script[i + 1:]), raw=True)
            cnt['corrupted-scripts'] += 1
            if W_RE.sub('w=?]', a3) == txt_py:
                bad('sensitivity', 'replacing the last cut by a stop gives the same tree', rep)
            else:
                cnt['corrupted-scripts-rejected'] += 1
        # ---- mass of the learned object
        rows = np.array(list(itertools.product([0, 1], repeat=nv)), dtype=np.float32)
        try:
            ll = np.asarray(c.log_likelihood(rows), dtype=np.float64).reshape(-1)
            mass = float(np.sum(np.exp(ll)))
            cnt['mass-checked'] += 1
            if not abs(mass - 1.0) <= 1e-4:
                bad('mass', f'likelihoods of all {len(rows)} rows sum to {mass}', rep)
        except Exception as ex:
            bad('evaluation', f'log_likelihood raises {type(ex).__name__}: {ex}', rep)
        # ---- F11: the pinned fit on the no-split cases
        if pinned is None:
            cnt['pinned-self-test-skipped'] += 1
            continue
        if which == 'fit':
            ans_p = drv.ask(dict(base, op='cnetlearn', script=script, keep_root_clt=False))
            np.random.seed(args.seed * 7919 + k)
            cp = run_learner(which, kw, X, mod=pinned)
            try:
                cp.log_likelihood(rows[:2])
                raised = False
            except Exception:
                raised = True
            cnt['pinned-fit-runs'] += 1
            if raised != ans_p.startswith('raises:') or raised != (not is_split(c)):
                bad('f11', f'pinned fit: evaluation raises={raised}, model answers {ans_p[:80]}, split={is_split(c)}', rep)
            elif raised:
                cnt['pinned-fit-raises-agree'] += 1

    drv.close()
    for key in sorted(cnt):
        print(f'{key:45s} {cnt[key]}')
    print(f'driver lines: {drv.lines}')
    if mismatches:
        print(f'\n{len(mismatches)} MISMATCH(ES)')
        for kind, msg, rep in mismatches[:10]:
            print(f'[{kind}] {msg}')
            print('   replay:', json.dumps({kk: vv for kk, vv in rep.items() if kk != "data"}), ' data rows:', len(rep['data']))
        sys.exit(1)
    print('\nmodel and implementation agree on every generated case')
    sys.exit(0)


if __name__ == '__main__':
    main()
