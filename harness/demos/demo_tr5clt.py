"""Loop skeletons of block K (tr5clt): implementation = GENERATED LOOP = fourth-wave definition = hand-written model.

    cd /verif && PYTHONPATH=/repo:/verif /venv/bin/python harness/demos/demo_tr5clt.py [seed]

(a) Chow-Liu trees: EVERY predecessor vector (rooted labelled tree) with n <= 5 variables, random scope order and random tables, x
    evidence patterns (all 3^n rows for n <= 4; for n = 5 all 2^5 missing-masks with random observed values, all 3^5 rows when
    TR5_FULL=1): `message_passing` (both reductions: the messages array and the returned values) and `mpe` of the REAL code against the
    driver ops `s5_clt_mp` / `s5_clt_mpe`, which execute the loops extracted from the current source (`Gen.S5cltMessagePassing`,
    `Gen.S5cltMpeLoop` with the row bodies of Model/CltLoop.lean), the fourth-wave definitions (`Gen.S4clt…`) and the model side by side.
    Generated loop = fourth wave = model must agree EXACTLY (rationals); the implementation within float32 tolerance; `mpe` rows exactly,
    or (a tie within float accuracy) with equal value.
(b) prune / marginalize on random DAG circuits: see the section itself (ops `s5_prune`, `s5_marg` when the driver has them).
Exit status 0 iff no disagreement; the counts per section are printed.  DEMO_SECTIONS=a,b restricts the sections.
"""
import collections, itertools, json, math, os, random, subprocess, sys
from fractions import Fraction as Fr
import numpy as np

from deeprob.spn.structure.cltree import BinaryCLT

EXE = os.environ.get('DEEPROB_DRIVER', os.path.join(os.path.dirname(os.path.dirname(os.path.dirname(os.path.abspath(__file__)))), 'lean', '.lake', 'build', 'bin', 'driver'))
WANT = set(filter(None, os.environ.get('DEMO_SECTIONS', '').split(',')))
FULL = os.environ.get('TR5_FULL', '') == '1'
seed = int(sys.argv[1]) if len(sys.argv) > 1 else 1
rnd = random.Random(seed)
np.random.seed(seed)


class Driver:
    def __init__(self):
        if not os.path.exists(EXE):
            sys.exit('driver is not built: ' + EXE)
        self.p = subprocess.Popen([EXE], stdin=subprocess.PIPE, stdout=subprocess.PIPE, text=True, bufsize=1)

    def ask(self, obj):
        self.p.stdin.write(json.dumps(obj) + '\n')
        self.p.stdin.flush()
        a = self.p.stdout.readline().rstrip('\n')
        if not a or a.startswith('bad-op') or a.startswith('error'):
            raise RuntimeError(f'driver: {a!r} for {json.dumps(obj)[:300]}')
        return a


D = Driver()
counts = collections.Counter()
bad = []


def fs(x):
    q = Fr(float(x))
    return f'{q.numerator}/{q.denominator}'


def pq(s):
    n, d = s.split('/')
    return Fr(int(n), int(d))


def close(a, b, tol=1e-5):
    a, b = float(a), float(b)
    return abs(a - b) <= tol * (1 + abs(b))


def check(section, ok, info):
    counts[section] += 1
    if not ok:
        bad.append((section, info))
        if len(bad) <= 20:
            print('DISAGREEMENT', section, info)


def on(section):
    return not WANT or section in WANT


def all_preds(n):
    """every predecessor vector of a rooted labelled tree on n positions (n^(n-1) of them)"""
    out = []
    for root in range(n):
        others = [i for i in range(n) if i != root]
        for ps in itertools.product(range(n), repeat=n - 1):
            pred = [-1] * n
            ok = True
            for i, p in zip(others, ps):
                if p == i:
                    ok = False
                    break
                pred[i] = p
            if not ok:
                continue
            # every position reaches the root
            for i in range(n):
                seen, j = set(), i
                while j != -1 and j not in seen:
                    seen.add(j)
                    j = pred[j]
                if j != -1:
                    ok = False
                    break
            if ok:
                out.append(pred)
    return out


def make_clt(pred):
    n = len(pred)
    scope = list(range(n))
    rnd.shuffle(scope)
    p = np.random.uniform(0.05, 0.95, size=(n, 2))
    root = pred.index(-1)
    p[root, 1] = p[root, 0]                      # equal root rows (what fit / EM produce)
    cpt = np.stack([1.0 - p, p], axis=2)         # cpt[i, l, k] = P(X_i = k | parent = l)
    clt = BinaryCLT(scope, tree=list(pred), params=np.log(cpt).astype(np.float32))
    return clt


def clt_json(clt):
    cpt = np.exp(clt.params.astype(np.float64))
    return {'scope': [int(s) for s in clt.scope], 'pred': [int(t) for t in clt.tree],
            'cpt': [[[fs(cpt[i, l, k]) for k in (0, 1)] for l in (0, 1)] for i in range(len(clt.scope))]}


def rows_for(n):
    if n <= 4 or FULL:
        return [list(r) for r in itertools.product((None, 0, 1), repeat=n)]
    return [[None if m else rnd.randrange(2) for m in mask] for mask in itertools.product((False, True), repeat=n)]


if on('a'):
    for n in range(1, int(os.environ.get("TR5_MAXN", "5")) + 1):
        preds = all_preds(n)
        assert len(preds) == n ** (n - 1), (n, len(preds))
        for pred in preds:
            clt = make_clt(pred)
            cj = clt_json(clt)
            rows = rows_for(n)
            x = np.array([[np.nan if v is None else float(v) for v in r] for r in rows], dtype=np.float32)
            obs_mask = ~np.isnan(x)
            by_var = []
            for r in rows:                      # the driver takes the row indexed by VARIABLE, column i of x is variable scope[i]
                rv = [None] * n
                for i, v in enumerate(r):
                    rv[clt.scope[i]] = v
                by_var.append(rv)
            for reduce in ('mar', 'mpe'):
                msgs = clt.message_passing(x, obs_mask, return_lls=False, reduce=reduce)
                vals = clt.message_passing(x, obs_mask, return_lls=True, reduce=reduce)
                for r, rv in enumerate(by_var):
                    lm, g4, md, lv = D.ask(dict(cj, op='s5_clt_mp', row=rv, reduce=reduce)).split(' | ')
                    ok = lm == g4 == md
                    ok = ok and np.allclose([math.log(pq(t)) for t in lm.split()], msgs[:, r, :].reshape(-1), atol=1e-4)
                    a, b = lv.split()
                    ok = ok and close(math.log(pq(a)), vals[r], 1e-4)
                    if reduce == 'mar':
                        ok = ok and a == b
                    check('a.message_passing', ok, (cj, rv, reduce, lm, g4, md, lv, msgs[:, r, :].reshape(-1), vals[r]))
            comp = clt.mpe(x)
            check('a.mpe.inplace', np.array_equal(np.isnan(x), ~obs_mask), (cj,))
            for r, rv in enumerate(by_var):
                l, g4, md = D.ask(dict(cj, op='s5_clt_mpe', row=rv)).split(' | ')
                impl = ' '.join(str(int(v)) for v in comp[r])
                ok = l == g4 == md
                if ok and impl != l:
                    full = [None] * n
                    for i in range(n):
                        full[clt.scope[i]] = int(comp[r, i])
                    best = [None] * n
                    for i, t in enumerate(l.split()):
                        best[clt.scope[i]] = int(t)
                    va = pq(D.ask(dict(cj, op='clt_value', row=full)))
                    vb = pq(D.ask(dict(cj, op='clt_value', row=best)))
                    ok = close(va, vb, 1e-6)
                    counts['a.mpe.ties'] += 1
                check('a.mpe', ok, (cj, rv, l, g4, md, impl))
        print(f'n={n}: {len(preds)} trees done', flush=True)

if on('b'):
    try:
        from harness.demos import demo_tr5clt_rewrite                     # section (b) lives in its own module when present
        demo_tr5clt_rewrite.run(D, rnd, check, counts)
    except ImportError:
        print('section (b) (prune / marginalize loops): not delivered in this copy')

if on('c'):
    # (c) the LAW of `BinaryCLT.sample`: the Bernoulli parameters the implementation hands to `ss.bernoulli.rvs` are recorded (the
    # library module's `ss` is replaced by a recorder that draws from its own generator); for every row the product of the probabilities
    # of the draws that were made  =  the probability the GENERATED loop (`Gen.S5cltSampleLoop` on weighted rows, op `s5_clt_sample`)
    # assigns to the returned row  =  value(returned row) / value(evidence)   (`E2ECltSample.e2e_sample_loop_law`)
    import deeprob.spn.structure.cltree as CT

    class _Bern:
        def __init__(self, rs):
            self.rs, self.calls = rs, []

        def rvs(self, p, *a, **k):
            p = np.asarray(p, dtype=np.float64)
            self.calls.append(p.copy())
            return (self.rs.rand(*p.shape) < p).astype(np.int64)

    class _SS:
        def __init__(self, real, rs):
            self._real, self.bernoulli = real, _Bern(rs)

        def __getattr__(self, name):
            return getattr(self._real, name)

    real_ss = CT.ss
    rs = np.random.RandomState(seed)
    try:
        for n in range(1, min(4, int(os.environ.get("TR5_MAXN", "5"))) + 1):
            for pred in all_preds(n):
                clt = make_clt(pred)
                cj = clt_json(clt)
                rows = [r for r in rows_for(n) if any(v is None for v in r)]
                x = np.array([[np.nan if v is None else float(v) for v in r] for r in rows], dtype=np.float32)
                rec = _SS(real_ss, rs)
                CT.ss = rec
                try:
                    out = clt.sample(x)
                finally:
                    CT.ss = real_ss
                order = [int(clt.root)] + [int(j) for j in clt.bfs[1:]]
                mis = np.isnan(x)
                ok_shape = len(rec.bernoulli.calls) == len(order) and all(len(p) == int(mis[:, j].sum()) for p, j in zip(rec.bernoulli.calls, order))
                check('c.sample.calls', ok_shape and not np.isnan(out).any() and np.array_equal(out[~mis], x[~mis]), (cj, 'one rvs call per variable in bfs order'))
                if not ok_shape:
                    continue
                prob = np.ones(len(rows))
                for p, j in zip(rec.bernoulli.calls, order):
                    idx = np.nonzero(mis[:, j])[0]
                    prob[idx] *= np.where(out[idx, j] == 1, p, 1.0 - p)
                for r in range(len(rows)):
                    rv, tv = [None] * n, [None] * n
                    for i in range(n):
                        rv[clt.scope[i]] = rows[r][i]
                        tv[clt.scope[i]] = int(out[r, i])
                    a, b = D.ask(dict(cj, op='s5_clt_sample', row=rv, target=tv)).split()
                    ok = a == b and close(float(pq(a)), prob[r], 2e-4)
                    check('c.sample.law', ok, (cj, rv, tv, a, b, float(prob[r])))
            print(f'sample law, n={n} done', flush=True)
    finally:
        CT.ss = real_ss

for k in sorted(counts):
    print(f'{k}: {counts[k]}')
print('disagreements:', len(bad))
sys.exit(1 if bad else 0)
