import io, json, subprocess, random, sys
from fractions import Fraction as Fr
import numpy as np
from deeprob.spn.structure.leaf import Bernoulli, Categorical, Gaussian
from deeprob.spn.structure.node import Sum, Product, assign_ids, topological_order
from deeprob.spn.structure.io import save_spn_json, load_spn_json
rnd = random.Random(5); np.random.seed(5)
def fs(x): q = Fr(float(x)); return f"{q.numerator}/{q.denominator}"
def mk():
    shared = Bernoulli(0, rnd.random())
    def prod():
        g = Gaussian(1, rnd.uniform(-1,1), rnd.uniform(0.1, 2))
        K = 3; c = Categorical(2, [0,1,2], list(np.random.dirichlet(np.ones(K))))
        kids = [shared if rnd.random() < 0.7 else Bernoulli(0, rnd.random()), g, c]; rnd.shuffle(kids)
        return Product(children=kids)
    k = rnd.randrange(2, 5)
    return assign_ids(Sum(children=[prod() for _ in range(k)], weights=list(np.random.dirichlet(np.ones(k)))))
def export(root):
    out = []
    for n in topological_order(root):
        d = {"id": n.id, "cls": type(n).__name__, "scope": list(n.scope), "ch": [c.id for c in n.children]}
        if isinstance(n, Sum): d["weights"] = [fs(w) for w in n.weights]
        elif isinstance(n, Bernoulli): d["params"] = [fs(n.p)]
        elif isinstance(n, Gaussian): d["params"] = [fs(n.mean), fs(n.stddev)]
        elif isinstance(n, Categorical): d["params"] = [fs(p) for p in n.probabilities]
        out.append(d)
    return out
ops = []; refs = []
for _ in range(40):
    r = mk(); buf = io.StringIO(); save_spn_json(r, buf); txt = buf.getvalue(); doc = json.loads(txt)
    r2 = load_spn_json(io.StringIO(txt))
    ops.append({"op": "jsonrt", "nodes": export(r)}); refs.append((doc, r2))
# repeated child
b = Bernoulli(0, 0.3); rr = assign_ids(Sum(children=[b, b], weights=[0.5, 0.5])); buf = io.StringIO(); save_spn_json(rr, buf)
r3 = load_spn_json(io.StringIO(buf.getvalue())); print('repeated child python children:', r3.children, 'links:', json.loads(buf.getvalue()).get('links') or json.loads(buf.getvalue()).get('edges'))
ops.append({"op": "jsonrt", "nodes": export(rr)}); refs.append(None)
res = subprocess.run(['lake', 'env', 'lean', '--run', '/root/work/algebra/scratch/AlgMain.lean'], input='\n'.join(json.dumps(o) for o in ops) + '\n', capture_output=True, text=True, cwd='/root/work/algebra/lean')
outs = res.stdout.strip().split('\n'); bad = 0
for o, out, ref in zip(ops, outs, refs):
    if ref is None: print('model on repeated child:', out); continue
    doc, r2 = ref
    nodes = {}
    for t in out.split('|'):
        i, cls, scope, ch, w, p = t.split(':'); nodes[int(i)] = (cls, scope.split(), [int(c) for c in ch.split()], [Fr(x) for x in w.split()], [Fr(x) for x in p.split()])
    byid = {n.id: n for n in topological_order(r2)}
    for i, n in byid.items():
        cls, scope, ch, w, p = nodes[i]
        ok = cls == type(n).__name__ and [int(s) for s in scope] == list(n.scope) and ch == [c.id for c in n.children]
        # values in the document (before float32 storage) must be exactly the model's rounded values
        attr = [d for d in doc['nodes'] if d['id'] == i][0]
        if cls == 'Sum': ok = ok and [float(x) for x in w] == attr['weights']
        elif cls == 'Bernoulli': ok = ok and [float(x) for x in p] == [attr['params']['p']]
        elif cls == 'Gaussian': ok = ok and [float(x) for x in p] == [attr['params']['mean'], attr['params']['stddev']]
        elif cls == 'Categorical': ok = ok and [float(x) for x in p] == attr['params']['probabilities']
        if not ok: bad += 1; print('MISMATCH', i, nodes[i], attr)
print('io cases', len(ops) - 1, 'bad', bad)
