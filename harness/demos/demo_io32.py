#!/venv/bin/python
"""
C13 float-storage demo / correspondence run for Model/F32.lean.

run:  cd /verif && PYTHONPATH=/repo:/verif /venv/bin/python /root/work3/io32/demo_io32.py [seed]

Parts
 A  `f32` / `f64` of the Lean driver against (1) a correctly rounded reference built here from integer
    arithmetic (self-checking: the nearest-and-even property is asserted on every value), on random rationals
    across magnitudes incl. exact ties, binade edges and subnormals; (2) NumPy's float64 -> float32 conversion
    (a single rounding) on random float64 inputs; (3) CPython's correctly rounded int/int division for `f64`.
 B  the witnesses of `gen1_may_differ` on the real `save_spn_json` / `load_spn_json` (a Sum node carrying the weight).
 C  real circuits (Sum weights random float32 / float64 arrays, Gaussian / Bernoulli / Uniform / Categorical /
    Isotonic / BinaryCLT parameters), three generations: every number of every document and every in-memory
    number after every reload against the driver's `io32chain`, EXACTLY; the whole model through `io32model`.
 D  `np.around(x.astype(float64), 8)` == correctly rounded `round8` on float32 inputs (the array writer, theorem
    `around64_is_save_on_f32`); on float64 inputs NumPy == the model's `around64` (and != `round(x, 8)` on ties).
 E  array parameters held as float64 ndarrays before the first reload: document 1 == `around64`, then the chain.
Exit status 0 iff model and implementation agree on everything generated.
"""
import io, json, os, random, subprocess, sys
from fractions import Fraction as Fr
import numpy as np

sys.path.insert(0, __import__('os').environ.get('DEEPROB_REPO', '/repo'))
from deeprob.spn.structure.leaf import Bernoulli, Categorical, Gaussian, Uniform, Isotonic
from deeprob.spn.structure.cltree import BinaryCLT
from deeprob.spn.structure.node import Sum, Product, assign_ids, topological_order
from deeprob.spn.structure.io import save_spn_json, load_spn_json, save_binary_clt_json, load_binary_clt_json

EXE = os.environ.get('DEEPROB_DRIVER', __import__('os').path.join(__import__('os').path.dirname(__import__('os').path.dirname(__import__('os').path.dirname(__import__('os').path.abspath(__file__)))), 'lean', '.lake', 'build', 'bin', 'driver'))
SEED = int(sys.argv[1]) if len(sys.argv) > 1 else 20260929
rnd = random.Random(SEED)
nrs = np.random.RandomState(SEED % (2 ** 32))


class Driver:
    def __init__(self):
        if not os.path.exists(EXE):
            sys.exit('model driver is not built: ' + EXE)
        self.p = subprocess.Popen([EXE], stdin=subprocess.PIPE, stdout=subprocess.PIPE, text=True, bufsize=1)
        self.lines = 0

    def ask(self, obj):
        self.p.stdin.write(json.dumps(obj) + '\n')
        self.p.stdin.flush()
        ans = self.p.stdout.readline()
        if not ans:
            sys.exit('model driver died')
        self.lines += 1
        ans = ans.rstrip('\n')
        if ans.startswith('bad-op'):
            sys.exit(f'driver: {ans} for {json.dumps(obj)[:300]}')
        return ans

    def close(self):
        self.p.stdin.close()
        self.p.wait(timeout=10)


def fs(q):
    q = Fr(q)
    return f"{q.numerator}/{q.denominator}"


def fx(x):
    """exact rational of a float / numpy float"""
    return Fr(float(x))


def batches(l, n):
    for i in range(0, len(l), n):
        yield l[i:i + n]


# ------------------------------------------------------------------------------------------- reference rounding
def floor_log2(q):
    """e with 2^e <= q < 2^(e+1), q > 0 — found by search from an estimate, checked by its definition"""
    e = q.numerator.bit_length() - q.denominator.bit_length()
    while Fr(2) ** e > q:
        e -= 1
    while Fr(2) ** (e + 1) <= q:
        e += 1
    assert Fr(2) ** e <= q < Fr(2) ** (e + 1)
    return e


def is_repr(x, p, emin):
    """x = m * 2^k with |m| < 2^p, k >= emin"""
    if x == 0:
        return True
    x = abs(x)
    e = floor_log2(x)
    k = max(e - (p - 1), emin)
    return (x / Fr(2) ** k).denominator == 1


def ref_round(q, p, emin):
    """IEEE round-to-nearest-even of the rational q, precision p, least quantum 2^emin, no overflow.
    Built by scaling to an integer grid; the result is then *verified*: it is representable, and no
    representable neighbour is closer (tie: the chosen significand is even)."""
    if q == 0:
        return Fr(0)
    s = -1 if q < 0 else 1
    a = abs(q)
    e = floor_log2(a)
    k = max(e - (p - 1), emin)
    u = Fr(2) ** k
    t = a / u
    lo = t.numerator // t.denominator
    rem = t - lo
    if rem > Fr(1, 2) or (rem == Fr(1, 2) and lo % 2 == 1):
        m = lo + 1
    else:
        m = lo
    r = m * u
    # verification (independent of how m was chosen)
    assert is_repr(r, p, emin)
    dn, up = lo * u, (lo + 1) * u                       # the two neighbours of a on this binade's grid
    assert dn <= a <= up and is_repr(dn, p, emin) and is_repr(up, p, emin)
    assert abs(r - a) == min(a - dn, up - a)
    if a - dn == up - a:
        assert m % 2 == 0
    return s * r


def rand_rational():
    """random rationals across magnitudes, many of them adversarial"""
    c = rnd.randrange(12)
    if c == 0:                                         # generic: random numerator / denominator sizes
        n = rnd.getrandbits(rnd.randrange(1, 200)) + 1
        d = rnd.getrandbits(rnd.randrange(1, 200)) + 1
        q = Fr(n, d)
    elif c == 1:                                       # decimal with 8 places in [0, 1] (document numbers)
        q = Fr(rnd.randrange(0, 10 ** 8 + 1), 10 ** 8)
    elif c == 2:                                       # decimal of any size
        q = Fr(rnd.randrange(0, 10 ** rnd.randrange(1, 30)), 10 ** rnd.randrange(0, 30))
    elif c == 3:                                       # exact tie between two binary32 neighbours (normal)
        e = rnd.randrange(-126, 127)
        m = rnd.randrange(2 ** 23, 2 ** 24)
        q = (Fr(m) + Fr(1, 2)) * Fr(2) ** (e - 23)
    elif c == 4:                                       # tie +- a tiny amount
        e = rnd.randrange(-126, 127)
        m = rnd.randrange(2 ** 23, 2 ** 24)
        q = (Fr(m) + Fr(1, 2) + rnd.choice([-1, 1]) * Fr(1, 2 ** rnd.randrange(30, 90))) * Fr(2) ** (e - 23)
    elif c == 5:                                       # binade edges 2^e (1 +- tiny)
        e = rnd.randrange(-160, 127)
        q = Fr(2) ** e * (1 + rnd.choice([-1, 0, 1]) * Fr(1, 2 ** rnd.randrange(20, 60)))
    elif c == 6:                                       # binary32 subnormal range, incl. ties
        q = Fr(rnd.randrange(0, 2 ** 25), 2) * Fr(2) ** (-149) + rnd.choice([0, 0, 1, -1]) * Fr(1, 2 ** 200)
        q = abs(q)
    elif c == 7:                                       # binary64 ties (normal)
        e = rnd.randrange(-1022, 1000)
        m = rnd.randrange(2 ** 52, 2 ** 53)
        q = (Fr(m) + Fr(1, 2) + rnd.choice([0, 0, 1, -1]) * Fr(1, 2 ** 70)) * Fr(2) ** (e - 52)
    elif c == 8:                                       # binary64 subnormal range
        q = abs(Fr(rnd.randrange(0, 2 ** 54), 2) * Fr(2) ** (-1074) + rnd.choice([0, 1, -1]) * Fr(1, 2 ** 1200))
    elif c == 9:                                       # a float32 value (fixed point) and its neighbourhood
        x = np.float32(rnd.uniform(-1, 1) * 10.0 ** rnd.randrange(-40, 38))
        q = fx(x) + rnd.choice([0, 0, 1, -1]) * Fr(1, 10 ** rnd.randrange(9, 60))
    elif c == 10:                                      # magnitudes 2^e * uniform
        q = Fr(rnd.getrandbits(64) + 1, 2 ** 64) * Fr(2) ** rnd.randrange(-170, 128)
    else:                                              # around the largest finite binary32 (no overflow)
        q = (Fr(2) ** 128 - Fr(2) ** 104) - Fr(rnd.getrandbits(100), 1)
    if q != 0 and rnd.random() < 0.5:
        q = -q
    return q


F32_MAX_EXCL = Fr(2) ** 128 - Fr(2) ** 103             # |q| below this does not overflow in binary32
F64_MAX_EXCL = Fr(2) ** 1024 - Fr(2) ** 970


def part_a(drv, stats, bad):
    qs = []
    while len(qs) < int(os.environ.get('DEMO_Q', '24000')):
        q = rand_rational()
        if abs(q) < F32_MAX_EXCL:
            qs.append(q)
    n_tie = 0
    for chunk in batches(qs, 500):
        a32 = drv.ask({'op': 'f32', 'qs': [fs(q) for q in chunk]}).split()
        a64 = drv.ask({'op': 'f64', 'qs': [fs(q) for q in chunk]}).split()
        for q, r32, r64 in zip(chunk, a32, a64):
            m32, m64 = Fr(r32), Fr(r64)
            e32, e64 = ref_round(q, 24, -149), ref_round(q, 53, -1074)
            stats['f32 vs integer reference'] += 1
            stats['f64 vs integer reference'] += 1
            if m32 != e32:
                bad.append(('f32', fs(q), r32, fs(e32)))
            if m64 != e64:
                bad.append(('f64', fs(q), r64, fs(e64)))
            # CPython int/int true division is correctly rounded -> a second, independent f64 reference
            py = Fr(q.numerator / q.denominator)
            stats['f64 vs CPython n/d'] += 1
            if py != m64:
                bad.append(('f64-python', fs(q), r64, fs(py)))
            # numpy: float64 -> float32 is one rounding, so f32 (f64 q) must equal np.float32(float(q))
            with np.errstate(over='ignore'):
                npv = np.float32(np.float64(q.numerator / q.denominator))
            if np.isfinite(npv):
                stats['f32∘f64 vs numpy.float32(float(q))'] += 1
                if fx(npv) != ref_round(e64, 24, -149):
                    bad.append(('numpy-vs-reference', fs(q), fs(fx(npv)), fs(ref_round(e64, 24, -149))))
            if m32 != q and abs(m32 - q) * 2 == Fr(2) ** max(floor_log2(abs(q)) - 23, -149):
                n_tie += 1
    stats['   of which exact binary32 ties'] = n_tie
    # numpy on float64 inputs
    xs = []
    for _ in range(int(os.environ.get('DEMO_Q', '24000'))):
        c = rnd.randrange(5)
        if c == 0:
            x = rnd.uniform(-1, 1) * 10.0 ** rnd.randrange(-46, 39)
        elif c == 1:
            x = float(np.float32(rnd.uniform(-1, 1) * 10.0 ** rnd.randrange(-40, 38)))      # already float32
            x = float(np.nextafter(x, rnd.choice([-np.inf, np.inf]))) if rnd.random() < 0.5 else x
        elif c == 2:                                   # exact float32 ties held in float64
            m = rnd.randrange(2 ** 23, 2 ** 24)
            x = float((Fr(m) + Fr(1, 2)) * Fr(2) ** (rnd.randrange(-149, 127) - 23))
            x = float(np.nextafter(x, rnd.choice([-np.inf, np.inf]))) if rnd.random() < 0.4 else x
        elif c == 3:                                   # subnormal float32 range
            x = rnd.random() * 2.0 ** -126
        else:
            x = round(rnd.random(), 8)                 # document numbers
        xs.append(x)
    for chunk in batches(xs, 500):
        ans = drv.ask({'op': 'f32', 'qs': [fs(fx(x)) for x in chunk]}).split()
        for x, r in zip(chunk, ans):
            with np.errstate(over='ignore', under='ignore'):
                npv = np.float32(np.float64(x))
            if not np.isfinite(npv):
                continue
            stats['f32 vs numpy float64->float32'] += 1
            if fx(npv) != Fr(r):
                bad.append(('f32-numpy', repr(x), r, fs(fx(npv))))


# ------------------------------------------------------------------------------------------- part B: witnesses
def save_text(root):
    buf = io.StringIO()
    save_spn_json(root, buf)
    return buf.getvalue()


def part_b(drv, stats, bad):
    print('--- B. first-generation witnesses on the real save_spn_json / load_spn_json')
    out = []
    # (1) a float32 weight below 1/8 whose float32 neighbours are denser than the 1e-8 grid: memory changes once
    w = np.float32(float(Fr(5368710, 2 ** 27)))        # 0.04000000655651093 (exactly a float32)
    # (2) a float64 weight array (kept as float64 by Sum.__init__): the DOCUMENT changes between generation 1 and 2
    for name, weights in [('float32 5368710/2^27', np.array([w, np.float32(1) - w], dtype=np.float32)),
                          ('float64 0.7', np.array([0.7, 0.3], dtype=np.float64))]:
        root = assign_ids(Sum(children=[Bernoulli(0, 0.25), Bernoulli(0, 0.75)], weights=weights))
        y0 = fx(root.weights[0])
        vals = []
        cur = root
        for g in range(3):
            txt = save_text(cur)
            doc = json.loads(txt, parse_float=lambda s: s)
            d = [n for n in doc['nodes'] if n['id'] == 0][0]['weights'][0]
            cur = load_spn_json(io.StringIO(txt))
            vals += [Fr(d), fx(cur.weights[0])]
            print(f'   {name}: generation {g + 1}: document weight {d}   memory after reload '
                  f'{float(cur.weights[0])!r} ({cur.weights.dtype})')
        chain = [Fr(t) for t in drv.ask({'op': 'io32chain', 'y': fs(y0), 'kind': 'f32', 'gens': 3}).split()]
        stats['witness chains vs model'] += 1
        if chain != vals:
            bad.append(('witness', name, [fs(v) for v in vals], [fs(v) for v in chain]))
        d1, y1, d2, y2, d3, y3 = vals
        print(f'      start {float(y0)!r}: y1==y0 {y1 == y0}, d2==d1 {d2 == d1}, y2==y1 {y2 == y1}, d3==d2 {d3 == d2}')
        out.append((y0, vals))
    (ya, va), (yb, vb) = out
    if not (va[1] != ya and va[2] == va[0] and va[3] == va[1] and va[4] == va[2]):
        bad.append(('witness-f32-shape', fs(ya), [fs(v) for v in va]))
    if not (vb[2] != vb[0] and vb[3] == vb[1] and vb[4] == vb[2]):
        bad.append(('witness-f64-shape', fs(yb), [fs(v) for v in vb]))


# ------------------------------------------------------------------------------------------- part C: circuits
def rand_f32(lo=-1.0, hi=1.0):
    return np.float32(rnd.uniform(lo, hi) * 10.0 ** rnd.choice([0, 0, 0, -1, -2, -3, -5, 1, 2]))


def rand_weights(k, dtype):
    """random positive weights summing to ~1 (the constructor only checks np.isclose)"""
    w = nrs.dirichlet(np.ones(k) * rnd.choice([0.3, 1.0, 5.0]))
    return w.astype(dtype)


def rand_leaf(v):
    c = rnd.randrange(7)
    if c == 0:
        return Bernoulli(v, rnd.random())
    if c == 1:
        return Bernoulli(v, float(np.float32(rnd.random())) if rnd.random() < 0.5 else np.float32(rnd.random()))
    if c == 2:
        return Gaussian(v, rnd.uniform(-3, 3) * 10.0 ** rnd.choice([0, -2, 2, 4]), rnd.uniform(1e-5, 2.0))
    if c == 3:
        return Gaussian(v, float(rand_f32()), abs(float(rand_f32())) + 1e-5)
    if c == 4:
        return Uniform(v, rnd.uniform(-5, 5), rnd.uniform(0.1, 1e3))
    if c == 5:
        k = rnd.randrange(2, 5)
        return Categorical(v, list(range(k)), list(rand_weights(k, np.float64)))
    k = rnd.randrange(1, 4)
    dens = rand_weights(k, np.float32)
    br = np.sort(np.array([rnd.uniform(-3, 3) for _ in range(k + 1)])).astype(np.float32)
    # (float64 *arrays* go through np.around in binary64, which is not the correctly rounded writer: part E)
    return Isotonic(v, densities=dens if rnd.random() < 0.5 else list(dens), breaks=br if rnd.random() < 0.5 else list(br))


def rand_clt(scope, allow64=False):
    n = len(scope)
    tree = [-1] + [rnd.randrange(0, i) for i in range(1, n)]
    p = nrs.uniform(0.01, 0.99, size=(n, 2))
    params = np.log(np.stack([1 - p, p], axis=2))
    params[0, 1] = params[0, 0]
    if rnd.random() < 0.5:
        return BinaryCLT(scope, tree=tree, params=params.astype(np.float32).tolist())
    return BinaryCLT(scope, tree=tree, params=params.astype(np.float64 if allow64 else np.float32))


def rand_circuit():
    nv = rnd.randrange(2, 5)
    shared = rand_leaf(0)

    def prod():
        kids = [shared if rnd.random() < 0.5 else rand_leaf(0)]
        if nv >= 4 and rnd.random() < 0.4:
            kids.append(rand_leaf(1))
            kids.append(rand_clt([2, 3]))
        else:
            kids += [rand_leaf(v) for v in range(1, nv)]
        rnd.shuffle(kids)
        return Product(children=kids)

    k = rnd.randrange(2, 5)
    dt = rnd.choice([np.float32, np.float32, np.float64, 'list'])
    w = rand_weights(k, np.float64 if dt == 'list' else dt)
    return assign_ids(Sum(children=[prod() for _ in range(k)], weights=list(w) if dt == 'list' else w))


def flat(x):
    return [v for v in np.asarray(x, dtype=object).reshape(-1)] if not isinstance(x, (list, tuple)) else \
        [v for y in x for v in flat(y)]


def numbers_of(node):
    """(list of (slot name, kind 'f32'/'f64', in-memory value)) of one node, in params_dict order, flattened"""
    t = type(node).__name__
    if t == 'Sum':
        return [('weights', 'f32', w) for w in node.weights]
    if t == 'Product':
        return []
    if t in ('Bernoulli',):
        return [('p', 'f64', node.p)]
    if t == 'Gaussian':
        return [('mean', 'f64', node.mean), ('stddev', 'f64', node.stddev)]
    if t == 'Uniform':
        return [('start', 'f64', node.start), ('width', 'f64', node.width)]
    if t == 'Categorical':
        return [('probabilities', 'f32', p) for p in node.probabilities]
    if t == 'Isotonic':
        return [('densities', 'f32', p) for p in node.densities] + [('breaks', 'f32', p) for p in node.breaks]
    if t == 'BinaryCLT':
        return [('params', 'f32', p) for p in np.asarray(node.params).reshape(-1)]
    raise ValueError(t)


def doc_numbers(attr):
    """the float literals of one document node (strings), same order as numbers_of"""
    t = attr['class']
    if t == 'Sum':
        return list(attr['weights'])
    if t == 'Product':
        return []
    p = attr['params']
    names = {'Bernoulli': ['p'], 'Gaussian': ['mean', 'stddev'], 'Uniform': ['start', 'width'],
             'Categorical': ['probabilities'], 'Isotonic': ['densities', 'breaks'], 'BinaryCLT': ['params']}[t]
    out = []
    for nm in names:
        v = p[nm]
        out += flat(v) if isinstance(v, list) else [v]
    return out


def lit(s):
    """exact rational of a JSON number literal (kept as a string by parse_float / parse_int)"""
    return Fr(s)


def export_model(root):
    out = []
    for n in topological_order(root):
        nums = numbers_of(n)
        d = {'id': n.id, 'cls': type(n).__name__, 'scope': list(map(int, n.scope)), 'ch': [c.id for c in n.children]}
        if isinstance(n, Sum):
            d['weights'] = [fs(fx(v)) for _, _, v in nums]
        else:
            d['params'] = [fs(fx(v)) for _, _, v in nums]
        out.append(d)
    return out


def part_c(drv, stats, bad, n_circuits=150):
    GENS = 3
    changed_mem, changed_doc = 0, 0
    for ci in range(n_circuits):
        root = rand_circuit()
        start = {n.id: numbers_of(n) for n in topological_order(root)}
        model_ans = drv.ask({'op': 'io32model', 'nodes': export_model(root), 'gens': GENS})
        docs_part, mem_part = model_ans.split(';;mem=')
        model_docs = docs_part.split(';;')
        # per-number chains
        chains = {}
        for kind in ('f32', 'f64'):
            keys = [(i, j) for i, l in start.items() for j, (_, k, _) in enumerate(l) if k == kind]
            if not keys:
                continue
            ans = drv.ask({'op': 'io32chain', 'ys': [fs(fx(start[i][j][2])) for i, j in keys], 'kind': kind, 'gens': GENS})
            for key, a in zip(keys, ans.split(';')):
                chains[key] = [Fr(t) for t in a.split()]
        cur = root
        for g in range(GENS):
            txt = save_text(cur)
            doc = json.loads(txt, parse_float=lambda s: s, parse_int=lambda s: s)
            cur = load_spn_json(io.StringIO(txt))
            byid = {n.id: n for n in topological_order(cur)}
            # whole-document comparison with the model's generation g
            mnodes = {}
            for t in model_docs[g].split('#')[0].split('|'):
                i, cls, scope, w, p = t.split(':')
                mnodes[int(i)] = (cls, [int(s) for s in scope.split()], [Fr(x) for x in (w.split() + p.split())])
            for attr in doc['nodes']:
                i = int(attr['id'])
                lits = doc_numbers(attr)
                cls, scope, mnums = mnodes[i]
                stats['document nodes vs io32model'] += 1
                if cls != attr['class'] or scope != [int(s) for s in attr['scope']] or len(mnums) != len(lits):
                    bad.append(('model-node', ci, g, i)); continue
                for j, s in enumerate(lits):
                    d_model = chains[(i, j)][2 * g]
                    y_model = chains[(i, j)][2 * g + 1]
                    stats['document numbers (3 generations) vs save/load chain'] += 1
                    # the decimal literal itself when it has <= 15 significant digits, always its binary64 value
                    ok = float(s) == float(d_model) and mnums[j] == d_model
                    if abs(d_model) < 10 ** 7:
                        ok = ok and lit(s) == d_model
                    if not ok:
                        bad.append(('doc-number', ci, g, i, j, s, fs(d_model)))
                    mem = numbers_of(byid[i])[j][2]
                    stats['in-memory numbers after reload vs chain'] += 1
                    if fx(mem) != y_model:
                        bad.append(('mem-number', ci, g, i, j, repr(float(mem)), fs(y_model)))
                    want32 = start[i][j][1] == 'f32'
                    if want32 != (getattr(mem, 'dtype', None) == np.float32):
                        bad.append(('dtype', ci, g, i, j, type(mem).__name__))
            # links of the document vs model
            links = doc.get('links') or doc.get('edges') or []
            mlinks = sorted(model_docs[g].split('#')[1].split())
            plinks = sorted(f"{int(l['source'])}>{int(l['target'])}@{int(l['idx'])}" for l in links)
            stats['documents (links) vs io32model'] += 1
            if mlinks != plinks:
                bad.append(('links', ci, g))
        for key, ch in chains.items():
            y0 = fx(start[key[0]][key[1]][2])
            d1, y1, d2, y2, d3, y3 = ch
            changed_mem += (y1 != y0)
            changed_doc += (d2 != d1)
            stats['chains: d3==d2 and y2==y1 (theorem instance)'] += 1
            if not (d3 == d2 and y2 == y1 and y3 == y2):
                bad.append(('NOT-STABLE', fs(y0), [fs(c) for c in ch]))
    stats['   numbers whose memory value changed at the first reload'] = changed_mem
    stats['   numbers whose document changed between generation 1 and 2'] = changed_doc

    # standalone CLT files (binary_clt_to_digraph: attribute "weight", np.around on the float32 log-CPTs)
    for _ in range(40):
        n = rnd.randrange(2, 6)
        clt = rand_clt(list(range(n)))
        ys = [fx(v) for v in np.asarray(clt.params).reshape(-1)]
        ans = drv.ask({'op': 'io32chain', 'ys': [fs(y) for y in ys], 'kind': 'f32', 'gens': GENS}).split(';')
        ch = [[Fr(t) for t in a.split()] for a in ans]
        cur = clt
        for g in range(GENS):
            buf = io.StringIO(); save_binary_clt_json(cur, buf); txt = buf.getvalue()
            doc = json.loads(txt, parse_float=lambda s: s, parse_int=lambda s: s)
            cur = load_binary_clt_json(io.StringIO(txt))
            nodes = sorted(doc['nodes'], key=lambda a: int(a['id']))
            lits = [s for a in nodes for s in flat(a['weight'])]
            mem = [fx(v) for v in np.asarray(cur.params).reshape(-1)]
            # node ids of a CLT file are positions, and the loader stores by id: same flat order
            for j, s in enumerate(lits):
                stats['CLT file numbers vs chain'] += 1
                if lit(s) != ch[j][2 * g] or mem[j] != ch[j][2 * g + 1]:
                    bad.append(('clt-number', g, j, s, fs(ch[j][2 * g]), fs(mem[j]), fs(ch[j][2 * g + 1])))


# ------------------------------------------------------------------------------------------- part D: np.around
def part_d(drv, stats, bad):
    xs = np.array([rand_f32(-1, 1) for _ in range(6000)] +
                  [np.float32(rnd.randrange(0, 2 * 10 ** 8) * 0.5e-8) for _ in range(3000)] +     # near decimal ties
                  [np.float32(-rnd.random() * 20) for _ in range(3000)], dtype=np.float32)       # log-probabilities
    got = np.around(xs.astype(np.float64), 8).tolist()
    for chunk_x, chunk_g in zip(batches(list(xs), 500), batches(got, 500)):
        ans = drv.ask({'op': 'io32chain', 'ys': [fs(fx(x)) for x in chunk_x], 'kind': 'f64', 'gens': 1}).split(';')
        for x, g, a in zip(chunk_x, chunk_g, ans):
            d1, y1 = [Fr(t) for t in a.split()]
            stats['np.around(float32→float64, 8) vs f64 (round8 x)'] += 1
            if fx(g) != y1 or round(float(x), 8) != g:
                bad.append(('np.around', repr(float(x)), repr(g), fs(y1)))


    # float64 inputs: the model of NumPy's own arithmetic (`around64`) is exact; the correctly rounded writer is not
    ys = [(rnd.randrange(0, 10 ** 8) + 0.5) * 1e-8 for _ in range(4000)] + [rnd.uniform(-30, 30) for _ in range(4000)]
    ys = [float(np.nextafter(y, rnd.choice([-1e9, 1e9]))) if rnd.random() < 0.5 else y for y in ys]
    got = np.around(np.array(ys, dtype=np.float64), 8).tolist()
    dev = []
    for chunk_x, chunk_g in zip(batches(ys, 500), batches(got, 500)):
        ans = drv.ask({'op': 'around64', 'qs': [fs(fx(x)) for x in chunk_x]}).split()
        for x, g, a in zip(chunk_x, chunk_g, ans):
            stats['np.around(float64, 8) vs around64'] += 1
            if fx(g) != Fr(a):
                bad.append(('around64', repr(x), repr(g), a))
            if g != round(x, 8):
                dev.append((x, g, round(x, 8)))
    stats['   float64 inputs where np.around != round(x, 8) (documented deviation of the array writer)'] = len(dev)
    if dev:
        x, g, r = dev[0]
        print(f'--- D. np.around deviates from the correctly rounded writer on float64 data, e.g. x={x!r}: '
              f'np.around -> {g!r}, round(x, 8) -> {r!r}; |np.around(x) - x| = {float(abs(fx(g) - fx(x))):.3e}')


# ------------------------------------------------------------------------------------------- part E: float64 arrays
def part_e(drv, stats, bad):
    """array-valued parameters held as float64 ndarrays (possible only before the first reload): the first document
    is NumPy's binary64 `around64`; from the first reload on the values are float32 and the chain applies"""
    for _ in range(40):
        k = rnd.randrange(1, 4)
        dens = rand_weights(k, np.float64)
        if rnd.random() < 0.5:                         # force decimal ties of the product x*1e8
            dens = np.array([(rnd.randrange(0, 10 ** 8) + 0.5) * 1e-8 for _ in range(k)])
            dens[-1] = 1.0 - dens[:-1].sum() if k > 1 else 1.0
            if (dens < 0).any():
                continue
        br = np.sort(np.array([rnd.uniform(-3, 3) for _ in range(k + 1)]))
        root = assign_ids(Product(children=[Isotonic(0, densities=dens, breaks=br), rand_clt([1, 2], allow64=True)]))
        start = {n.id: numbers_of(n) for n in topological_order(root)}
        txt = save_text(root)
        doc = json.loads(txt, parse_float=lambda s: s, parse_int=lambda s: s)
        cur = load_spn_json(io.StringIO(txt))
        byid = {n.id: n for n in topological_order(cur)}
        for attr in doc['nodes']:
            i = int(attr['id'])
            lits = doc_numbers(attr)
            if not lits:
                continue
            xs = [fx(v) for _, _, v in start[i]]
            a64 = [Fr(t) for t in drv.ask({'op': 'around64', 'qs': [fs(x) for x in xs]}).split()]
            y1 = [Fr(t) for t in drv.ask({'op': 'f32', 'qs': [fs(a) for a in a64]}).split()]
            ch = [[Fr(t) for t in a.split()] for a in
                  drv.ask({'op': 'io32chain', 'ys': [fs(y) for y in y1], 'kind': 'f32', 'gens': 2}).split(';')]
            mem1 = [fx(v) for _, _, v in numbers_of(byid[i])]
            for j, s in enumerate(lits):
                stats['float64-array numbers: document 1 vs around64, memory vs f32'] += 1
                if fx(float(s)) != a64[j] or mem1[j] != y1[j]:
                    bad.append(('f64-array', i, j, s, fs(a64[j]), fs(mem1[j]), fs(y1[j])))
            # generations 2 and 3 from the float32 memory
            c2 = cur
            for g in range(2):
                t2 = save_text(c2)
                d2 = json.loads(t2, parse_float=lambda s: s, parse_int=lambda s: s)
                c2 = load_spn_json(io.StringIO(t2))
                l2 = doc_numbers([a for a in d2['nodes'] if int(a['id']) == i][0])
                m2 = [fx(v) for _, _, v in numbers_of({n.id: n for n in topological_order(c2)}[i])]
                for j, s in enumerate(l2):
                    stats['float64-array numbers: later generations vs chain'] += 1
                    if Fr(s) != ch[j][2 * g] or m2[j] != ch[j][2 * g + 1]:
                        bad.append(('f64-array-later', i, j, g, s, fs(ch[j][2 * g])))


def main():
    from collections import Counter
    stats, bad = Counter(), []
    drv = Driver()
    part_a(drv, stats, bad)
    part_b(drv, stats, bad)
    part_c(drv, stats, bad, int(os.environ.get('DEMO_N', '150')))
    part_d(drv, stats, bad)
    part_e(drv, stats, bad)
    drv.close()
    print('--- counts')
    for k, v in stats.items():
        print(f'   {k}: {v}')
    print(f'   driver lines: {drv.lines}')
    print(f'--- mismatches: {len(bad)}')
    for b in bad[:25]:
        print('   MISMATCH', b)
    sys.exit(1 if bad else 0)


if __name__ == '__main__':
    main()
