#!/venv/bin/python
"""
Correspondence run for lean/DeeprobModel/Props/C03Opt.lean (C03: `None` ids and `weights = None` in `check_spn`).

run:  cd /verif && VERIF_SEED=<n> PYTHONPATH=/repo:/verif /venv/bin/python harness/demos/demo_c03opt.py [seed]
      (library: PYTHONPATH only; optional model driver: $DEEPROB_DRIVER, default <tree>/lean/.lake/build/bin/driver)

What is compared, for every generated circuit and for all 8 combinations of the flags (labeled, smooth, decomposable):

  REAL   the outcome of `deeprob.spn.utils.validity.check_spn(root, labeled=, smooth=, decomposable=)` on real node
         objects: returned / `ValueError` (class and reason read off the message) / `TypeError` / anything else;
  RULE   the outcome the theorems of Props/C03Opt.lean state, written here independently of the library, on the
         exported table (ids `int | None`, weights `list | None`):
           1. nodes := BFS from the root over child indices                                   (`oCollect`)
           2. labeled flag on and some collected id is None      -> labeled:missing            (`checkSpnOpt_eq`, 1st part)
           3. otherwise take the Nat-id table (None id -> 0, None weights -> [])               (`ONet.toNet`)
              and the verdict v of the *old* validator model on it                             (`Net.checkSpn`, `nat_check` below)
           4. v = smooth:weights and the offending sum (the first sum in BFS order that is not fine) has
              weights None -> TypeError                                                        (`checkSpnOpt_typeError_iff`)
              else v                                                                           (`checkSpnOpt_eq`, 2nd part)
         In particular RULE = accept iff (labeled off or all ids present) and the Nat table is accepted
         (`checkSpnOpt_flags_accept_iff`, `checkSpnOpt_accept_iff`).
  LEAN   if the compiled driver is present: step 3 is also asked of the Lean definition `Net.checkSpn` (ops `net`,
         `check`) on the Nat-id table and must equal `nat_check`; the six example tables of C03Opt.lean are replayed
         with the verdicts that `decide` established there.

Circuits: (a) the six example tables of the Lean file; (b) circuits built through the public constructors only
(`Sum(children=..., weights=None)` is accepted by the constructor; ids from `assign_ids`, then `node.id = None` on
some nodes); (c) random children-first tables with sharing, unreachable entries and random corruptions (None ids,
reachable or not; None / short / long weights; childless sums; repeated, shifted, gapped ids; broken scopes).

Exit status 0 iff REAL == RULE (and LEAN agrees) on everything generated; otherwise exit 1 and a line starting with
`DISAGREE` that carries the concrete circuit (table, root, flags) as JSON.
"""
import itertools, json, os, random, subprocess, sys
import numpy as np

from deeprob.spn.structure.node import Sum, Product, assign_ids
from deeprob.spn.structure.leaf import Bernoulli
from deeprob.spn.utils.validity import check_spn

HERE = os.path.dirname(os.path.abspath(__file__))
EXE = os.environ.get('DEEPROB_DRIVER', os.path.join(os.path.dirname(os.path.dirname(HERE)), 'lean', '.lake', 'build', 'bin', 'driver'))
SEED = int(sys.argv[1]) if len(sys.argv) > 1 else int(os.environ.get('VERIF_SEED', '20260930'))
rnd = random.Random(SEED * 7919 + 3)
FLAGS = list(itertools.product([True, False], repeat=3))


# ----------------------------------------------------------------------------- table <-> real objects
def to_objects(table):
    """real library objects for a children-first table; inner nodes bypass the constructors (which refuse broken scopes)"""
    objs = []
    for e in table:
        if e['kind'] == 'leaf':
            n = Bernoulli(e['scope'][0], 0.5)
            n.scope = list(e['scope'])
        elif e['kind'] == 'sum':
            n = Sum.__new__(Sum)
            n.weights = None if e['w'] is None else np.array(e['w'], dtype=np.float32)
            n.scope = list(e['scope'])
        else:
            n = Product.__new__(Product)
            n.scope = list(e['scope'])
        n.children = [objs[c] for c in e['ch']]
        n.id = e['id']
        objs.append(n)
    return objs


def to_table(root):
    """children-first table of a circuit built from real objects (own DFS; index = object identity)"""
    order, seen = [], set()

    def visit(n):
        if id(n) in seen:
            return
        seen.add(id(n))
        for c in n.children:
            visit(c)
        order.append(n)
    visit(root)
    index = {id(n): i for i, n in enumerate(order)}
    table = []
    for n in order:
        kind = 'sum' if isinstance(n, Sum) else 'prod' if isinstance(n, Product) else 'leaf'
        w = None
        if kind == 'sum' and n.weights is not None:
            w = [float(x) for x in n.weights]
        table.append(dict(kind=kind, id=None if n.id is None else int(n.id), scope=[int(v) for v in n.scope],
                          ch=[index[id(c)] for c in n.children], w=w))
    return table, order, index[id(root)]


# ----------------------------------------------------------------------------- REAL
REASONS = [('missing ids', 'missing'), ('repeated ids', 'repeated'), ('not starting at 0', 'min'), ('not consecutive', 'max'),
           ('has no children', 'nochildren'), ('length mismatch', 'weights'), ('have different scopes', 'scopes'),
           ("don't have disjointed scopes", 'scopes')]


def real_verdict(root, l, s, d):
    try:
        check_spn(root, labeled=l, smooth=s, decomposable=d)
        return 'accept'
    except ValueError as ex:
        m = str(ex)
        cls = 'labeled' if m.startswith('SPN is not correctly labeled') else 'smooth' if m.startswith('SPN is not smooth') \
            else 'decomposable' if m.startswith('SPN is not decomposable') else 'other'
        why = [w for pat, w in REASONS if pat in m]
        return f'reject:{cls}:{why[0] if why else m}'
    except TypeError:
        return 'typeerror'
    except Exception as ex:  # anything else is an outcome the model does not have
        return f'raised:{type(ex).__name__}:{ex}'


# ----------------------------------------------------------------------------- RULE (independent of the library)
def bfs(table, root):
    seen, queue, out = {root}, [root], []
    while queue:
        i = queue.pop(0)
        out.append(i)
        for c in table[i]['ch']:
            if c not in seen:
                seen.add(c)
                queue.append(c)
    return out


def nat_check(nat, root, l, s, d):
    """`Net.checkSpn` of Model/Net.lean on a table with int ids and weight lists: (verdict, index of the offending node)"""
    nodes = bfs(nat, root)
    if l:
        ids = [nat[i]['id'] for i in nodes]
        if len(set(ids)) != len(ids):
            return 'reject:labeled:repeated', None
        if min(ids) != 0:
            return 'reject:labeled:min', None
        if max(ids) != len(ids) - 1:
            return 'reject:labeled:max', None
    if s:
        for i in nodes:
            e = nat[i]
            if e['kind'] != 'sum':
                continue
            if len(e['ch']) == 0:
                return 'reject:smooth:nochildren', i
            if len(e['ch']) != len(e['w']):
                return 'reject:smooth:weights', i
            if any(set(nat[c]['scope']) != set(e['scope']) for c in e['ch']):
                return 'reject:smooth:scopes', i
    if d:
        for i in nodes:
            e = nat[i]
            if e['kind'] != 'prod':
                continue
            if len(e['ch']) == 0:
                return 'reject:decomposable:nochildren', i
            cat = [v for c in e['ch'] for v in nat[c]['scope']]
            if len(cat) != len(set(cat)) or set(cat) != set(e['scope']):
                return 'reject:decomposable:scopes', i
    return 'accept', None


def to_nat(table):
    return [dict(e, id=0 if e['id'] is None else e['id'], w=[] if e['w'] is None else e['w']) for e in table]


def rule_verdict(table, root, l, s, d):
    nodes = bfs(table, root)
    if l and any(table[i]['id'] is None for i in nodes):
        return 'reject:labeled:missing', None
    v, where = nat_check(to_nat(table), root, l, s, d)
    if v == 'reject:smooth:weights' and table[where]['w'] is None:
        return 'typeerror', v
    return v, v


# ----------------------------------------------------------------------------- LEAN (optional)
class Driver:
    def __init__(self):
        self.p = subprocess.Popen([EXE], stdin=subprocess.PIPE, stdout=subprocess.PIPE, text=True, bufsize=1)
        self.lines = 0

    def ask(self, obj):
        self.p.stdin.write(json.dumps(obj) + '\n')
        self.p.stdin.flush()
        ans = self.p.stdout.readline()
        if not ans:
            sys.exit('model driver died')
        self.lines += 1
        ans = ans.rstrip('\n')
        if ans.startswith('bad-op'):
            sys.exit(f'driver: {ans} for {json.dumps(obj)[:300]}')
        return ans

    def close(self):
        self.p.stdin.close()
        self.p.wait(timeout=10)


def driver_nodes(nat):
    out = []
    for e in nat:
        if e['kind'] == 'leaf':
            out.append(dict(kind='cat', id=e['id'], scope=e['scope'], v=e['scope'][0] if e['scope'] else 0, tbl=['1/2', '1/2']))
        else:
            out.append(dict(kind=e['kind'], id=e['id'], scope=e['scope'], ch=e['ch'], w=['1/1'] * len(e['w'])))
    return out


# ----------------------------------------------------------------------------- circuits
def L(i, v):
    return dict(kind='leaf', id=i, scope=[v], ch=[], w=None)


def lean_examples():
    """the six example tables of Props/C03Opt.lean with the verdicts established there by `decide`"""
    def base(id0, ws):
        return [L(id0, 0), L(4, 1), L(5, 1),
                dict(kind='prod', id=1, scope=[0, 1], ch=[0, 1], w=None),
                dict(kind='prod', id=2, scope=[1, 0], ch=[0, 2], w=None),
                dict(kind='sum', id=0, scope=[0, 1], ch=[3, 4], w=ws)]
    childless = [L(None, 0), dict(kind='sum', id=1, scope=[0], ch=[], w=None), dict(kind='sum', id=0, scope=[0], ch=[1], w=[1.0])]
    first = [L(2, 0), dict(kind='sum', id=1, scope=[0], ch=[0], w=None), dict(kind='sum', id=0, scope=[0], ch=[1], w=[0.5, 0.5])]
    T, F = True, False
    return [
        ('exO', base(3, [0.25, 0.75]), 5, {(T, T, T): 'accept'}),
        ('noIdO', base(None, [0.25, 0.75]), 5, {(T, T, T): 'reject:labeled:missing', (F, T, T): 'accept'}),
        ('noWsO', base(3, None), 5, {(T, T, T): 'typeerror', (T, F, T): 'accept'}),
        ('noIdNoWsO', base(None, None), 5, {(T, T, T): 'reject:labeled:missing', (F, T, T): 'typeerror'}),
        ('childlessO', childless, 2, {(T, T, T): 'reject:smooth:nochildren'}),
        ('firstWinsO', first, 2, {(T, T, T): 'reject:smooth:weights'}),
        ('firstWinsO@1', first, 1, {(F, T, T): 'typeerror'}),
    ]


def api_circuit():
    """public constructors only; `weights=None` is what `Sum(children=...)` stores by default"""
    nv = rnd.randint(1, 3)

    def build(scope, depth):
        if len(scope) == 1 and (depth >= 2 or rnd.random() < 0.5):
            return Bernoulli(scope[0], rnd.choice([0.25, 0.5, 0.75]))
        if len(scope) > 1 and rnd.random() < 0.6:
            k = rnd.randint(1, len(scope) - 1)
            sc = scope[:]
            rnd.shuffle(sc)
            return Product(children=[build(sorted(sc[:k]), depth + 1), build(sorted(sc[k:]), depth + 1)])
        k = rnd.randint(1, 3)
        ch = [build(scope, depth + 1) for _ in range(k)]
        if rnd.random() < 0.3 and len(ch) > 1:
            ch[-1] = ch[0]  # the same child object twice
        r = rnd.random()
        if r < 0.45:
            return Sum(children=ch)  # weights stay None
        return Sum(children=ch, weights=[1.0 / k] * k)
    root = build(list(range(nv)), 0)
    if rnd.random() < 0.2:
        root = Sum(scope=list(range(nv)))  # a childless sum without weights: also accepted by the constructor
    assign_ids(root)
    table, order, ri = to_table(root)
    r = rnd.random()
    if r < 0.5:
        for n in rnd.sample(order, rnd.randint(1, min(2, len(order)))):
            n.id = None
    return root


def random_table():
    nv = rnd.randint(1, 3)
    table = []
    pool = {}

    def add(e):
        table.append(e)
        pool.setdefault(frozenset(e['scope']), []).append(len(table) - 1)
        return len(table) - 1
    for v in range(nv):
        for _ in range(rnd.randint(1, 2)):
            add(dict(kind='leaf', id=0, scope=[v], ch=[], w=None))
    for _ in range(rnd.randint(1, 5)):
        keys = list(pool)
        if rnd.random() < 0.5 or len(keys) == 1:
            S = rnd.choice(keys)
            k = rnd.randint(1, 3)
            ch = [rnd.choice(pool[S]) for _ in range(k)]
            sc = sorted(S)
            rnd.shuffle(sc)
            add(dict(kind='sum', id=0, scope=sc, ch=ch, w=[1.0 / k] * k))
        else:
            ks = keys[:]
            rnd.shuffle(ks)
            ch, used = [], set()
            for S in ks:
                if not (S & used) and (len(ch) < 2 or rnd.random() < 0.5):
                    ch.append(rnd.choice(pool[S]))
                    used |= S
            if len(ch) < 2:
                continue
            sc = sorted(used)
            rnd.shuffle(sc)
            add(dict(kind='prod', id=0, scope=sc, ch=ch, w=None))
    root = len(table) - 1
    if rnd.random() < 0.15:
        root = rnd.randrange(len(table))
    reach = bfs(table, root)
    # a correct labelling of the reachable part; anything at all on the rest
    perm = list(range(len(reach)))
    if rnd.random() < 0.5:
        rnd.shuffle(perm)
    for i, e in enumerate(table):
        e['id'] = rnd.choice([None, 0, 1, rnd.randint(0, 9)])
    for k, i in zip(perm, reach):
        table[i]['id'] = k
    unreach = [i for i in range(len(table)) if i not in reach]
    sums = [i for i in reach if table[i]['kind'] == 'sum']
    prods = [i for i in reach if table[i]['kind'] == 'prod']
    # corruptions: none (25 %), else one to three of the list
    ncorr = rnd.choice([0, 1, 1, 1, 2, 2, 3, 3])
    for _ in range(ncorr):
        c = rnd.randrange(11)
        if c == 0:
            table[rnd.choice(reach)]['id'] = None
        elif c == 1:
            for i in rnd.sample(reach, min(2, len(reach))):
                table[i]['id'] = None
        elif c == 2 and sums:
            table[rnd.choice(sums)]['w'] = None
        elif c == 3 and sums:
            for i in sums:
                table[i]['w'] = None
        elif c == 4 and sums:
            e = table[rnd.choice(sums)]
            e['w'] = [1.0 / (len(e['ch']) + 1)] * (len(e['ch']) + 1) if rnd.random() < 0.5 else [1.0] * (len(e['ch']) - 1)
        elif c == 5 and sums:
            e = table[rnd.choice(sums)]
            e['ch'] = []
            e['w'] = rnd.choice([None, None, [], [1.0]])
        elif c == 6 and len(reach) > 1:
            a, b = rnd.sample(reach, 2)
            table[a]['id'] = table[b]['id']
        elif c == 7:
            sh = rnd.randint(1, 3)
            for i in reach:
                if table[i]['id'] is not None:
                    table[i]['id'] += sh
        elif c == 8:
            i = rnd.choice(reach)
            if table[i]['id'] is not None:
                table[i]['id'] += len(reach)
        elif c == 9 and sums:
            e = table[rnd.choice(sums)]
            e['scope'] = e['scope'] + [7] if rnd.random() < 0.5 else [7]
        elif c == 10 and prods:
            e = table[rnd.choice(prods)]
            if rnd.random() < 0.5:
                e['ch'] = e['ch'] + [e['ch'][0]]
            else:
                e['scope'] = e['scope'][:-1] if len(e['scope']) > 1 else [7]
    return table, root


# ----------------------------------------------------------------------------- run
def main():
    drv = Driver() if os.path.exists(EXE) else None
    stats = {}
    bad = []
    n_circ = 0
    n_none_id = n_none_w = n_both = 0

    def one(tag, table, root_index, root_obj, expected=None):
        nonlocal n_circ, n_none_id, n_none_w, n_both
        n_circ += 1
        reach = bfs(table, root_index)
        has_id = any(table[i]['id'] is None for i in reach)
        has_w = any(table[i]['kind'] == 'sum' and table[i]['w'] is None for i in reach)
        n_none_id += has_id
        n_none_w += has_w
        n_both += has_id and has_w
        nat = to_nat(table)
        if drv is not None:
            drv.ask(dict(op='net', nodes=driver_nodes(nat), root=root_index, dom=[2] * 8))
        for (l, s, d) in FLAGS:
            real = real_verdict(root_obj, l, s, d)
            rule, natv = rule_verdict(table, root_index, l, s, d)
            stats[rule] = stats.get(rule, 0) + 1
            desc = dict(tag=tag, table=table, root=root_index, labeled=l, smooth=s, decomposable=d)
            if real != rule:
                bad.append(f'DISAGREE check_spn says {real}, the rule of checkSpnOpt says {rule}: {json.dumps(desc)}')
            if expected is not None and (l, s, d) in expected and expected[(l, s, d)] != rule:
                bad.append(f'DISAGREE Lean example {tag}: decide gave {expected[(l, s, d)]}, the rule here gives {rule}: {json.dumps(desc)}')
            if drv is not None and natv is not None:
                lean = drv.ask(dict(op='check', labeled=l, smooth=s, decomposable=d))
                if lean != natv:
                    bad.append(f'DISAGREE Lean Net.checkSpn on the Nat-id table says {lean}, nat_check says {natv}: {json.dumps(desc)}')

    for tag, table, root, exp in lean_examples():
        objs = to_objects(table)
        one('lean:' + tag, table, root, objs[root], exp)
    for k in range(80):
        root = api_circuit()
        table, order, ri = to_table(root)
        one(f'api:{k}', table, ri, root)
    for k in range(420):
        table, root = random_table()
        objs = to_objects(table)
        one(f'rnd:{k}', table, root, objs[root])
    if drv is not None:
        drv.close()

    print(f'demo_c03opt seed={SEED}: {n_circ} circuits x 8 flag combinations = {n_circ * 8} calls of check_spn; '
          f'{n_none_id} circuits with a reachable None id, {n_none_w} with a reachable sum without weights, {n_both} with both; '
          f'driver {"used, " + str(drv.lines) + " lines" if drv is not None else "not present (Lean cross-check skipped)"}')
    print('outcomes (rule): ' + ', '.join(f'{k}={v}' for k, v in sorted(stats.items())))
    need = ['accept', 'typeerror', 'reject:labeled:missing', 'reject:labeled:repeated', 'reject:smooth:nochildren',
            'reject:smooth:weights', 'reject:smooth:scopes', 'reject:decomposable:scopes']
    thin = [k for k in need if stats.get(k, 0) < 5]
    if thin:
        bad.append(f'DISAGREE (generator) outcome classes hardly exercised: {thin}')
    if bad:
        for b in bad[:8]:
            print(b)
        print(f'{len(bad)} disagreement(s)')
        sys.exit(1)
    print('agreement on every case')
    sys.exit(0)


if __name__ == '__main__':
    main()
