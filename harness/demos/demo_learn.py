#!/venv/bin/python
"""
Differential check of the Lean LearnSPN machine (DeeprobModel/Model/Learn.lean, driver op `learn`)
against the REAL `deeprob.spn.learning.learnspn.learn_spn`.

The real function is driven through its public callables (`split_rows=`, `split_cols=`, `learn_leaf=`)
by PRNG-scripted answers on SELF-DESCRIBING data:

  family A : data[r, c] = 1000*c + r                       (every slice reveals its row ids and columns)
  family B : like A, but on chosen (column, row-block) stretches the cell is 1000*c + 500 + r*1e-7:
             `np.isclose(np.var(.), 0)` reports zero variance there (atol 1e-8), the row id stays decodable
  family C : like B with truly constant cells 1000*c + 500 (row ids of all-constant slices are unknown;
             such leaves are compared by row COUNT only)

The zero-variance vector is computed by the real code from the data; it is recorded by replacing the
name `np` inside the learnspn module by a proxy whose `isclose` logs its result (the only `np.isclose`
call of that module is the zero-variance test). Every consultation is logged in the order it happens
(zero_var / rows / cols) and replayed in the Lean machine; the canonical text of the Lean result is
compared with the canonical text of the real returned structure (kinds, scopes, child order, weights
as exact ratios k/n with float32(k/n) == stored weight, leaf row sets and scopes).

Usage: PYTHONPATH=/repo /venv/bin/python demo_learn.py [--n 200] [--seed 0] [--driver PATH]
                  [--front auto|true|false] [--patched]   (--patched: run an in-memory copy of learn_spn
                   with the two single-slice re-queues turned into appendleft, i.e. the F3 repair)
"""
import argparse, inspect, itertools, json, random, re, subprocess, sys, types
import numpy as np

import deeprob.spn.learning.learnspn as LS
from deeprob.spn.structure.leaf import Leaf
from deeprob.spn.structure.node import Sum, Product

RecLeaf = type('RecLeaf', (Leaf,), {m: (lambda self, *a, **k: None) for m in Leaf.__abstractmethods__})


# ----------------------------------------------------------------------------------------------
# self-describing data
def make_data(n_rows, n_cols, stretches, exact_const):
    """stretches: list of (col, set(rows)) with (near-)constant cells."""
    d = np.empty((n_rows, n_cols), dtype=np.float64)
    for c in range(n_cols):
        for r in range(n_rows):
            d[r, c] = 1000.0 * c + r
    for c, rows in stretches:
        for r in rows:
            d[r, c] = 1000.0 * c + 500.0 + (0.0 if exact_const else r * 1e-7)
    return d


def decode_cell(v):
    c = int(v // 1000)
    rem = v - 1000.0 * c
    if rem < 499.5:
        return c, int(round(rem))
    k = (rem - 500.0) * 1e7
    return c, int(round(k))          # 0 for exact constants (ambiguous: handled by the caller)


def decode_slice(data, exact_const):
    """-> (rows or None, cols); rows is None when no column of the slice reveals the row ids."""
    n, m = data.shape
    cols, rows = [], None
    for j in range(m):
        dec = [decode_cell(data[i, j]) for i in range(n)]
        cs = {c for c, _ in dec}
        assert len(cs) == 1, "column mixes several column codes"
        cols.append(cs.pop())
        known = True
        if exact_const:
            # a cell with remainder >= 499.5 carries no row id
            known = all((data[i, j] - 1000.0 * cols[-1]) < 499.5 for i in range(n))
        if known:
            rj = [r for _, r in dec]
            if rows is None:
                rows = rj
            else:
                assert rows == rj, "columns disagree on row ids"
    return rows, cols


# ----------------------------------------------------------------------------------------------
class NpProxy:
    """stands in for the module-global `np` of learnspn.py; logs the zero-variance vector"""
    def __init__(self, log):
        self._log = log

    def __getattr__(self, name):
        return getattr(np, name)

    def isclose(self, a, b, *args, **kw):
        res = np.isclose(a, b, *args, **kw)
        self._log.append({"zero_var": [int(i) for i in np.flatnonzero(res)]})
        return res


def patched_module():
    """in-memory copy of learnspn.py with the F3 repair (appendleft on single-slice re-queue)"""
    src = inspect.getsource(LS)
    n = src.count("tasks.append(Task(task.parent,")
    assert n == 2, f"expected two single-slice re-queues, found {n}"
    src = src.replace("tasks.append(Task(task.parent,", "tasks.appendleft(Task(task.parent,")
    mod = types.ModuleType("learnspn_patched")
    mod.__dict__['__name__'] = 'learnspn_patched'
    exec(compile(src, "learnspn_patched.py", "exec"), mod.__dict__)
    mod.__source__ = src
    return mod


def is_front(mod):
    src = getattr(mod, '__source__', None) or inspect.getsource(mod)
    return "tasks.appendleft(Task(task.parent," in src


# ----------------------------------------------------------------------------------------------
class Scenario:
    """PRNG-scripted oracle answers + failure schedule"""

    def __init__(self, rng, n_rows, n_cols, exact_const, fail_p, pattern=None, blocks=None):
        self.rng, self.n_rows, self.n_cols = rng, n_rows, n_cols
        self.exact_const = exact_const
        self.fail_p = fail_p
        self.pattern = pattern        # adversarial schedule: dict frozenset(rows) -> (fail_cols, fail_rows)
        self.blocks = blocks          # forced first row split (list of row blocks) or None
        self.log = []                 # consultations, in order
        self.leaf_calls = []
        self.first_rows_done = False

    def _labels(self, n, kind):
        rng = self.rng
        if kind == 'single':
            return [rng.choice([0, 3, -1])] * n
        if kind == 'many':
            k = rng.randint(2, min(5, n))
            vals = rng.sample(range(-3, 9), k)
            lab = [rng.choice(vals) for _ in range(n)]
            return lab
        if kind == 'unbalanced':
            lab = [0] * n
            lab[rng.randrange(n)] = 1
            return lab
        if kind == 'each':
            lab = list(range(n))
            rng.shuffle(lab)
            return lab
        raise AssertionError

    def split_rows(self, data, dists, doms, random_state, **kw):
        rows, cols = decode_slice(data, self.exact_const)
        n = len(data)
        lab = None
        if self.blocks is not None and not self.first_rows_done:
            self.first_rows_done = True
            assert rows is not None
            lab = [next(i for i, b in enumerate(self.blocks) if r in b) * 2 - 1 for r in rows]
        elif self.pattern is not None and rows is not None and frozenset(rows) in self.pattern:
            if self.pattern[frozenset(rows)][1]:
                lab = self._labels(n, 'single')
        if lab is None:
            u = self.rng.random()
            if u < self.fail_p or n == 1:
                lab = self._labels(n, 'single')
            elif u < self.fail_p + 0.25 and rows is not None:
                # contiguous threshold split on the row ids (lets near-constant stretches line up)
                t = self.rng.choice(sorted(rows)[1:]) if len(set(rows)) > 1 else rows[0]
                lab = [0 if r < t else 1 for r in rows]
            elif u < self.fail_p + 0.35:
                lab = self._labels(n, 'unbalanced')
            elif u < self.fail_p + 0.40:
                lab = self._labels(n, 'each')
            else:
                lab = self._labels(n, 'many')
        self.log.append({"rows": [int(x) for x in lab]})
        return np.array(lab)

    def split_cols(self, data, dists, doms, random_state, **kw):
        rows, cols = decode_slice(data, self.exact_const)
        m = data.shape[1]
        lab = None
        if self.pattern is not None and rows is not None and frozenset(rows) in self.pattern \
                and m == self.n_cols:
            if self.pattern[frozenset(rows)][0]:
                lab = self._labels(m, 'single')
        if lab is None:
            u = self.rng.random()
            if u < self.fail_p or m == 1:
                lab = self._labels(m, 'single')
            elif u < self.fail_p + 0.2:
                lab = self._labels(m, 'each')
            else:
                lab = self._labels(m, 'many')
        self.log.append({"cols": [int(x) for x in lab]})
        return np.array(lab)

    def learn_leaf(self, data, dists, doms, scope, **kw):
        rows, cols = decode_slice(data, self.exact_const)
        assert cols == list(scope), f"leaf data columns {cols} != scope {scope}"
        leaf = RecLeaf(list(scope))
        leaf.rec_rows = rows
        leaf.rec_n = len(data)
        self.leaf_calls.append((rows, len(data), list(scope)))
        return leaf


# ----------------------------------------------------------------------------------------------
def n_rows_of(node):
    if isinstance(node, RecLeaf):
        return node.rec_n
    if isinstance(node, Product):
        return n_rows_of(node.children[0])
    if isinstance(node, Sum):
        return sum(n_rows_of(c) for c in node.children)
    raise AssertionError(type(node))


def render_real(node):
    sc = " ".join(str(int(s)) for s in node.scope)
    if isinstance(node, RecLeaf):
        rows = ("?%d" % node.rec_n) if node.rec_rows is None else " ".join(str(r) for r in node.rec_rows)
        return "L(rows=%s;scope=%s)" % (rows, sc)
    if isinstance(node, Product):
        return "P{%s}(%s)" % (sc, ",".join(render_real(c) for c in node.children))
    if isinstance(node, Sum):
        n = n_rows_of(node)
        parts = []
        assert len(node.weights) == len(node.children)
        for w, c in zip(node.weights, node.children):
            k = int(round(float(w) * n))
            ws = "%d/%d" % (k, n) if np.float32(k / n) == np.float32(w) else repr(float(w))
            parts.append(ws + ":" + render_real(c))
        return "S{%s}[%s]" % (sc, ",".join(parts))
    raise AssertionError(type(node))


LEAF_RE = re.compile(r"L\(rows=([^;]*);scope=([^)]*)\)")


def blur_unknown(lean_txt, real_txt):
    """leaves whose rows the data could not reveal (family C) are compared by count"""
    real_leaves = LEAF_RE.findall(real_txt)
    it = iter(real_leaves)

    def sub(m):
        try:
            rr, _ = next(it)
        except StopIteration:
            return m.group(0)
        if rr.startswith("?"):
            return "L(rows=?%d;scope=%s)" % (len(m.group(1).split()), m.group(2))
        return m.group(0)
    return LEAF_RE.sub(sub, lean_txt)


def weights_are_proportions(node):
    """C05 on the real result: float32(|rows of child i| / |rows of the sum|) == weight i, all sums"""
    ok = True
    if isinstance(node, Sum):
        n = n_rows_of(node)
        for w, c in zip(node.weights, node.children):
            if np.float32(n_rows_of(c) / n) != np.float32(w):
                ok = False
    for c in getattr(node, 'children', []):
        ok = weights_are_proportions(c) and ok
    return ok


# ----------------------------------------------------------------------------------------------
def gen_scenarios(n, seed):
    """~n scenarios: random ones over the three data families + exhaustive adversarial failure schedules"""
    out = []
    rng = random.Random(seed)
    # (1) adversarial: first row split into k blocks; every pattern of "next column split fails" x
    #     "the row split after it fails too" for the k siblings (k <= 3 exhaustive = 4^k, k = 4: 2^4 on cols)
    for k in (2, 3):
        for pat in itertools.product([(False, False), (True, False), (True, True)], repeat=k):
            out.append(dict(kind='adv', k=k, pat=pat, seed=rng.randrange(10**9), fam='A'))
    for pat in itertools.product([False, True], repeat=4):
        out.append(dict(kind='adv', k=4, pat=[(p, False) for p in pat], seed=rng.randrange(10**9), fam='A'))
    n_adv = len(out)
    # (2) random
    fams = ['A', 'B', 'B', 'C']
    i = 0
    while len(out) < max(n, n_adv + 60):
        out.append(dict(kind='rnd', seed=rng.randrange(10**9), fam=fams[i % len(fams)]))
        if i % 4 == 3:
            # more than 8 columns (ids beyond the first slots of small hash tables), with constant stretches: column / variable
            # bookkeeping of the remove-features step on small remaining scopes with large ids
            out[-1]['wide'] = True
            out[-1]['fam'] = 'B' if i % 8 == 3 else 'C'
        i += 1
    return out


def build(sc):
    rng = random.Random(sc['seed'])
    fam = sc['fam']
    if sc['kind'] == 'adv':
        k = sc['k']
        n_cols = rng.randint(2, 4)
        sizes = [rng.randint(4, 12) for _ in range(k)]
        n_rows = sum(sizes)
        ids = list(range(n_rows))
        rng.shuffle(ids)
        blocks, pos = [], 0
        for s in sizes:
            blocks.append(set(ids[pos:pos + s]))
            pos += s
        pattern = {frozenset(b): sc['pat'][i] for i, b in enumerate(blocks)}
        min_rows = rng.randint(2, 4)
        min_cols = 2
        data = make_data(n_rows, n_cols, [], False)
        s = Scenario(rng, n_rows, n_cols, False, fail_p=0.15, pattern=pattern, blocks=blocks)
        return data, s, min_rows, min_cols
    n_rows = rng.randint(3, 60)
    n_cols = rng.randint(9, 13) if sc.get('wide') else rng.randint(1, 6)
    stretches = []
    if fam in ('B', 'C'):
        for c in range(n_cols):
            u = rng.random()
            if u < 0.25:
                stretches.append((c, set(range(n_rows))))                      # constant everywhere
            elif u < 0.6:
                a = rng.randrange(n_rows)
                b = rng.randrange(a, n_rows)
                stretches.append((c, set(range(a, b + 1))))                    # contiguous block
            elif u < 0.7:
                stretches.append((c, set(rng.sample(range(n_rows), rng.randint(1, n_rows)))))
    data = make_data(n_rows, n_cols, stretches, fam == 'C')
    min_rows = rng.choice([1, 2, 3, 5, 8, 20])
    min_cols = rng.choice([1, 2, 2, 3])
    s = Scenario(rng, n_rows, n_cols, fam == 'C', fail_p=rng.choice([0.0, 0.2, 0.5]))
    return data, s, min_rows, min_cols


# ----------------------------------------------------------------------------------------------
def leaves_of(node, acc):
    if isinstance(node, RecLeaf):
        acc.append((tuple(node.rec_rows) if node.rec_rows is not None else ('?', node.rec_n),
                    tuple(int(v) for v in node.scope)))
    for c in getattr(node, 'children', []) or []:
        leaves_of(c, acc)
    return acc


def split_top(txt):
    """children of the outermost S{..}[ ... ] of a canonical text, with their weights"""
    body = txt[txt.index('[') + 1:-1]
    parts, depth, cur = [], 0, ''
    for ch in body:
        if ch in '([':
            depth += 1
        elif ch in ')]':
            depth -= 1
        if ch == ',' and depth == 0:
            parts.append(cur)
            cur = ''
        else:
            cur += ch
    parts.append(cur)
    return [tuple(x.split(':', 1)) for x in parts]


def classifier_check(mod, front, driver, n, seed):
    """`learn_classifier` (real, incl. prune) vs the Lean op `classifier`: root weights, child order, and the
    multiset of leaves (rows, scope) of every class branch"""
    import deeprob.spn.learning.wrappers as W
    rng0 = random.Random(seed)
    ops, reals = [], []
    for _ in range(n):
        rng = random.Random(rng0.randrange(10 ** 9))
        n_rows, n_feat, k = rng.randint(4, 40), rng.randint(1, 4), rng.randint(2, 4)
        n_cols = n_feat + 1
        cls = [rng.randrange(k) * 3 - 2 for _ in range(n_rows)]
        data = make_data(n_rows, n_cols, [], True)
        for r in range(n_rows):
            data[r, n_cols - 1] = 1000.0 * (n_cols - 1) + 500.0 + (cls[r] + 2)
        s = Scenario(rng, n_rows, n_cols, True, fail_p=rng.choice([0.0, 0.3]))
        min_rows, min_cols = rng.choice([1, 2, 3, 6]), rng.choice([1, 2, 3])
        bounds = []
        orig = W.learn_spn

        def wrapped(*a, **kw):
            bounds.append(len(s.log))
            return mod.learn_spn(*a, **kw)
        W.learn_spn = wrapped
        mod.np = NpProxy(s.log)
        try:
            root = W.learn_classifier(
                data, [RecLeaf] * n_cols, [(0, 1)] * n_cols, class_idx=-1, verbose=False,
                learn_leaf=s.learn_leaf, split_rows=s.split_rows, split_cols=s.split_cols,
                min_rows_slice=min_rows, min_cols_slice=min_cols, random_state=0)
        finally:
            W.learn_spn = orig
            mod.np = np
        bounds.append(len(s.log))
        scripts = [s.log[a:b] for a, b in zip(bounds, bounds[1:])]
        ops.append(json.dumps(dict(op='classifier', classes=[int(c) for c in cls], n_cols=n_cols,
                                   min_rows_slice=min_rows, min_cols_slice=min_cols, front=front,
                                   scripts=scripts)))
        reals.append((root, n_rows))
    res = subprocess.run([driver], input="\n".join(ops) + "\n", capture_output=True, text=True)
    lines = res.stdout.splitlines()
    assert len(lines) == len(ops)
    ok = 0
    for (root, n_rows), lean in zip(reals, lines):
        good = lean.startswith('S{') and isinstance(root, Sum)
        if good:
            tops = split_top(lean)
            good = len(tops) == len(root.children) == len(root.weights)
        if good:
            for (w, sub), rw, rc in zip(tops, root.weights, root.children):
                a, b = w.split('/')
                if np.float32(int(a) / int(b)) != np.float32(rw):
                    good = False
                lean_leaves = sorted((tuple(int(x) for x in r.split()), tuple(int(x) for x in sc.split()))
                                     for r, sc in LEAF_RE.findall(sub))
                real_leaves = leaves_of(rc, [])
                # rows of all-constant slices are unknown on the real side: those leaves are compared by count
                from collections import Counter
                if Counter((sc, len(r)) for r, sc in lean_leaves) != \
                        Counter((sc, (x[1] if x and x[0] == '?' else len(x))) for x, sc in real_leaves):
                    good = False
                lean_set = Counter(lean_leaves)
                for x, sc in real_leaves:
                    if not (x and x[0] == '?') and lean_set[(x, sc)] == 0:
                        good = False
        if good:
            ok += 1
        else:
            print("CLASSIFIER MISMATCH\n  lean:", lean[:300])
    print(f"classifier wrapper: AGREE {ok} / {len(ops)} (root weights, child order, leaves of every class branch)")
    return ok == len(ops)


def main():
    ap = argparse.ArgumentParser()
    ap.add_argument('--n', type=int, default=200)
    ap.add_argument('--seed', type=int, default=0)
    ap.add_argument('--driver', default='/root/work/learn/lean/.lake/build/bin/driver')
    ap.add_argument('--front', default='auto')
    ap.add_argument('--patched', action='store_true')
    ap.add_argument('--verbose', action='store_true')
    a = ap.parse_args()

    mod = patched_module() if a.patched else LS
    front = is_front(mod) if a.front == 'auto' else (a.front == 'true')
    print(f"learn_spn under test: {'in-memory F3-repaired copy' if a.patched else 'the /repo tree'}; "
          f"single-slice re-queue is {'appendleft' if is_front(mod) else 'append'}; Lean machine front={front}")

    scen = gen_scenarios(a.n, a.seed)
    ops, reals, metas = [], [], []
    stats = dict(rem=0, naive=0, requeue=0, sums=0, c05_violations=0, unknown_rows=0)
    for sc in scen:
        data, s, min_rows, min_cols = build(sc)
        n_rows, n_cols = data.shape
        mod.np = NpProxy(s.log)
        try:
            root = mod.learn_spn(
                data, [RecLeaf] * n_cols, [(0, 1)] * n_cols,
                learn_leaf=s.learn_leaf, split_rows=s.split_rows, split_cols=s.split_cols,
                min_rows_slice=min_rows, min_cols_slice=min_cols, random_state=0, verbose=False)
        finally:
            mod.np = np
        txt = render_real(root)
        reals.append(txt)
        metas.append((sc, n_rows, n_cols, min_rows, min_cols, len(s.log)))
        ops.append(json.dumps(dict(op='learn', n_rows=n_rows, n_cols=n_cols, min_rows_slice=min_rows,
                                   min_cols_slice=min_cols, front=front, script=s.log)))
        if not weights_are_proportions(root):
            stats['c05_violations'] += 1
        stats['sums'] += txt.count('S{')
        stats['unknown_rows'] += txt.count('rows=?')
        # op statistics from the log: a zero_var answer that is non-empty and not all columns = REM_FEATURES
        for e in s.log:
            if 'zero_var' in e and e['zero_var']:
                stats['rem'] += 1          # REM_FEATURES or SPLIT_NAIVE
        single = sum(1 for e in s.log if ('rows' in e and len(set(e['rows'])) == 1)
                     or ('cols' in e and len(set(e['cols'])) == 1))
        stats['requeue'] += single

    res = subprocess.run([a.driver], input="\n".join(ops) + "\n", capture_output=True, text=True)
    lines = res.stdout.splitlines()
    assert len(lines) == len(ops), (len(lines), len(ops), res.stderr[:500])
    agree, bad = 0, []
    for (sc, n_rows, n_cols, mr, mc, nl), real, lean in zip(metas, reals, lines):
        if blur_unknown(lean, real) == real:
            agree += 1
        else:
            bad.append((sc, n_rows, n_cols, mr, mc, real, lean))
        if a.verbose:
            print(sc['kind'], sc['fam'], n_rows, n_cols, mr, mc, nl, real[:100])
    n_adv = sum(1 for m in metas if m[0]['kind'] == 'adv')
    print(f"scripts: {len(ops)} ({n_adv} adversarial failure schedules, {len(ops) - n_adv} random over "
          f"families A/B/C); consultations replayed: {sum(m[5] for m in metas)}")
    print(f"sum nodes: {stats['sums']}; non-empty zero-variance answers (REM_FEATURES/SPLIT_NAIVE): {stats['rem']}; "
          f"single-cluster answers (re-queues): {stats['requeue']}; leaves compared by count only: {stats['unknown_rows']}")
    print(f"real results whose sum weights are NOT the row proportions of the attached children (C05/F3): "
          f"{stats['c05_violations']}")
    print(f"AGREE {agree} / {len(ops)}")
    for b in bad[:5]:
        print("MISMATCH", b[0], b[1:5])
        print("  real:", b[5])
        print("  lean:", b[6])
    cok = classifier_check(mod, front, a.driver, 40, a.seed + 17)
    return 0 if not bad and cok else 1


if __name__ == '__main__':
    sys.exit(main())
