"""Third wave of translated fragments (tr3): implementation = generated definition = hand-written model, on concrete inputs.

    cd /verif && PYTHONPATH=/repo:/verif /venv/bin/python /root/work3/tr3/demo_tr3.py [seed]

Talks to the driver built in /root/work3/tr3/lean (JSON line protocol, exact rationals as "n/d").  For every case the
REAL code of /repo is run, the driver evaluates the definition GENERATED from the current source (`Gen.S3…`) and the
hand-written model definition next to it; all three must agree (exactly where the quantities are exact, within a float
tolerance otherwise).  Exit status 0 iff no disagreement; the counts per section are printed.
"""
import json, math, os, subprocess, sys, random, collections
from fractions import Fraction as Fr
import numpy as np
import networkx as nx

import deeprob.spn.learning.learnspn as learnspn
from deeprob.spn.structure.leaf import Bernoulli, Categorical
from deeprob.spn.structure.node import Sum, Product, assign_ids, topological_order
from deeprob.spn.structure.cltree import BinaryCLT
from deeprob.spn.structure.cnet import BinaryCNet
from deeprob.spn.structure.io import spn_to_digraph, digraph_to_spn
from deeprob.spn.algorithms.inference import node_likelihood, node_log_likelihood, likelihood, log_likelihood
from deeprob.spn.algorithms import moments as moments_mod
from deeprob.spn.learning.splitting.rows import split_rows_clusters
from deeprob.spn.learning.splitting.cols import split_cols_clusters
from deeprob.spn.learning import em as em_mod
from deeprob.spn.models.sklearn import SPNClassifier

EXE = os.environ.get('DEEPROB_DRIVER', __import__('os').path.join(__import__('os').path.dirname(__import__('os').path.dirname(__import__('os').path.dirname(__import__('os').path.abspath(__file__)))), 'lean', '.lake', 'build', 'bin', 'driver'))
WANT = set(filter(None, os.environ.get('DEMO_SECTIONS', '').split(',')))
seed = int(sys.argv[1]) if len(sys.argv) > 1 else 1
rnd = random.Random(seed)
np.random.seed(seed)


class Driver:
    def __init__(self):
        if not os.path.exists(EXE):
            sys.exit('driver is not built: ' + EXE)
        self.p = subprocess.Popen([EXE], stdin=subprocess.PIPE, stdout=subprocess.PIPE, text=True, bufsize=1)

    def ask(self, obj):
        self.p.stdin.write(json.dumps(obj) + '\n')
        self.p.stdin.flush()
        a = self.p.stdout.readline().rstrip('\n')
        if not a or a.startswith('bad-op'):
            raise RuntimeError(f'driver: {a!r} for {json.dumps(obj)[:300]}')
        return a


D = Driver()
counts = collections.Counter()
bad = []


def fs(x):
    q = Fr(float(x))
    return f'{q.numerator}/{q.denominator}'


def pq(s):
    n, d = s.split('/')
    return Fr(int(n), int(d))


def close(a, b, tol=1e-6):
    a, b = float(a), float(b)
    return abs(a - b) <= tol * (1 + abs(b))


def check(section, ok, info):
    if WANT and section.split('.')[0] not in WANT:
        return          # another property's check reports this section
    counts[section] += 1
    if not ok:
        bad.append((section, info))
        if len(bad) <= 20:
            print('MISMATCH', section, info)


# ------------------------------------------------------------------ (a) inner nodes: node_likelihood / node_log_likelihood
for _ in range(150):
    k = rnd.randrange(1, 6)
    w = np.random.dirichlet(np.ones(k)).astype(np.float32)
    x = np.random.rand(3, k) * rnd.choice([1.0, 1e-3, 5.0])
    s = Sum(children=[Bernoulli(0) for _ in range(k)], weights=w.copy())
    p = Product(children=[Bernoulli(i) for i in range(k)])
    ls, lp = node_likelihood(s, x), node_likelihood(p, x)
    lls, llp = node_log_likelihood(s, np.log(x)), node_log_likelihood(p, np.log(x))
    for r in range(3):
        g, m = D.ask({'op': 's3_inner', 'kind': 'sum', 'w': [fs(t) for t in w], 'x': [fs(t) for t in x[r]]}).split()
        check('a.sum', g == m and close(pq(g), ls[r]) and close(math.log(pq(g)), lls[r], 1e-5), (w, x[r], g, m, ls[r], lls[r]))
        g, m = D.ask({'op': 's3_inner', 'kind': 'prod', 'x': [fs(t) for t in x[r]]}).split()
        check('a.prod', g == m and close(pq(g), lp[r]) and close(math.log(pq(g)), llp[r], 1e-5), (x[r], g, m, lp[r], llp[r]))
# the floor of node_log_likelihood: a child with log-value -inf (sent as -2e31, below the floor)
for _ in range(40):
    k = rnd.randrange(1, 5)
    x = -np.random.rand(1, k) * 30
    zero = rnd.random() < 0.5
    if zero:
        x[0, rnd.randrange(k)] = -np.inf
    p = Product(children=[Bernoulli(i) for i in range(k)])
    ll = node_log_likelihood(p, x)[0]
    g = D.ask({'op': 's3_floor', 'x': [fs(t) if np.isfinite(t) else fs(-2e31) for t in x[0]]})
    check('a.floor', close(pq(g), ll, 1e-9) and (not zero or pq(g) == Fr(-10 ** 31)), (x, g, ll))

# ------------------------------------------------------------------ (a) Bernoulli / Categorical leaves with NaN
for _ in range(60):
    pr = rnd.random()
    b = Bernoulli(0, pr)
    xs = np.array([[np.nan], [0.0], [1.0]])
    l, ll = b.likelihood(xs)[:, 0], b.log_likelihood(xs)[:, 0]
    for i, v in enumerate([None, 0, 1]):
        g, m = D.ask({'op': 's3_leaf', 'kind': 'bern', 'p': fs(pr), 'x': v}).split()
        check('a.bernoulli', g == m and close(pq(g), l[i]) and close(math.log(pq(g)) if pq(g) > 0 else -1e31, max(ll[i], -1e31), 1e-5), (pr, v, g, m, l[i], ll[i]))
    K = rnd.randrange(2, 6)
    probs = np.random.dirichlet(np.ones(K)).astype(np.float32)
    c = Categorical(0, list(range(K)), probs)
    vals = [None] + list(range(K)) + [K + 1]
    xs = np.array([[np.nan if v is None else float(v)] for v in vals])
    l, ll = c.likelihood(xs)[:, 0], c.log_likelihood(xs)[:, 0]
    for i, v in enumerate(vals):
        g, m = D.ask({'op': 's3_leaf', 'kind': 'cat', 'probs': [fs(t) for t in c.probabilities], 'x': v}).split()
        ok = g == m and close(pq(g), l[i])
        if pq(g) > 0:
            ok = ok and close(math.log(pq(g)), ll[i], 1e-5)
        check('a.categorical', ok, (probs, v, g, m, l[i], ll[i]))


# ------------------------------------------------------------------ (a) whole circuits through eval_forward
def rand_spn(nvars, depth):
    def leaf(v):
        if rnd.random() < 0.5:
            return Bernoulli(v, rnd.uniform(0.05, 0.95))
        K = rnd.randrange(2, 4)
        return Categorical(v, list(range(K)), np.random.dirichlet(np.ones(K)).astype(np.float32))
    def build(scope, d):
        if len(scope) == 1 and (d <= 0 or rnd.random() < 0.5):
            return leaf(scope[0])
        if len(scope) > 1 and (d % 2 == 0 or d <= 0):
            cut = rnd.randrange(1, len(scope))
            sc = scope[:]
            rnd.shuffle(sc)
            return Product(children=[build(sorted(sc[:cut]), d - 1), build(sorted(sc[cut:]), d - 1)])
        k = rnd.randrange(2, 4)
        return Sum(children=[build(scope, d - 1) for _ in range(k)], weights=np.random.dirichlet(np.ones(k)).astype(np.float32))
    return assign_ids(build(list(range(nvars)), depth))


def export(root):
    order = list(reversed(topological_order(root)))        # children first
    pos = {id(n): i for i, n in enumerate(order)}
    nodes = []
    for n in order:
        d = {'id': n.id, 'scope': list(map(int, n.scope)), 'ch': [pos[id(c)] for c in n.children]}
        if isinstance(n, Sum):
            d.update(kind='sum', w=[fs(t) for t in n.weights])
        elif isinstance(n, Product):
            d.update(kind='prod')
        elif isinstance(n, Bernoulli):
            d.update(kind='cat', v=int(n.scope[0]), tbl=[fs(1 - Fr(float(n.p))), fs(n.p)])
        else:
            d.update(kind='cat', v=int(n.scope[0]), tbl=[fs(t) for t in n.probabilities])
        nodes.append(d)
    return order, pos, nodes


for _ in range(25):
    nv = rnd.randrange(2, 5)
    root = rand_spn(nv, rnd.randrange(2, 5))
    order, pos, nodes = export(root)
    D.ask({'op': 'net', 'nodes': nodes, 'root': pos[id(root)], 'dom': [4] * nv})
    for _ in range(6):
        row = [None if rnd.random() < 0.3 else rnd.randrange(2) for _ in range(nv)]
        x = np.array([[np.nan if v is None else float(v) for v in row]])
        _, ls = likelihood(root, x, return_results=True)
        gen, model = D.ask({'op': 's3_evalnet', 'row': row}).split(' | ')
        gv = [pq(t) for t in gen.split()]
        check('a.eval_forward', gen == model and all(close(gv[pos[id(n)]], ls[n.id][0], 1e-5) for n in order), (row, gen, model))

# ------------------------------------------------------------------ (b) split_rows_clusters / split_cols_clusters
for _ in range(120):
    n = rnd.randrange(1, 12)
    clusters = np.array([rnd.choice([-1, 0, 1, 2, 5]) for _ in range(n)])
    ids = rnd.sample(range(100), n)
    data = np.array(ids, dtype=np.float64).reshape(n, 1)
    slices, weights = split_rows_clusters(data, clusters)
    a = D.ask({'op': 's3_split', 'kind': 'rows', 'clusters': clusters.tolist(), 'items': ids}).split('|')
    impl_s = ';'.join(' '.join(str(int(v)) for v in s[:, 0]) for s in slices)
    ok = a[0] == a[2] == impl_s and a[1] == a[3] and len(a[1].split()) == len(weights) and \
        all(float(pq(t)) == wt for t, wt in zip(a[1].split(), weights))
    check('b.split_rows', ok, (clusters, ids, a, impl_s, weights))
    scope = rnd.sample(range(50), n)
    dcols = np.array(scope, dtype=np.float64).reshape(1, n)
    sl, scs = split_cols_clusters(dcols, clusters, scope)
    a = D.ask({'op': 's3_split', 'kind': 'cols', 'clusters': clusters.tolist(), 'items': scope}).split('|')
    impl = ';'.join(' '.join(map(str, s)) for s in scs)
    impl_d = ';'.join(' '.join(str(int(v)) for v in s[0]) for s in sl)
    check('b.split_cols', a[0] == a[1] == impl == impl_d, (clusters, scope, a, impl, impl_d))

# ------------------------------------------------------------------ (b) learn_spn: the Task records of SPLIT_ROWS / SPLIT_COLS
RealTask = learnspn.Task
created = []


def SpyTask(*args, **kw):
    t = RealTask(*args, **kw)
    created.append(t)
    return t


for trial in range(40):
    nrows, ncols = rnd.randrange(6, 14), rnd.randrange(2, 5)
    data = np.array([[r + 0.125 * j + 0.01 * ((r * 7 + j * 3) % 5) for j in range(ncols)] for r in range(nrows)])
    events = []

    def rows_of(d):
        return [int(math.floor(v)) for v in d[:, 0]]

    def my_rows(d, dists, doms, rs, **kw):
        k = rnd.choice([1, 2, 2, 3])
        cl = np.array([rnd.randrange(k) * 3 - 1 for _ in range(len(d))])
        events.append(('rows', d, cl, len(created)))
        return cl

    def my_cols(d, dists, doms, rs, **kw):
        k = rnd.choice([1, 2, 2])
        cl = np.array([rnd.randrange(k) for _ in range(d.shape[1])])
        events.append(('cols', d, cl, len(created)))
        return cl

    created.clear()
    learnspn.Task = SpyTask
    try:
        from deeprob.spn.structure.leaf import Gaussian
        learnspn.learn_spn(data, [Gaussian] * ncols, [(0.0, 20.0)] * ncols, learn_leaf='mle', split_rows=my_rows, split_cols=my_cols,
                           min_rows_slice=2, min_cols_slice=2, random_state=seed, verbose=False)
    finally:
        learnspn.Task = RealTask
    for kind, d, cl, at in events:
        task = [t for t in created[:at] if t.data is d][-1]
        nsl = len(np.unique(cl))
        made = created[at:at + (1 if nsl == 1 else nsl)]
        req = {'op': 's3_learn_tasks', 'kind': kind, 'node': 9,
               'task': {'parent': 7, 'rows': rows_of(d), 'scope': list(map(int, task.scope)), 'ncs': False, 'nrs': False, 'first': kind == 'rows'},
               'clusters': cl.tolist()}
        gen, model, where = D.ask(req).split(' # ')
        def show(t):
            par = 7 if t.parent is task.parent else (9 if isinstance(t.parent, Sum if kind == 'rows' else Product) and t.parent is not task.parent else -1)
            return '|'.join([str(par), ' '.join(map(str, rows_of(t.data))), ' '.join(str(int(s)) for s in t.scope),
                             str(int(t.no_cols_split)), str(int(t.no_rows_split)), str(int(t.is_first))])
        impl = ('requeue ' if nsl == 1 else 'sub ') + ';'.join(show(t) for t in made)
        check('b.learn_' + kind, gen == model == impl and where == 'appendleft', (kind, cl.tolist(), gen, model, impl))


# ------------------------------------------------------------------ (c) BinaryCNet.log_likelihood
def rand_cnet(scope, depth, train):
    if depth == 0 or len(scope) <= 2:
        n = BinaryCNet(list(scope))
        clt = BinaryCLT(list(scope))
        clt.fit(train[:, :len(scope)], [[0, 1]] * len(scope), alpha=0.1, random_state=rnd.randrange(1000))
        n.clt = clt
        return n
    v = rnd.choice(scope)
    rest = [s for s in scope if s != v]
    w = rnd.uniform(0.1, 0.9)
    return BinaryCNet(list(scope), children=[rand_cnet(rest, depth - 1, train), rand_cnet(rest, depth - 1, train)],
                      weights=[w, 1 - w], or_id=v)


for _ in range(25):
    nv = rnd.randrange(3, 6)
    train = np.random.randint(0, 2, size=(60, nv)).astype(np.float32)
    root = rand_cnet(list(range(nv)), rnd.randrange(1, 3), train)
    leaves = []
    def tojson(n):
        if n.clt:
            leaves.append(n)
            return {'leaf': len(leaves) - 1}
        return {'or': {'scope': list(map(int, n.scope)), 'or_id': int(n.or_id), 'w': [fs(t) for t in n.weights], 'ch': [tojson(c) for c in n.children]}}
    tree = tojson(root)
    x = np.random.randint(0, 2, size=(rnd.randrange(1, 9), nv)).astype(np.float32)
    impl = root.log_likelihood(x)
    lv, gen, model = D.ask({'op': 's3_cnet_run', 'tree': tree, 'x': x.astype(int).tolist()}).split(' | ')
    recon = np.array([math.log(pq(t)) for t in gen.split()])
    for item in lv.split(';'):
        lid, rows, cols = item.split(':')
        rows, cols = [int(t) for t in rows.split()], [int(t) for t in cols.split()]
        if rows:
            recon[rows] += leaves[int(lid)].clt.log_likelihood(x[rows][:, cols]).reshape(-1)
    check('c.cnet', gen == model and np.allclose(recon, impl, atol=1e-5), (tree, x.tolist(), gen, model, recon, impl))

# ------------------------------------------------------------------ (d) moment / leaf_moment
for _ in range(60):
    n = rnd.randrange(1, 7)
    v = rnd.randrange(n)
    b = Bernoulli(v, rnd.uniform(0.05, 0.95))
    k = rnd.randrange(1, 4)
    m = moments_mod.leaf_moment(b, np.ones((n, 1), dtype=np.float32), k)
    gen, model = D.ask({'op': 's3_moment', 'scope': [v], 'mom': fs(b.moment(k)), 'n': n}).split(' | ')
    check('d.leaf_moment', gen == model and np.allclose([float(pq(t)) for t in gen.split()], m, atol=1e-6), (n, v, gen, m))
root = assign_ids(Product(children=[Bernoulli(0, 0.3), Bernoulli(1, 0.6)]))
for order in (-3, -1, 0, 1, 2, 4):
    case = int(D.ask({'op': 's3_moment', 'order': order}))
    try:
        r = moments_mod.moment(root, order)
        impl = 1 if order == 0 else 2
        ok = (case == impl) and (order != 0 or np.all(r == 1.0))
    except ValueError:
        ok = case == 0
    check('d.moment_exits', ok, (order, case))

# ------------------------------------------------------------------ (f) io: edges, rounded weights, child placement
for _ in range(25):
    root = rand_spn(rnd.randrange(2, 5), rnd.randrange(2, 5))
    g = spn_to_digraph(root)
    for n in topological_order(root):
        gen, model = D.ask({'op': 's3_io_edges', 'id': n.id, 'ch': [c.id for c in n.children]}).split(' | ')
        impl = {(u, v): d['idx'] for u, v, d in g.edges(data=True) if v == n.id}
        want = {}
        for t in gen.split(';') if gen else []:
            u, v, i = map(int, t.split(','))
            want[(u, v)] = i            # a repeated (child, parent) pair keeps the last idx (simple digraph, F15)
        check('f.edges', gen == model and impl == want, (n.id, gen, model, impl))
        if isinstance(n, Sum):
            gen, model = D.ask({'op': 's3_io_weights', 'w': [fs(t) for t in n.weights]}).split(' | ')
            check('f.weights', gen == model and [float(pq(t)) for t in gen.split()] == g.nodes[n.id]['weights'], (n.weights, gen, g.nodes[n.id]['weights']))
for _ in range(60):
    k = rnd.randrange(1, 5)
    idxs = rnd.sample(range(k + 2), k)          # gaps leave None slots
    g = nx.DiGraph()
    g.add_node(0, **{'class': 'Sum', 'scope': [0], 'weights': [1.0]})
    for c in range(1, k + 1):
        g.add_node(c, **{'class': 'Bernoulli', 'scope': [0], 'params': {'p': 0.5}})
    edges = list(zip(range(1, k + 1), idxs))
    rnd.shuffle(edges)
    for c, i in edges:
        g.add_edge(c, 0, idx=i)
    root = digraph_to_spn(g, {'Bernoulli': Bernoulli})
    impl = ' '.join('-' if c is None else str(c.id) for c in root.children)
    gen, model = D.ask({'op': 's3_io_children', 'edges': [[u, v, g.edges[u, v]['idx']] for u, v in g.edges], 'parent': 0}).split(' | ')
    check('f.place', gen == model == impl, (edges, gen, model, impl))

# ------------------------------------------------------------------ (e) SPNClassifier.predict_proba / predict_log_proba / predict
for _ in range(30):
    K, nf = rnd.randrange(2, 5), rnd.randrange(1, 4)
    subs = []
    for c in range(K):
        ind = [0.0] * K
        ind[c] = 1.0
        subs.append(Product(children=[Bernoulli(f, rnd.uniform(0.1, 0.9)) for f in range(nf)] + [Categorical(nf, list(range(K)), ind)]))
    w = np.random.dirichlet(np.ones(K) * 3).astype(np.float32)
    root = assign_ids(Sum(children=subs, weights=w))
    clf = SPNClassifier([Bernoulli] * nf + [Categorical])
    clf.spn_, clf.n_features_, clf.n_classes_ = root, nf, K
    n = rnd.randrange(1, 6)
    X = np.array([[np.nan if rnd.random() < 0.2 else float(rnd.randrange(2)) for _ in range(nf)] for _ in range(n)])
    proba, logp, pred = clf.predict_proba(X), clf.predict_log_proba(X), clf.predict(X)
    # exact class likelihoods L_k(x_r) from the Bernoulli parameters
    L = [[fs(math.prod([Fr(1)] + [(Fr(float(l.p)) if X[r, f] == 1 else 1 - Fr(float(l.p))) for f, l in enumerate(s.children[:nf]) if not np.isnan(X[r, f])]))
          for r in range(n)] for s in subs]
    tbl, br = D.ask({'op': 'posterior', 'w': [fs(t) for t in w], 'L': L, 'rows': n}).split(' | ')
    T = [[float(pq(t)) for t in row.split()] for row in tbl.split(';')]
    margin = all(sorted(r)[-1] - sorted(r)[-2] > 1e-4 for r in T)
    ok = proba.shape == (n, K) and np.allclose(T, proba, atol=1e-5) and np.allclose(np.log(T), logp, atol=1e-4) and \
        (not margin or [int(t) for t in br.split()] == [int(v) for v in pred])
    check('e.posterior', ok, (w, X.tolist(), tbl, proba.tolist(), br, pred.tolist()))

# ------------------------------------------------------------------ (g) EM: the responsibilities handed to em_step
for _ in range(12):
    nv = rnd.randrange(2, 4)
    while True:
        root = rand_spn(nv, rnd.randrange(2, 4))
        if all(isinstance(n, (Sum, Product, Bernoulli)) for n in topological_order(root)):
            break
    data = np.random.randint(0, 2, size=(10, nv)).astype(np.float32)
    captured = {}
    real_sum, real_bern = Sum.em_step, Bernoulli.em_step
    real_choice = np.random.RandomState.choice
    batch = {}
    def spy_sum(self, stats, step_size):
        captured[self.id] = np.array(stats, dtype=np.float64)
    def spy_bern(self, stats, d, step_size):
        captured[self.id] = np.array(stats, dtype=np.float64)
    class RS(np.random.RandomState):
        def choice(self, *a, **k):
            r = super().choice(*a, **k)
            batch['idx'] = np.array(r)
            return r
    Sum.em_step, Bernoulli.em_step = spy_sum, spy_bern
    try:
        em_mod.expectation_maximization(root, data, num_iter=1, batch_perc=0.5, step_size=0.5, random_init=False, random_state=RS(seed), verbose=False)
    finally:
        Sum.em_step, Bernoulli.em_step = real_sum, real_bern
    order, pos, nodes = export(root)
    bd = data[batch['idx']]
    for r, row in enumerate(bd):
        vals, grads = D.ask({'op': 'backward', 'nodes': nodes, 'root': pos[id(root)], 'row': [int(v) for v in row]}).split(' | ')
        vals, grads = [pq(t) for t in vals.split()], [pq(t) for t in grads.split()]
        vr = vals[pos[id(root)]]
        for n in order:
            i = pos[id(n)]
            if isinstance(n, Sum):
                want = [float(vals[pos[id(c)]] * grads[i] / vr) for c in n.children]
                check('g.resp_sum', np.allclose(want, captured[n.id][:, r], atol=1e-4), (n.id, r, want, captured[n.id][:, r]))
            elif isinstance(n, Bernoulli):
                want = float(vals[i] * grads[i] / vr)
                check('g.resp_leaf', abs(want - captured[n.id][r]) < 1e-4, (n.id, r, want, captured[n.id][r]))

print('cases per section:', dict(sorted(counts.items())))
print(f'total {sum(counts.values())} cases, {len(bad)} mismatches')
sys.exit(1 if bad else 0)
