#!/venv/bin/python
"""
Differential demo for property C15: the Lean model (Driver/OpsFlows.lean, `handleFlows`) against the
real deeprob-kit objects.  Usage:  PYTHONPATH=/repo /venv/bin/python demo_flows.py
Every configuration builds the real object, renders the same canonical text as the driver and diffs.
"""
import itertools
import json
import os
import subprocess
import sys

import numpy as np
import torch
import torch.nn.functional as F

from deeprob.flows.layers.autoregressive import AutoregressiveLayer
from deeprob.flows.layers.coupling import CouplingLayer1d, CouplingLayer2d
from deeprob.flows.models.realnvp import RealNVP2d
from deeprob.flows.utils import squeeze_depth2d, unsqueeze_depth2d
from deeprob.torch.utils import MaskedLinear

LEAN_DIR = os.path.join(os.path.dirname(os.path.abspath(__file__)), 'lean')
EXE = os.path.join(LEAN_DIR, '.lake', 'build', 'bin', 'flowsdriver')


def run_driver(ops):
    inp = '\n'.join(json.dumps(o) for o in ops) + '\n'
    if os.path.exists(EXE):
        cmd = [EXE]
    else:
        cmd = ['lake', 'env', 'lean', '--run', 'Driver/FlowsMain.lean']
    out = subprocess.run(cmd, input=inp, capture_output=True, text=True, cwd=LEAN_DIR, check=True).stdout
    lines = out.split('\n')
    if lines and lines[-1] == '':
        lines = lines[:-1]
    assert len(lines) == len(ops), (len(lines), len(ops))
    return lines


def nats(v):
    return ' '.join(str(int(a)) for a in np.asarray(v).reshape(-1))


def bits(v):
    v = np.asarray(v).reshape(-1)
    assert set(np.unique(v)).issubset({0, 1}), v
    return ''.join(str(int(a)) for a in v)


def mat(m):
    return ';'.join(bits(r) for r in np.asarray(m))


def layer_masks(layer, n):
    """Masks actually registered in the MaskedLinear modules of the conditioner (tile undone)."""
    ms = [m.mask.numpy() for m in layer.network if isinstance(m, MaskedLinear)]
    last = ms[-1]
    assert last.shape[0] == 2 * n and np.array_equal(last[:n], last[n:]), 'np.tile(masks[-1], (2,1))'
    return ms[:-1] + [last[:n]]


def made_report(layer, n, degrees):
    ms = layer_masks(layer, n)
    bm = AutoregressiveLayer.build_masks(degrees)
    assert len(bm) == len(ms) and all(np.array_equal(a, b) for a, b in zip(bm, ms))
    prod = np.eye(n)
    for m in ms:
        prod = m.astype(np.float64) @ prod
    dep = (prod > 0).astype(int)
    assert np.array_equal(layer.ordering, degrees[0])
    return 'masks {} # inv {} # dep {}'.format('|'.join(mat(m) for m in ms), nats(layer.inv_ordering), mat(dep))


def main():
    ops, expected, names = [], [], []

    def add(name, op, exp):
        names.append(name); ops.append(op); expected.append(exp)

    # --- MADE, sequential degrees
    for n, depth, units, rev in [(2, 1, 1, False), (2, 2, 3, True), (3, 1, 4, False), (3, 2, 4, True),
                                 (4, 1, 5, False), (5, 3, 7, True), (6, 2, 16, False), (9, 1, 3, True),
                                 (9, 3, 16, False), (7, 2, 2, True)]:
        layer = AutoregressiveLayer(n, depth, units, 'relu', reverse=rev, sequential=True)
        degrees = layer.build_degrees_sequential(depth, units, rev)
        exp = 'deg {} # {}'.format('|'.join(nats(d) for d in degrees), made_report(layer, n, degrees))
        add(f'made_seq n={n} depth={depth} units={units} rev={rev}',
            {'op': 'made_seq', 'features': n, 'hidden': [units] * depth, 'reverse': rev}, exp)

    # --- MADE, random degrees (the constructor consumes the RandomState exactly as build_degrees_random)
    for seed, (n, depth, units) in enumerate([(2, 1, 3), (3, 1, 4), (3, 2, 5), (4, 2, 6), (5, 1, 8), (5, 3, 4),
                                              (6, 2, 9), (7, 2, 16), (8, 1, 5), (9, 3, 12)]):
        layer = AutoregressiveLayer(n, depth, units, 'tanh', sequential=False,
                                    random_state=np.random.RandomState(seed))
        degrees = layer.build_degrees_random(depth, units, np.random.RandomState(seed))
        exp = made_report(layer, n, degrees) + ' # admissible true'
        add(f'made_masks(random) n={n} depth={depth} units={units} seed={seed}',
            {'op': 'made_masks', 'degrees': [[int(a) for a in d] for d in degrees]}, exp)

    # --- squeeze / unsqueeze on arange tensors (batch = further leading dimension)
    for nb, c, h, w in [(1, 1, 2, 2), (1, 1, 2, 4), (1, 2, 4, 2), (1, 3, 4, 4), (1, 1, 6, 8), (2, 2, 2, 6),
                        (1, 2, 8, 8), (3, 1, 4, 2)]:
        x = torch.arange(nb * c * h * w).view(nb, c, h, w)
        add(f'squeeze n={nb} c={c} h={h} w={w}', {'op': 'squeeze', 'c': nb * c, 'h': h, 'w': w},
            nats(squeeze_depth2d(x).numpy()))
    for nb, c, h, w in [(1, 4, 1, 1), (1, 4, 1, 2), (1, 8, 2, 1), (1, 12, 2, 2), (1, 4, 3, 4), (2, 8, 1, 3),
                        (1, 8, 4, 4), (3, 4, 2, 1)]:
        x = torch.arange(nb * c * h * w).view(nb, c, h, w)
        add(f'unsqueeze n={nb} c={c} h={h} w={w}', {'op': 'unsqueeze', 'c': nb * c, 'h': h, 'w': w},
            nats(unsqueeze_depth2d(x).numpy()))

    # --- coupling masks
    for n, rev in itertools.product([1, 2, 3, 6, 9], [False, True]):
        layer = CouplingLayer1d(n, 1, 4, affine=True, reverse=rev)
        assert np.array_equal(layer.inv_mask.numpy(), 1.0 - layer.mask.numpy())
        add(f'alternating n={n} rev={rev}', {'op': 'coupling_mask', 'kind': 'alternating', 'n': n, 'reverse': rev},
            bits(layer.mask.numpy()))
    for (c, h, w), rev in itertools.product([(1, 2, 2), (2, 2, 4), (3, 4, 2), (1, 3, 5)], [False, True]):
        layer = CouplingLayer2d((c, h, w), 'resnet', 1, 4, affine=True, channelwise=False, reverse=rev)
        assert np.array_equal(layer.inv_mask.numpy(), 1.0 - layer.mask.numpy())
        m = np.broadcast_to(layer.mask.numpy(), (c, h, w))
        add(f'checkerboard {c}x{h}x{w} rev={rev}',
            {'op': 'coupling_mask', 'kind': 'checkerboard', 'c': c, 'h': h, 'w': w, 'reverse': rev}, bits(m))
    torch.manual_seed(0)
    for (c, h, w), rev, affine in itertools.product([(2, 1, 1), (4, 2, 2), (8, 1, 2)], [False, True], [True, False]):
        # no mask object exists for channel-wise couplings: observe which coordinates pass through unchanged
        layer = CouplingLayer2d((c, h, w), 'resnet', 1, 4, affine=affine, channelwise=True, reverse=rev).eval()
        for p in layer.parameters():
            p.data.normal_()
        u = torch.randn(1, c, h, w, dtype=torch.float32)
        with torch.no_grad():
            x, _ = layer.apply_forward(u)
        m = (x == u).numpy().astype(int)
        add(f'channelwise {c}x{h}x{w} rev={rev} affine={affine}',
            {'op': 'coupling_mask', 'kind': 'channelwise', 'c': c, 'h': h, 'w': w, 'reverse': rev}, bits(m))

    # --- RealNVP2d permutation matrix and its (transposed) strided convolution
    for c in [1, 2, 3, 4, 6]:
        P = RealNVP2d.build_permutation_matrix(c)
        assert tuple(P.shape) == (4 * c, c, 2, 2)
        add(f'perm c={c}', {'op': 'perm', 'channels': c}, bits(P.numpy()))
    for c, h, w in [(1, 2, 2), (2, 2, 2), (1, 4, 2), (3, 4, 6), (2, 6, 4)]:
        P = RealNVP2d.build_permutation_matrix(c).double()
        x = torch.arange(c * h * w, dtype=torch.float64).view(1, c, h, w)
        add(f'permconv c={c} h={h} w={w}', {'op': 'permconv', 'c': c, 'h': h, 'w': w},
            nats(F.conv2d(x, P, stride=2).numpy()))
        y = torch.arange(c * h * w, dtype=torch.float64).view(1, 4 * c, h // 2, w // 2)
        add(f'permconvT c={c} h={h} w={w}', {'op': 'permconvT', 'c': c, 'h': h, 'w': w},
            nats(F.conv_transpose2d(y, P, stride=2).numpy()))

    got = run_driver(ops)
    bad = 0

    # --- numeric side check (float64): Jacobian sparsity of the real autoregressive layer is contained in the
    #     model's dependency matrix (+ diagonal), and slogdet(J) equals the reported log-det
    torch.manual_seed(1)
    for name, g in zip(names, got):
        if not name.startswith('made_'):
            continue
        cfg = dict(kv.split('=') for kv in name.split(' ')[1:])
        n, depth, units = int(cfg['n']), int(cfg['depth']), int(cfg['units'])
        if 'seed' in cfg:
            layer = AutoregressiveLayer(n, depth, units, 'tanh', sequential=False,
                                        random_state=np.random.RandomState(int(cfg['seed'])))
        else:
            layer = AutoregressiveLayer(n, depth, units, 'tanh', reverse=(cfg['rev'] == 'True'), sequential=True)
        layer = layer.double().eval()
        for prm in layer.parameters():
            prm.data.normal_()
        dep = np.array([[int(ch) for ch in row] for row in g.split(' # dep ')[1].split(' # ')[0].split(';')])
        x = torch.randn(1, n, dtype=torch.float64)
        J = torch.autograd.functional.jacobian(lambda v: layer.apply_backward(v)[0], x)[0, :, 0, :].numpy()
        allowed = dep + np.eye(n, dtype=int)
        if np.any((np.abs(J) > 0) & (allowed == 0)):
            bad += 1
            print('DISAGREE jacobian sparsity', name)
        with torch.no_grad():
            u, ildj = layer.apply_backward(x)
            xr, ldj = layer.apply_forward(u)
        sign, logabs = np.linalg.slogdet(J)
        if abs(logabs - ildj.item()) > 1e-8 or abs(ldj.item() + ildj.item()) > 1e-8 or \
                not torch.allclose(xr, x, atol=1e-8):
            bad += 1
            print('DISAGREE numeric', name, logabs, ildj.item(), ldj.item())
    for name, g, e in zip(names, got, expected):
        if g != e:
            bad += 1
            print('DISAGREE', name, '\n  lean  :', g, '\n  python:', e)
    print(f'{len(ops)} configurations, {bad} disagreements')
    print('sample:', json.dumps(ops[0]), '->', got[0])
    return 1 if bad else 0


if __name__ == '__main__':
    sys.exit(main())
